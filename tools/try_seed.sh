#!/bin/bash
# tools/try_seed.sh <patch.diff> <prop[,prop...]> : apply a seeded change to /repo, run the quick checks, undo it.
set -u
patch=$1; props=$2
cd /repo || exit 2
git diff --quiet || { echo "/repo is dirty"; exit 2; }
git apply "$patch" || { echo "patch does not apply"; exit 2; }
cd /verif
./check "$props" quick 2>&1 | grep -v "^KNOWN-FINDING" | cut -c1-400
rc=${PIPESTATUS[0]}
git -C /repo checkout -- . 
git -C /repo status --short | head -3
echo "check exit code: $rc"
