#!/bin/bash
# tools/try_refactor.sh <patch> [props] : apply a behaviour-preserving refactoring to /repo, run the quick checks
# (no controls), print every alarm (each one is a false alarm to investigate), undo.
set -u
patch=$1; props=${2:-all}
cd /repo || exit 2
git diff --quiet || { echo "/repo is dirty"; exit 2; }
git apply "$patch" || { echo "patch does not apply"; exit 2; }
cd /verif
./check "$props" quick -nocontrols 2>&1 | grep -v "^KNOWN-FINDING" | grep "rule=\|violations)" | grep -v " 0 violations" | cut -c1-${COLS:-420}
git -C /repo checkout -- .
git -C /repo status --short | head -3
