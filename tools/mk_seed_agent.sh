#!/bin/bash
# tools/mk_seed_agent.sh <prop-id> <suffix> ["extra hint"] : prepare a scratch worktree and the
# prompt file for a seeding sub-agent (which sees only the property text, never /verif).
set -eu
id=$1; suf=$2; hint=${3:-}
wt=/tmp/wt-$id$suf
git -C /repo worktree add --detach "$wt" HEAD >/dev/null 2>&1
python3 - "$id" "$wt" "$hint" <<'PY'
import json,sys
pid,wt,hint=sys.argv[1:4]
prop=None
for line in open('/verif/properties.jsonl'):
    o=json.loads(line)
    if o['id']==pid: prop=o
text=f"{pid}: {prop['title']}\n\n{prop['statement']}\n\nQuantifier: {prop.get('quantifier','')}"
t=open('/verif/tools/agent_prompt.tmpl').read().replace('PROPTEXT',text).replace('WT',wt).replace('PROPID',pid)
if hint:
    t+="\n\nAdditional constraint: "+hint+"\n"
open(f'/tmp/agent-{pid}{wt[-1]}.txt','w').write(t)
print(wt, f'/tmp/agent-{pid}{wt[-1]}.txt')
PY
