#!/bin/bash
# tools/keep_seed.sh <worktree> <name> "<detected-by text>" "<what I ran to confirm>"
set -eu
wt=$1; name=$2; det=$3; ran=$4
d=/verif/seeded/$name
mkdir -p $d
cp $wt/seeded/patch.diff $d/patch.diff
for f in $wt/seeded/*; do case "$f" in *patch.diff|*meta.json) ;; *) cp "$f" $d/ ;; esac; done
python3 - "$wt/seeded/meta.json" "$d/meta.json" "$det" "$ran" <<'PY'
import json,sys
m=json.load(open(sys.argv[1]))
m["detected_by"]=sys.argv[3]
m["confirmed_by_main"]=sys.argv[4]
m["how_to_apply"]="git -C /repo apply /verif/seeded/<name>/patch.diff ; run ./check <ids> quick ; git -C /repo checkout -- ."
json.dump(m,open(sys.argv[2],"w"),indent=1)
PY
ls $d
