#!/bin/bash
# tools/regress_refactors.sh : every stored behaviour-preserving refactoring must pass every check.
cd /verif || exit 2
rc=0
for d in refactors/*/; do
  t=$(basename $d)
  out=$(COLS=300 tools/try_refactor.sh /verif/refactors/$t/patch.diff all 2>&1)
  if [ -n "$out" ]; then echo "== $t: ALARMS"; echo "$out"; rc=1; else echo "== $t: silent"; fi
done
exit $rc
