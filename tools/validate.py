#!/usr/bin/env python3-vt
"""Validate MANIFEST.json and all evidence files against the schemas."""
import json, sys, glob, jsonschema
ms = json.load(open('/root/.vp/MANIFEST.schema.json'))
es = json.load(open('/root/.vp/EVIDENCE.schema.json'))
m = json.load(open('/verif/MANIFEST.json'))
jsonschema.validate(m, ms)
props = [json.loads(l)['id'] for l in open('/verif/properties.jsonl')]
claimed = [c['property_id'] for c in m['checks']]
na = [c['property_id'] for c in m.get('not_applicable', [])]
assert sorted(claimed + na) == sorted(props), (sorted(set(props) - set(claimed) - set(na)), [x for x in claimed if x in na])
print('manifest ok:', len(claimed), 'claimed,', len(na), 'not applicable')
bad = 0
for c in m['checks']:
    try:
        e = json.load(open(c['evidence_file']))
        jsonschema.validate(e, es)
        assert e['property_id'] == c['property_id']
        assert e['level'] == c['level_claimed']['category']
    except Exception as ex:
        bad += 1
        print('EVIDENCE PROBLEM', c['property_id'], str(ex)[:200])
print('evidence ok' if not bad else 'evidence problems: %d' % bad)
sys.exit(1 if bad else 0)
