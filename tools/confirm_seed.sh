#!/bin/bash
# tools/confirm_seed.sh <worktree> <pkgs to test...> : independently confirm a sub-agent's seeded change.
# Checks: patch == worktree diff, build, listed package tests pass WITH the change (demo excluded),
# demo fails WITH and passes WITHOUT the change.
set -u
export GOFLAGS=-mod=mod GOPROXY=off GOSUMDB=off GOTOOLCHAIN=local ELVISH_TEST_TIME_SCALE=20
wt=$1; shift
cd "$wt" || exit 2
echo "== files changed in worktree:"; git status --short | grep -v "^??" 
git diff -- . ':!seeded' > /tmp/confirm.diff
if ! diff -q <(git apply --stat /tmp/confirm.diff 2>/dev/null) <(git apply --stat seeded/patch.diff 2>/dev/null) >/dev/null; then echo "NOTE: worktree diff differs from seeded/patch.diff"; fi
echo "== build"; go build ./... || { echo BUILD-FAIL; exit 1; }
# move demo test files out of the way for the existing-suite run
demos=$(git status --short | grep "^??" | awk '{print $2}' | grep "_test.go$")
mkdir -p /tmp/confirm-demos; for d in $demos; do mv "$d" /tmp/confirm-demos/$(echo $d | tr / _); done
echo "== existing tests with change: $*"
go test -count=1 "$@" 2>&1 | grep -v "no test files" | tail -15
for d in $demos; do mv /tmp/confirm-demos/$(echo $d | tr / _) "$d"; done
echo "== demo WITH change (expect non-zero)"; bash seeded/run_demo.sh >/tmp/confirm-with.log 2>&1; echo "exit=$?"; tail -5 /tmp/confirm-with.log
git apply -R seeded/patch.diff || { echo "cannot revert"; exit 1; }
echo "== demo WITHOUT change (expect zero)"; bash seeded/run_demo.sh >/tmp/confirm-without.log 2>&1; echo "exit=$?"; tail -3 /tmp/confirm-without.log
git apply seeded/patch.diff
