#!/bin/bash
# tools/mk_refactor_agent.sh <tag> "<scope text>" : scratch worktree + prompt file for a sub-agent that
# makes a behaviour-preserving refactoring (used to look for false alarms; it never sees /verif).
set -eu
tag=$1; scope=$2
wt=/tmp/rf-$tag
git -C /repo worktree add --detach "$wt" HEAD >/dev/null 2>&1
python3 - "$wt" "$scope" "$tag" <<'PY'
import sys
wt,scope,tag=sys.argv[1:4]
t=open('/verif/tools/refactor_prompt.tmpl').read().replace('SCOPE',scope).replace('WT',wt)
open(f'/tmp/agent-rf-{tag}.txt','w').write(t)
print(wt, f'/tmp/agent-rf-{tag}.txt')
PY
