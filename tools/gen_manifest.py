#!/usr/bin/env python3
"""Regenerates /verif/MANIFEST.json from the list of properties that have a
static check (bin/elvsa -list) and the texts below."""
import json, subprocess, os

HERE = os.path.dirname(os.path.dirname(os.path.abspath(__file__)))
ENV = "GOFLAGS=-mod=mod GOPROXY=off GOSUMDB=off GOTOOLCHAIN=local GOWORK=off"

# property -> (technique, level text, level note, design ref)
CLAIMED = {
 "C01": ("parser tiling typestate over SSA with interprocedural summaries (TILE), who-may-construct check (WRAP), error-range check (ERRPOS); def-use identity of the parser's text with the caller's Source (SRC-IDENTITY)",
         "Structural lemma, all paths: every parse function covers the runes it consumes with children (no gap before a child or after the last child), nodes are only built through the range-recording wrapper, and explicit error ranges are in-bounds forms. Termination and per-input error positions are not decided. SRC-IDENTITY: the parser works on Source.Code itself, so ranges index the caller's text.",
         "trusts go/ssa; the event vocabulary (next/backup/addSep/parse/addChild) is taken from pkg/parse; audit table: Compound.tilde"),
 "C02": ("who-may-write + expression-shape check on the Partial flag (PARTIAL-DEF), sibling agreement of the editor's completeness predicate (ENTER-AGREE), who-may/shape rule on the ranges handed to parser.errorp (ERROR-AT-POS)",
         "Decides clause 2 (an error is marked partial only when it starts at the end of the input) and that the editor's Enter decision uses that flag or the same end-of-input test; of the grammar-level clause 1 only the structural part is decided: every parse error is reported at the parser's position at the report (or a constant number of bytes before it), never at a saved position or over a node's range.",
         "trusts go/types constant and object resolution"),
 "C06": ("SSA freshness (copy-on-write) dataflow with fresh-return fixpoint (FRESH); API aliasing scan (API-OPAQUE); dominance check of index parameters against the slice's own extent (SLICE-OWN-BOUNDS); interval facts on every index into a fixed-size tree node (NODE-INDEX)",
         "Structural lemma, all instructions: no write in pkg/persistent/vector targets memory reachable from an existing vector, so previously obtained lists cannot change. Agreement with the array model is not decided. Also decided: a slice rejects out-of-range requests against its own bounds before delegating, and no tree node is indexed by an unmasked value.",
         "trusts go/ssa; cursor (iterator) state is exempt by type"),
 "C07": ("SSA freshness (copy-on-write) dataflow with fresh-return fixpoint (FRESH); API aliasing scan (API-OPAQUE)",
         "Structural lemma, all instructions: no write in pkg/persistent/hashmap targets memory reachable from an existing map, so earlier versions cannot change. Agreement with a reference dictionary is not decided.",
         "trusts go/ssa; cursor (iterator) state is exempt by type"),
 "C14": ("SSA freshness over the Assoc/Dissoc call tree and element-variable code (FRESH); def-use check that the head variable is set only from the Assoc/Dissoc chain (ASSOC-CHAIN)",
         "Structural lemma: element assignment/deletion reaches containers only through vals.Index/Assoc/Dissoc, none of which (nor the persistent packages under them) writes into non-fresh memory, and the head variable is rebound only to the chain's result. That exactly the addressed element changes is not decided.",
         "trusts go/ssa; user-defined Assocer implementations outside pkg/eval/vals are not followed"),
 "C17": ("interprocedural taint from script-controlled values to panic-prone operations with dominating-guard facts (PANIC-SINK); variadic-argument index check (VARIADIC-INDEX); lock-region check on writes to package-level maps (GLOBAL-MAP-WRITE) and write-under-read-lock contradiction rule (RLOCK-WRITE); length-bound check on value lists returned by the interpreter (RESULT-INDEX); nil-flow analysis from every command parameter for which argument conversion accepts $nil to its dereferences, through cells, closures and repository callees (NIL-ARG)",
         "Structural necessary condition for the no-panic clause: package-level maps are written after initialisation only under a write lock and nothing is written under a read lock (unsynchronised map writes abort the process); no value chosen by the script (command arguments and options, redirection fds, input values, evaluated expressions) reaches an index, slice bound, make size, integer divisor, signed shift, unchecked type assertion or argument-panicking library call unless checks on every path establish that it is safe; audited exceptions are listed with reasons; a list handed back by vals.Collect or Frame.CaptureOutput is indexed only within a proven length; every command parameter that can arrive as $nil (pointer, non-empty interface, map, func) is compared with nil before it is needed, and typed variables refuse $nil. Other nil dereferences, resource exhaustion and the no-hang clause are not decided.",
         "trusts go/ssa, the curated library-sink table and the audit table (sa/internal/rules/c17.go); guard facts assume loads of the same field between a check and its use see the same value"),
 "C18": ("who-may-send ownership check on pipeline value channels (SEND-OWN), ordering/pairing on the per-form function's CFG (STOP-ORDER), literal check (SENDERR-NONNIL), def-use check of the exception slice (ALL-EXC), early-exit-before-join pattern (NO-JOIN-ON-EARLY-EXIT), who-may rule on token-limited readers (INPUT-TO-EOF), reachability rule from externalCmd.Call to value-channel operations (EXT-NO-VALUES), type-case check of the reader-gone predicate (GONE-COMBINED), use check on values received from value channels (NIL-IS-A-VALUE)",
         "Structural necessary conditions for the reader-gone/no-deadlock and all-exceptions clauses: value sends always watch sendStop; the reader-gone error is published before sendStop is closed; owned ports are closed and wg.Done runs exactly once per form; every form has its own exception slot; no command joins a band-draining goroutine after it may have stopped reading the other band (two known findings: only-values, only-bytes); running an external command touches no value channel; reader-gone is recognised through error combinators; a received nil is never taken for a closed channel. Delivery order and exactly-once delivery are not decided.",
         "trusts go/ssa; channel provenance is resolved through fields, locals and captured variables, not through arbitrary aliases"),
 "C19": ("dominance checks on the pipeline/chunk CFGs (CANCEL-GATE), must-check-result rule on semaphore.Acquire (ACQUIRE-CHECK), select-shape rule for timer waits (INTERRUPTIBLE-BLOCK), spawn/join pairing for every go statement (JOINED); reachability of stores to shared state after a plain WaitGroup.Done (DONE-LAST)",
         "Structural necessary conditions: no pipeline starts without testing for an interrupt, a chunk reports an interrupt before returning normally, a failed Acquire never leads to a started callback or a Release, timer waits are interruptible, every goroutine of pkg/eval and pkg/mods is joined or an audited long-lived helper. Promptness and real schedules are not decided. DONE-LAST: nothing the spawner reads is written after Done.",
         "trusts go/ssa; the audit table of deliberately unjoined goroutines in sa/internal/rules/c19.go"),
 "C20": ("WaitGroup discipline on all paths (WG-DISCIPLINE), re-validation of the stop flag after the blocking Acquire (RECHECK), semaphore acquire/release pairing (SEMA-PAIR), lock-dominates-store and no-unchecked-assertion rules on error aggregation (ERR-AGG); reachability of stores to shared state after a plain WaitGroup.Done (DONE-LAST)",
         "Structural necessary conditions for peach/run-parallel: Add before go, Done exactly once per worker, Wait before every return, the broken flag re-read after waiting for a slot, slots released exactly once or handed to a worker, shared error written under its mutex, callee errors never asserted unchecked. Output union and exactly-once per input under all schedules are not decided. DONE-LAST: a worker's exception is recorded before Done, so it cannot be lost.",
         "trusts go/ssa"),
 "C21": ("defer/dominance and pairing checks on the with/tmp/defer machinery (RESTORE-DEFER, DEFERS-RUN), loop-direction check on the restore loops (REVERSE), guarded-overwrite check on exception combination (BODY-WINS), lock-region check on writes through Frame fields shared by forks (FORK-SHARED), who-may-write rule on compiled ops during execution (OP-READONLY)",
         "Structural necessary conditions on every exit path: with's restores run from a defer registered before the first assignment; set() saves before Var.Set and registers the restore only on success; tmp registers through the frame's defer list; Closure.Call always runs the defer list after the body; both restore loops run last-to-first; a restore/deferred exception replaces the result only when the body's is nil; the defer list shared by the forks of a frame is appended to under a mutex; no exec method of a compiled op writes into the op (re-entered executions share it). Restored values and dynamic nesting are not decided.",
         "trusts go/ssa"),
 "C22": ("dominance of module evaluation by a failed lookup of the same key (CACHE-KEY), install/execute/delete pairing on all paths of evalModule (INSTALL-PAIR), branch-shape check of relative-spec resolution plus call-graph reachability from the compiler to os.Getwd (RELATIVE-BASE)",
         "Structural necessary conditions: a module is evaluated only after its key missed in the module table and is installed under that same key before running, the importer gets the installed namespace, a failing evaluation deletes the entry on every path, relative specs resolve against the importing file's directory or the working directory, which is read when the import runs and not when the code is compiled. Path normalisation, plugins and concurrent imports are not decided.",
         "trusts go/ssa"),
 "C16": ("dominance of prepare/execute/global-store by the no-error edges of parse and compile (GATE), parameter-use check that compile clones its namespace (COMPILE-PURE), argument-provenance check over all compile callers and backward slice of what a static check returns (CHECK-AGREE)",
         "Structural necessary conditions: nothing is prepared, stored into the interpreter or executed unless both parsing and compilation succeeded; compilation mutates only a clone of the namespace; evaluation and the static check compile against the same builtin and namespace views, and a static check reports the compilation it has just done, not a remembered answer. Equality of the reported error sets for all programs is not decided.",
         "trusts go/ssa"),
 "C08": ("sibling agreement between Equal and Hash implementations: receiver-field subset check per type (EH-PAIR), per-case checks inside vals.Hash - zero normalisation, commutative and identical map/field-map combiners (EH-CASE), case-order consistency (EH-ORDER), reachability rule from Hash/Equal to mutable state (KEY-STABLE), dominance of collision-node construction by hash equality (COLLISION-HASH)",
         "Structural necessary condition for 'eq implies same hash', type by type: fields hashed are fields compared, address hashes only with identity equality, +0/-0 hash alike, eq maps and field maps hash alike regardless of iteration order; Hash and Equal read no state a later operation changes (two known findings: a file is identified by its descriptor, which changes on close); a collision node of the hash trie only ever holds keys of one hash. Other properties of the hash map are C07's business.",
         "trusts go/ssa; reflect-based equality (DeepEqual) counts as comparing all fields"),
 "C09": ("agreement of the number-representation sets across the comparison machinery's type switches (NUMSET), detection of lossy conversions on the comparison path (CMP-DOMAINS); use-discipline rule on strings asserted out of compared values (STRING-BYTES)",
         "Two structural necessary conditions of a transitive total preorder: all number switches range over exactly {int, *big.Int, *big.Rat, float64}; no exact operand is ordered through float64 while exact pairs are ordered exactly (known finding on today's tree, documented behaviour). Reflexivity, symmetry, NaN placement and list order are not decided. STRING-BYTES: compared strings are ordered only by the built-in (bytewise) comparison.",
         "trusts go/ssa"),
 "C10": ("who-may-sort rule (STABLE), dominance of outputs by the comparator-error latch and latch-on-every-failing-exit (LATCH), paired swap check (SWAP-PAIR)",
         "Structural necessary conditions for stability and failure atomicity: only stable sorts are applied, nothing is output unless the comparator reported no error after sorting, every failing comparator exit sets the latch, keys are swapped with values. Sortedness and permutation are not decided.",
         "trusts go/ssa"),
 "C11": ("def-use rule that big numbers pass a normaliser before becoming Elvish values (NORM, GOFN-NORM), taint-to-sink rule for zero divisors of big-number operations (EXACT-ZERO)",
         "Structural necessary conditions for canonical form and for 'no exact result raises an exception': no *big.Int/*big.Rat is output or stored in a container un-normalised, goFn.Call normalises every builtin return value, every zero-panicking big-number operation reached by script numbers (also through a math/big receiver the number was written into) is guarded by a non-zero test, follows from a library contract (Rat.Denom, Int.Exp) or is audited; the audit entry for `/` is conditional on finding the comparison of every argument with exact 0 before the numbers are unified. Numeric correctness is not decided.",
         "trusts go/ssa; EXACT-ZERO shares the audit table of C17"),
 "C24": ("def-use check that history keys come from bbolt's NextSequence of the same transaction (SEQ-SOURCE), encoder/decoder sibling agreement on fixed-width big-endian keys (KEY-ORDER), path check that every operation, listings included, runs at most one transaction (ONE-TX)",
         "Structural necessary conditions: sequence numbers come only from the bucket's counter (never set by hand, never derived from existing keys), and every key a cursor compares is an 8-byte big-endian integer produced and read by one codec pair, so byte order equals numeric order; a listing is one cursor walk over one snapshot. Search and score semantics are not decided.",
         "trusts go/ssa and bbolt's sequence counter"),
 "C25": ("who-may rule for bbolt mutations (TX-ONLY), constant evaluation of bolt.Options (SYNC-ON), def-use check that transaction errors are returned (ACK-AFTER-COMMIT)",
         "Structural argument that durability is delegated to bbolt correctly: mutations only inside DB.Update (or initDB, run inside Update), fsync never disabled for the persistent store and a positive lock timeout, every operation returns its transaction's error. bbolt's own crash behaviour is trusted, not decided.",
         "trusts go/ssa and bbolt; audited: the temporary test store opens with NoSync"),
 "C26": ("path check that each store operation runs at most one transaction (ONE-TX), field-write and call-count check on RPC handlers (STATELESS-SERVICE), freshness of the per-request argument and reply objects in the RPC server (REPLY-FRESH)",
         "Structural argument for linearizability: each operation is exactly one bbolt transaction (bbolt serialises them) and the RPC service adds no state or multi-step handlers, and each request is served with argument and reply objects allocated for it alone. Client reconnect logic, transport and real interleavings are not decided.",
         "trusts go/ssa and bbolt's transaction isolation"),
 "C27": ("dominance of the socket removal by the success edge of Listen (REMOVE-OWN), guard check on every exit of the serve loop (SERVE-WHILE-CLIENTS), closed-channel receive rule on select loops (RECV-CLOSED-ONCE), single-unlink rule (UNLINK-ONCE), dominance of the stale-socket status by errors.Is(err, ECONNREFUSED) (STALE-ONLY-REFUSED); acceptor/loop goroutine separation check on the no-clients exit (SERVE-WHILE-CLIENTS, one known finding)",
         "Structural clauses: the daemon removes only a socket it successfully listened on, and only once; it leaves its serve loop only on a signal or when no client is connected, with the connection set touched only by the loop, and the loop cannot spin on a closed channel; a shell declares a socket stale only when connecting was refused. The cross-process activation races as a whole are not decided. Known finding: the exit on no clients does not see a connection accepted but not yet registered.",
         "trusts go/ssa"),
 "C31": ("length-lower-bound analysis of every index into lists built from terminal bytes (SEQ-INDEX); constant/provenance evaluation of every read timeout in the terminal reader (TIMEOUT-ALL); paired-comparison rule on utf8.RuneError (RUNEERROR-WIDTH)",
         "Structural necessary conditions: ('without crashing') every index or slice operation of the decoder on a list built from terminal bytes is within a length established on every path; ('never blocks past its timeout') every read after the first byte of an event carries a timeout that is a positive package constant or the caller's own; blocking reads are first on every path and outside loops. Decoding correctness is not decided. RUNEERROR-WIDTH: U+FFFD counts as a decoding failure only together with the reported width.",
         "trusts go/ssa; unix reader only (reader_unix.go)"),
 "C33": ("who-may-construct rule for ui.Text values with a guarded single-segment idiom and an audit table (NF-BUILDER), freshness of what TextBuilder.Text returns (BUILDER-FRESH), bounds-differ guard on returned slices of a text (SLICE-NONEMPTY); who-may-write rule on elements of ui.Text outside pkg/ui (TEXT-ELEM-STORE)",
         "Structural necessary condition for the normal-form clause inside pkg/ui: a Text is assembled by hand only inside the normalising API (TextBuilder, TextFromSegment, Concat), as a single non-empty segment, or at audited sites that preserve normal form; one known finding (StyleText, pinned by an existing unit test); the builder never hands out its own array; an empty slice of a text is nil. Content equalities and the styledown round trip are not decided. TEXT-ELEM-STORE: no segment of a styled text is replaced in place outside pkg/ui.",
         "trusts go/ssa and the normalising API itself; Text values assembled outside pkg/ui are not examined"),
 "C40": ("ownership pairing for opened descriptors (OPEN-OWNED), must-call rule for returned cleanup functions on all success paths (CLEANUP-CALLED), close-before-overwrite dominance (REPLACE-CLOSES), spawn/join pairing (JOINED); guard-dominance on ownership moves and pre-growth of the ownership table before a record pointer is kept (OWN-PAIR d, e)",
         "Structural necessary conditions: every descriptor the evaluator opens is closed in place or recorded as owned by a form whose epilogue closes it; every cleanup function of a capture/pipe/file port is called or handed on on every path; a redirection closes the port it replaces; every goroutine is joined. Descriptor counts and the os.Pipe-failure path are not decided. OWN-PAIR (d)/(e): ownership is handed over only by an owner, and kept record pointers cannot be invalidated by a reallocation.",
         "trusts go/ssa; audited: process-lifetime /dev/null handle and black-hole drain"),
 "C42": ("constant evaluation of the open-flag table against the mode specification (FLAGS), taint-to-index check on the port table (FD-RANGE), guard check for self-duplication (DUP-SELF), ownership and close-before-overwrite rules (OPEN-OWNED, REPLACE-CLOSES), literal check for the closed port (SENDERR-NONNIL), totality of value I/O on installed ports: non-nil channel in every Port literal and closed-placeholder exclusion before every send (PORT-TOTAL), control-dependence check of the invalid-fd decision (FD-VALID), shape check of the file table handed to os.StartProcess (FD-POSITIONAL)",
         "Structural necessary conditions: each redirection mode compiles to exactly its open(2) flags, evaluated fds are range-checked on both sides before indexing or growing the port table, n>&n does not reuse a port it just closed, files opened by a redirection are owned by the form, the replaced port is closed, n>&- installs a port whose value output raises, and whether an fd is invalid depends on the number and the table entry only, never on the state of the port found; a port shared after n>&m is not closed under the other fd; an external command gets one file slot per port. Actual byte routing is not decided.",
         "trusts go/ssa and go/constant; flag values are read from package os for the analysed platform (thorough tier: five platforms)"),
 "C39": ("lockset dataflow over SSA with boolean-correlated path sensitivity (EVALER-LOCK, PTRVAR-LOCK); guarded-field set derived from the struct declaration (GUARDED-SET); table-free write-under-read-lock contradiction rule (RLOCK-WRITE); lock-region check on writes through Frame fields shared by forks (FORK-SHARED)",
         "Structural necessary condition, all paths of all functions: every access to the interpreter's mutex-guarded fields and every dereference of a PtrVar pointer happens with the right lock held; maps do not leave the critical section; locks are balanced; what the forks of a frame share through a pointer field is written only under a mutex. Freedom from races on other state and serialisability of results are not decided.",
         "trusts go/ssa; lock identity is by struct field, not by object (one Evaler per interpreter)"),
 "C32": ("lockset on the redraw flag (FULL-LOCK), select/capacity shape check (NONBLOCK), path pairing on the event loop's CFG (FINAL-ONCE, REDRAW-AFTER-WAKE), who-may-send rule on the input channel (INPUT-FIFO)",
         "Structural necessary conditions: the full-redraw flag is set before the wake-up token inside one critical section, request sends never block and are never dropped for lack of buffer, every return of the loop passes exactly one final redraw, the loop starts no goroutine and always redraws between two waits, and events enter the input channel through the supplier's own send. Arrival order beyond that and liveness under real schedules are not decided.",
         "trusts go/ssa"),
 "C30": ("lockset on the highlight cache (CACHE-LOCK), control-dependence check of the late store on cache.code == captured code (STALE-GUARD), literal/def-use agreement (GET-CONSISTENT)",
         "Structural lemma for the 'never stale' clause: a late result is stored only if, under the lock, the cached code still equals the code it was computed for; the synchronous path caches code and result together. That highlighted segments concatenate back to the code is not decided.",
         "trusts go/ssa"),
 "C44": ("guard-dominance check on every value decoded from the wire in pkg/lsp (WIRE-GUARD), goroutine reachability / who-may rule on the documents map (HANDLER-SYNC), def-use agreement of the text used for parsing, completing, storing and converting positions (TEXT-AGREE), def-use and loop-path check of the published diagnostics (DIAG-SOURCE), lock-and-version check on asynchronous publishing (DIAG-ORDER), length-bound check on constant-index accesses (LSP-INDEX)",
         "Structural necessary conditions: decoded pointers, slices, strings, interfaces and numbers are dereferenced, indexed, asserted or used as an index only under a dominating check (the server has no recover); the documents map is touched only by the synchronous handlers; one request uses one text for parsing, completion, storage and every position conversion, and the tree searched belongs to that text; diagnostics are exactly the converted ranges of the unpacked parse errors of that text, one per entry, published under the document's URI, and when published from a goroutine per update the diagnostics of an older text are dropped once newer ones are out; fixed-position accesses to strings and lists have a proven length. The UTF-16/CRLF arithmetic of walkString and its round trip, and the content of hover/completion answers, are not decided.",
         "trusts go/ssa, json.Unmarshal's zero-value behaviour for absent members and jsonrpc2's one-request-at-a-time handler calls"),
 "C29": ("who-may-write and def-use check on the frozen bound of the shared history and guard-dominance check on every database read (FROZEN-UPPER); def-use check of the session entry's sequence number (SESSION-ADD); direction agreement of inner cursor moves (DIRECTION-PURE); aliasing check on AllCmds results (ALLCMDS-FRESH)",
         "Structural necessary condition of the 'session's view' clause: the bound of the shared history is read from the database once per store, is never rewritten, and bounds every database read of the store and its cursor (commands stored by other sessions after the session started cannot enter the walk); session commands are recorded under the number the shared store returned. Matching, order, de-duplication and the cursor hand-off are not decided. Also decided: composite cursors move their inner cursors only in their own direction, and no store hands out the slice that holds its history.",
         "trusts go/ssa; the bound field is discovered from the flow of DB.NextCmdSeq's result, not from names"),
}

NOT_APPLICABLE = {
 "C03": "quoting round trip is an equality over all strings; the only structural facts (quoter and parser share predicate functions and the escape table) hold by construction and a rule on them would also fire on correct independent re-implementations",
 "C04": "repr round trip is value-level equality of evaluated text; no clause is visible in the shape of the code",
 "C05": "number <-> string round trip depends on the numeric/lexical semantics of strconv and math/big over unbounded inputs",
 "C12": "IEEE-754 arithmetic results are bit-exact numeric facts; nothing structural to decide",
 "C13": "indexing/slicing semantics are integer arithmetic over lengths and bounds; deciding them needs symbolic or exhaustive evaluation, which is a different technique family",
 "C15": "agreement of the core language with a reference interpreter is whole-language semantics",
 "C23": "wildcard match semantics over directory trees are value-level (a known matcher defect, *b*[set:x]c vs bxbxc, is invisible to any structural rule)",
 "C28": "cursor validity and exact kill ranges depend on string contents and rune boundaries",
 "C34": "width fitting is column arithmetic over rune widths",
 "C35": "Markdown rendering vs CommonMark is translation correctness over all documents; termination is not statically decided here",
 "C36": "Markdown formatter idempotence/meaning preservation is translation correctness over all documents",
 "C37": "error line/column positions are arithmetic over strings",
 "C38": "getopt semantics are parsing semantics over argument lists",
 "C41": "string/regex algebraic laws are value-level identities",
 "C43": "completion correctness needs evaluation of the inserted text and depends on the file system",
}

PENDING = "the design (DESIGN.md section 3) names structural rules for this property, but its checker is not built yet, so it is not claimed"

def main():
    ids = subprocess.run([os.path.join(HERE, "bin/elvsa"), "-list"], capture_output=True, text=True, check=True).stdout.split()
    props = [json.loads(l) for l in open(os.path.join(HERE, "properties.jsonl"))]
    baseline = json.load(open("/root/.vp/BASELINE.json"))["cmd"]
    checks, na = [], []
    for p in props:
        pid = p["id"]
        if pid in ids and pid in CLAIMED:
            tech, text, note = CLAIMED[pid]
            checks.append({
                "property_id": pid,
                "quick_cmd": "./check %s quick" % pid,
                "thorough_cmd": "./check %s thorough" % pid,
                "evidence_file": "/verif/evidence/%s.json" % pid,
                "replay_cmd_template": "./check %s explain {path}" % pid,
                "engine": "elvsa",
                "level_claimed": {"category": "other", "text": "static analysis, structural necessary condition only. " + text, "design_ref": "DESIGN.md section 3, " + pid},
                "level_note": note + "; decides the named structural clause for every path/site of the current source, not the input-level behaviour",
                "technique": "static analysis: " + tech,
            })
        else:
            na.append({"property_id": pid, "reason": NOT_APPLICABLE.get(pid, PENDING)})
    m = {
        "version": 1,
        "setup_cmd": "cd /verif/sa && %s go build -o ../bin/elvsa ./cmd/elvsa" % ENV,
        "hooks": {
            "guard": "verif",
            "enable": "none needed: static analysis reads the source; no instrumentation exists and no file in /repo carries the tag",
            "baseline_off_cmd": baseline,
            "source_commits": [],
            "add_only": True,
        },
        "engines": [{"name": "elvsa", "path": "/verif/sa", "serves_properties": [c["property_id"] for c in checks],
                     "kind_free_text": "custom static analyser over go/packages + go/types + go/ssa (x/tools v0.29.0): freshness, lockset, pairing/must-pass-through, taint-to-panic-sink, sibling-agreement, who-may and typestate rules written for this repository"}],
        "checks": checks,
        "not_applicable": na,
        "notes": "All checks are static: they load /repo's current working tree, never execute it. fix: commits in /repo and known findings are listed in /verif/known_findings.txt. Controls (seeded faults / benign rewrites) are applied in memory through go/packages overlays.",
    }
    json.dump(m, open(os.path.join(HERE, "MANIFEST.json"), "w"), indent=1)
    print("claimed:", [c["property_id"] for c in checks])

main()
