// Command elvsa is the static-analysis driver for the properties in
// /verif/properties.jsonl. It inspects the current source of the repository
// (never runs it) and reports specific constructs as violations.
package main

import (
	"encoding/json"
	"flag"
	"fmt"
	"os"
	"os/exec"
	"path/filepath"
	"runtime"
	"runtime/debug"
	"sort"
	"strconv"
	"strings"
	"sync"
	"time"

	"verif/sa/internal/core"
	"verif/sa/internal/rules"
)

func main() {
	prop := flag.String("prop", "", "property id(s), comma separated, or 'all'")
	tier := flag.String("tier", "quick", "quick | thorough")
	repo := flag.String("repo", "/repo", "repository root")
	verif := flag.String("verif", "/verif", "verification directory (evidence, known findings)")
	noControls := flag.Bool("nocontrols", false, "skip positive/negative controls")
	selftest := flag.Bool("selftest", false, "run every control of the selected properties and fail if any control fails")
	variants := flag.Bool("variants", false, "also run the independently written variants under seeded/ and refactors/ as controls (always on in the thorough tier)")
	list := flag.Bool("list", false, "list properties with a check")
	explain := flag.String("explain", "", "print a replay file")
	dump := flag.Bool("dump", false, "print all obligations")
	flag.Parse()

	if *explain != "" {
		b, err := os.ReadFile(*explain)
		if err != nil {
			fmt.Fprintln(os.Stderr, err)
			os.Exit(2)
		}
		fmt.Println(string(b))
		var m map[string]any
		if json.Unmarshal(b, &m) == nil {
			fmt.Printf("\nTo reproduce: %v\n", m["how_to_replay"])
		}
		return
	}
	if *list {
		for _, id := range rules.IDs() {
			fmt.Println(id)
		}
		return
	}
	if *tier != "quick" && *tier != "thorough" {
		fmt.Fprintln(os.Stderr, "bad tier")
		os.Exit(2)
	}
	var ids []string
	if *prop == "all" {
		ids = rules.IDs()
	} else {
		for _, id := range strings.Split(*prop, ",") {
			if id = strings.TrimSpace(id); id != "" {
				ids = append(ids, id)
			}
		}
	}
	if len(ids) == 0 {
		fmt.Fprintln(os.Stderr, "no property given")
		os.Exit(2)
	}
	seed, _ := strconv.ParseInt(os.Getenv("VERIF_SEED"), 10, 64)
	abs, err := filepath.Abs(*repo)
	if err == nil {
		*repo = abs
	}
	kf, err := core.LoadKnown(filepath.Join(*verif, "known_findings.txt"))
	if err != nil {
		fmt.Fprintln(os.Stderr, "known findings:", err)
		os.Exit(2)
	}
	os.MkdirAll(filepath.Join(*verif, "evidence"), 0o755)

	var specs []*core.Spec
	for _, id := range ids {
		s := rules.Get(id)
		if s == nil {
			fmt.Fprintf(os.Stderr, "no static check for %s (see not_applicable in MANIFEST.json)\n", id)
			os.Exit(2)
		}
		specs = append(specs, s)
	}

	configs := []core.Config{{}}
	if *tier == "thorough" {
		configs = core.Matrix
	}
	start := time.Now()
	outcomes := map[string]*core.Outcome{}
	for _, s := range specs {
		outcomes[s.ID] = &core.Outcome{Property: s.ID, Tier: *tier, Seed: seed, Counts: map[string]int{},
			Explanation: s.Explanation, Rules: s.Rules, Trusted: s.Trusted, NotCovered: s.NotCovered, MinCounts: s.MinCounts}
	}
	baseline := map[string]map[string]bool{}

	// group specs by load patterns so that one load serves several properties
	groups := map[string][]*core.Spec{}
	var gkeys []string
	for _, s := range specs {
		k := strings.Join(s.Patterns, " ")
		if _, ok := groups[k]; !ok {
			gkeys = append(gkeys, k)
		}
		groups[k] = append(groups[k], s)
	}
	exit := 0
	for ci, cfg := range configs {
		for _, gk := range gkeys {
			grp := groups[gk]
			p, err := core.Load(core.LoadOpts{Repo: *repo, Patterns: grp[0].Patterns, Config: cfg})
			if err != nil {
				// fail closed: an unloadable configuration is a failed check
				fmt.Fprintf(os.Stderr, "LOAD FAILURE (%s): %v\n", cfg, err)
				for _, s := range grp {
					oc := outcomes[s.ID]
					oc.Obligations = append(oc.Obligations, core.Obligation{Rule: "LOAD", Construct: "config " + cfg.String(), Pos: "-", Status: core.Violation,
						Detail: "the repository does not load/type-check in this configuration: " + err.Error(), Config: cfg.String()})
					oc.Configs = append(oc.Configs, cfg.String()+" (failed)")
				}
				continue
			}
			for _, s := range grp {
				oc := outcomes[s.ID]
				if len(s.OnlyGOOS) > 0 && cfg.GOOS != "" {
					applies := false
					for _, g := range s.OnlyGOOS {
						if g == cfg.GOOS {
							applies = true
						}
					}
					if !applies {
						oc.Configs = append(oc.Configs, cfg.String()+" (skipped: the anchored code is built only for "+strings.Join(s.OnlyGOOS, "/")+")")
						continue
					}
				}
				r := core.NewReport(s.ID, p)
				func() {
					defer func() {
						if x := recover(); x != nil {
							r.Bad("ANALYSER", "panic", "-", fmt.Sprintf("analyser panic (fail closed): %v\n%s", x, debug.Stack()))
						}
					}()
					s.Run(p, r)
				}()
				oc.Obligations = append(oc.Obligations, r.Obligations...)
				if ci == 0 {
					oc.Notes = append(oc.Notes, r.Notes...)
					for k, v := range r.Counts {
						oc.Counts[k] += v
					}
					oc.Packages = len(p.Pkgs)
					oc.Functions = len(p.RepoFns)
					b := map[string]bool{}
					for _, o := range r.Violations() {
						b[o.Key()] = true
					}
					baseline[s.ID] = b
				}
				oc.Configs = append(oc.Configs, cfg.String())
				if *dump {
					for _, o := range r.Obligations {
						fmt.Printf("%-10s %-22s %s @ %s %s %s\n", o.Status, o.Rule, o.Construct, o.Pos, o.Idiom, o.Detail)
					}
					for _, n := range r.Notes {
						fmt.Println("NOTE", n)
					}
				}
			}
			p = nil
			runtime.GC()
		}
	}

	// controls
	if !*noControls {
		type job struct {
			s *core.Spec
			c core.Control
		}
		var jobs []job
		for _, s := range specs {
			for _, c := range s.Controls {
				if *tier == "thorough" || *selftest || c.Quick {
					jobs = append(jobs, job{s, c})
				}
			}
			if *tier == "thorough" || *variants {
				for _, c := range core.VariantControls(*verif, s) {
					jobs = append(jobs, job{s, c})
				}
			}
		}
		results := make([]core.ControlResult, len(jobs))
		sem := make(chan struct{}, 5)
		var wg sync.WaitGroup
		for i, j := range jobs {
			wg.Add(1)
			go func(i int, j job) {
				defer wg.Done()
				sem <- struct{}{}
				defer func() { <-sem }()
				results[i] = core.RunControl(*repo, j.s, j.c, baseline[j.s.ID])
			}(i, j)
		}
		wg.Wait()
		for i, j := range jobs {
			oc := outcomes[j.s.ID]
			oc.Controls = append(oc.Controls, results[i])
			if results[i].Outcome == "FAILED" && *selftest {
				exit = 3
			}
		}
	}

	if *tier == "thorough" {
		cache := map[string]map[string]string{}
		for _, s := range specs {
			pk := s.CrossRefPkgs
			if len(pk) == 0 {
				pk = s.Patterns
			}
			k := strings.Join(pk, " ")
			if _, ok := cache[k]; !ok {
				cache[k] = crossRef(*repo, pk)
			}
			outcomes[s.ID].CrossRef = cache[k]
		}
	}

	for _, s := range specs {
		oc := outcomes[s.ID]
		oc.Wall = time.Since(start)
		sort.Strings(oc.Notes)
		if code := oc.Finish(kf, *verif); code > exit {
			exit = code
		}
	}
	os.Exit(exit)
}

// crossRef runs generic tools on the anchor packages and attaches their
// output size and head to the evidence. They decide nothing.
func crossRef(repo string, pkgs []string) map[string]string {
	out := map[string]string{}
	if len(pkgs) == 0 {
		return out
	}
	env := append(os.Environ(), "GOFLAGS=-mod=mod", "GOPROXY=off", "GOSUMDB=off", "GOTOOLCHAIN=local", "GOWORK=off")
	run := func(name string, args ...string) {
		if _, err := exec.LookPath(args[0]); err != nil {
			out[name] = "tool not available"
			return
		}
		cmd := exec.Command(args[0], append(args[1:], pkgs...)...)
		cmd.Dir = repo
		cmd.Env = env
		b, _ := cmd.CombinedOutput()
		lines := strings.Split(strings.TrimSpace(string(b)), "\n")
		n := len(lines)
		if len(lines) == 1 && lines[0] == "" {
			n = 0
		}
		if len(lines) > 12 {
			lines = lines[:12]
		}
		out[name] = fmt.Sprintf("%d line(s) of output (cross-reference only, decides nothing): %s", n, strings.Join(lines, " | "))
	}
	run("go vet", "go", "vet")
	run("errcheck", "errcheck")
	run("staticcheck", "staticcheck")
	return out
}
