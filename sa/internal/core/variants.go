package core

import (
	"encoding/json"
	"os"
	"path/filepath"
	"sort"
	"strings"
)

// VariantControls turns the independently written variants kept under
// <verif>/seeded (changes that break a property) and <verif>/refactors
// (behaviour-preserving refactorings) into controls for one property:
//
//   - a seeded change for this property must be reported by this check (or,
//     where its meta.json says "expected": "missed", is recorded as the
//     documented negative result);
//   - a refactoring that touches packages this check analyses must leave it
//     silent.
//
// They run in the thorough tier (and with -variants); like every control they
// never change a check's exit status.
func VariantControls(verif string, spec *Spec) []Control {
	var out []Control
	seeds, _ := filepath.Glob(filepath.Join(verif, "seeded", "*", "meta.json"))
	sort.Strings(seeds)
	for _, m := range seeds {
		raw, err := os.ReadFile(m)
		if err != nil {
			continue
		}
		var meta struct {
			Property string `json:"property"`
			Expected string `json:"expected"`
			AlsoBy   []string `json:"also_detected_by"`
		}
		if json.Unmarshal(raw, &meta) != nil {
			continue
		}
		mine := meta.Property == spec.ID
		for _, a := range meta.AlsoBy {
			if a == spec.ID {
				mine = true
			}
		}
		if !mine {
			continue
		}
		dir := filepath.Dir(m)
		patch := filepath.Join(dir, "patch.rebased.diff")
		if _, err := os.Stat(patch); err != nil {
			patch = filepath.Join(dir, "patch.diff")
		}
		c := Control{Name: "variant seeded/" + filepath.Base(dir), Patch: patch, Fire: true}
		if meta.Expected == "missed" && meta.Property == spec.ID {
			c.MayMiss = true
		}
		out = append(out, c)
	}
	refs, _ := filepath.Glob(filepath.Join(verif, "refactors", "*", "patch.diff"))
	sort.Strings(refs)
	for _, pf := range refs {
		raw, err := os.ReadFile(pf)
		if err != nil {
			continue
		}
		touches := false
		for _, line := range strings.Split(string(raw), "\n") {
			if !strings.HasPrefix(line, "+++ b/") {
				continue
			}
			dir := filepath.Dir(strings.TrimPrefix(line, "+++ b/"))
			for _, pat := range spec.Patterns {
				pp := strings.TrimPrefix(pat, "./")
				if strings.HasSuffix(pp, "/...") {
					base := strings.TrimSuffix(pp, "/...")
					if dir == base || strings.HasPrefix(dir, base+"/") {
						touches = true
					}
				} else if pp == "..." || dir == pp {
					touches = true
				}
			}
		}
		if touches {
			out = append(out, Control{Name: "variant refactors/" + filepath.Base(filepath.Dir(pf)), Patch: pf, Fire: false})
		}
	}
	return out
}
