package core

import (
	"fmt"
	"path/filepath"
	"strings"
)

// Control is a seeded fault (must fire) or a benign rewrite (must stay
// silent), applied in memory through packages.Config.Overlay.
type Control struct {
	Name     string
	Rule     string   // rule expected to fire (Fire) / that must stay silent
	File     string   // path relative to the repository root
	Old, New string   // exact text replacement (first occurrence)
	Edits    [][2]string // additional replacements in the same file
	Fire     bool     // true: seeded fault; false: benign rewrite
	Want     string   // substring expected in construct or detail of the new violation
	Patterns []string // packages to load for this control (default: the property's)
	Quick    bool     // run in the quick tier as well
	// Patch: instead of Old/New, the path of a unified diff applied in memory
	// (an independently written variant of the repository: a seeded change
	// from /verif/seeded or a refactoring from /verif/refactors).
	Patch string
	// MayMiss: a seeded change that is documented as not detected (value-level);
	// recorded, never a failure.
	MayMiss bool
}

// ControlResult is what happened when a control was run.
type ControlResult struct {
	Name    string `json:"name"`
	Rule    string `json:"rule"`
	Expect  string `json:"expect"`
	Outcome string `json:"outcome"` // fired | silent | skipped | FAILED
	Detail  string `json:"detail,omitempty"`
}

// Spec describes one property's static check.
type Spec struct {
	ID          string
	Explanation string   // clause decided
	NotCovered  string   // clauses not decided
	Rules       []string // rule names with one-line descriptions
	Patterns    []string // packages to load (default ./...)
	Run         func(p *Program, r *Report)
	Controls    []Control
	MinCounts   map[string]int // rule -> minimum number of obligations
	Trusted     []string
	CrossRefPkgs []string // packages for cross-reference tools in the thorough tier
	// OnlyGOOS restricts the configurations of the matrix the rules apply to
	// (the anchored code is behind a build constraint); empty = all.
	OnlyGOOS []string
}

// RunControl loads the repository with the control's overlay and checks
// that the rule fires (or stays silent) relative to the baseline keys.
func RunControl(repo string, spec *Spec, c Control, baseline map[string]bool) ControlResult {
	res := ControlResult{Name: c.Name, Rule: c.Rule, Expect: "silent"}
	if c.Fire {
		res.Expect = "fire"
	}
	var overlay map[string][]byte
	if c.Patch != "" {
		ov, err := ApplyPatchFile(repo, c.Patch)
		if err != nil {
			res.Outcome, res.Detail = "skipped", "patch does not apply to this tree: "+firstLine(err.Error())
			return res
		}
		overlay = ov
	} else {
		abs := filepath.Join(repo, c.File)
		src, err := ReadRepoFile(repo, c.File)
		if err != nil {
			res.Outcome, res.Detail = "skipped", "file not present: "+c.File
			return res
		}
		text := string(src)
		edits := append([][2]string{{c.Old, c.New}}, c.Edits...)
		for _, e := range edits {
			if !strings.Contains(text, e[0]) {
				res.Outcome, res.Detail = "skipped", "anchor text no longer present in "+c.File
				return res
			}
			text = strings.Replace(text, e[0], e[1], 1)
		}
		overlay = map[string][]byte{abs: []byte(text)}
	}
	pats := c.Patterns
	if len(pats) == 0 {
		pats = spec.Patterns
	}
	p, err := Load(LoadOpts{Repo: repo, Patterns: pats, Overlay: overlay})
	if err != nil {
		res.Outcome, res.Detail = "skipped", "overlay does not build on this tree: "+firstLine(err.Error())
		return res
	}
	r := NewReport(spec.ID, p)
	func() {
		defer func() {
			if x := recover(); x != nil {
				r.Bad("ANALYSER", "panic", "-", fmt.Sprint(x))
			}
		}()
		spec.Run(p, r)
	}()
	var fresh []Obligation
	for _, o := range r.Violations() {
		if !baseline[o.Key()] {
			fresh = append(fresh, o)
		}
	}
	if c.MayMiss {
		if len(fresh) == 0 {
			res.Outcome, res.Detail = "missed-as-documented", "value-level change: no structural rule of this check sees it"
		} else {
			res.Outcome, res.Detail = "fired", fresh[0].Construct+" @ "+fresh[0].Pos
		}
		return res
	}
	if c.Fire {
		for _, o := range fresh {
			if (c.Rule == "" || o.Rule == c.Rule) && (c.Want == "" || strings.Contains(o.Construct, c.Want) || strings.Contains(o.Detail, c.Want)) {
				res.Outcome = "fired"
				res.Detail = o.Construct + " @ " + o.Pos
				return res
			}
		}
		res.Outcome = "FAILED"
		res.Detail = fmt.Sprintf("seeded fault not reported by %s (new violations: %d)", c.Rule, len(fresh))
		for _, o := range fresh {
			res.Detail += "; " + o.Key()
		}
		return res
	}
	if len(fresh) == 0 {
		res.Outcome = "silent"
		return res
	}
	res.Outcome = "FAILED"
	res.Detail = "benign rewrite reported: " + fresh[0].Key() + " @ " + fresh[0].Pos + ": " + fresh[0].Detail
	return res
}

func firstLine(s string) string {
	if i := strings.IndexByte(s, '\n'); i >= 0 {
		s = s[:i]
	}
	if len(s) > 300 {
		s = s[:300]
	}
	return s
}
