package core

import (
	"fmt"
	"os"
	"path/filepath"
	"strconv"
	"strings"
)

// ApplyPatchFile applies a unified diff (as written by `git diff`) to the
// files of the repository IN MEMORY and returns an overlay (absolute path ->
// new content). Hunks are located by their context: first at the stated
// line, then anywhere in the file (the patch may have been written against a
// slightly older revision). An error means the patch does not apply.
func ApplyPatchFile(repo, patchPath string) (map[string][]byte, error) {
	raw, err := os.ReadFile(patchPath)
	if err != nil {
		return nil, err
	}
	lines := strings.Split(strings.ReplaceAll(string(raw), "\r\n", "\n"), "\n")
	out := map[string][]byte{}
	i := 0
	for i < len(lines) {
		if !strings.HasPrefix(lines[i], "--- ") || i+1 >= len(lines) || !strings.HasPrefix(lines[i+1], "+++ ") {
			i++
			continue
		}
		oldName := strings.TrimPrefix(strings.Fields(lines[i][4:] + " x")[0], "a/")
		newName := strings.TrimPrefix(strings.Fields(lines[i+1][4:] + " x")[0], "b/")
		i += 2
		var content []string
		if oldName != "/dev/null" {
			abs := filepath.Join(repo, oldName)
			src, ok := out[abs]
			if !ok {
				b, err := os.ReadFile(abs)
				if err != nil {
					return nil, fmt.Errorf("%s: %v", oldName, err)
				}
				src = b
			}
			content = strings.Split(string(src), "\n")
		}
		offset := 0
		for i < len(lines) && strings.HasPrefix(lines[i], "@@") {
			// @@ -l,s +l,s @@
			hdr := lines[i]
			i++
			start := 1
			if f := strings.Fields(hdr); len(f) >= 2 {
				spec := strings.TrimPrefix(f[1], "-")
				if c := strings.IndexByte(spec, ','); c >= 0 {
					spec = spec[:c]
				}
				if n, err := strconv.Atoi(spec); err == nil {
					start = n
				}
			}
			var before, after []string
			for i < len(lines) {
				l := lines[i]
				if strings.HasPrefix(l, "@@") || strings.HasPrefix(l, "diff ") || strings.HasPrefix(l, "--- ") {
					break
				}
				switch {
				case strings.HasPrefix(l, "+"):
					after = append(after, l[1:])
				case strings.HasPrefix(l, "-"):
					before = append(before, l[1:])
				case strings.HasPrefix(l, " "):
					before = append(before, l[1:])
					after = append(after, l[1:])
				case l == "" && i == len(lines)-1:
					// trailing newline of the patch file
				case l == "":
					before = append(before, "")
					after = append(after, "")
				case strings.HasPrefix(l, "\\"):
					// "\ No newline at end of file"
				default:
					// something else (index line, mode line): end of hunk
					goto hunkDone
				}
				i++
			}
		hunkDone:
			if oldName == "/dev/null" {
				content = append(content, after...)
				continue
			}
			at := -1
			match := func(pos int) bool {
				if pos < 0 || pos+len(before) > len(content) {
					return false
				}
				for k, b := range before {
					if content[pos+k] != b {
						return false
					}
				}
				return true
			}
			guess := start - 1 + offset
			if match(guess) {
				at = guess
			} else {
				for d := 1; d < len(content) && at < 0; d++ {
					if match(guess + d) {
						at = guess + d
					} else if match(guess - d) {
						at = guess - d
					}
				}
			}
			if at < 0 {
				return nil, fmt.Errorf("%s: hunk %q does not apply", oldName, hdr)
			}
			nc := append([]string{}, content[:at]...)
			nc = append(nc, after...)
			nc = append(nc, content[at+len(before):]...)
			content = nc
			offset += len(after) - len(before)
		}
		if newName != "/dev/null" {
			out[filepath.Join(repo, newName)] = []byte(strings.Join(content, "\n"))
		}
	}
	if len(out) == 0 {
		return nil, fmt.Errorf("no file changes found in %s", patchPath)
	}
	return out, nil
}
