package core

import (
	"bufio"
	"encoding/json"
	"fmt"
	"os"
	"path/filepath"
	"sort"
	"strings"
	"time"
)

// Status of an obligation.
const (
	Discharged = "discharged"
	Audited    = "audited"
	Known      = "known-finding"
	Violation  = "VIOLATION"
)

// Obligation is one instance of a rule on one construct.
type Obligation struct {
	Rule      string `json:"rule"`
	Construct string `json:"construct"` // stable key: function + operand / field / callee
	Pos       string `json:"pos"`       // file:line, informational only
	Status    string `json:"status"`
	Idiom     string `json:"idiom,omitempty"`  // accepted idiom or audit reason
	Detail    string `json:"detail,omitempty"` // what is wrong (violations)
	Config    string `json:"config,omitempty"`
}

// Key identifies an obligation independent of line numbers.
func (o Obligation) Key() string { return o.Rule + " " + o.Construct }

// Report collects everything a run of one property produced.
type Report struct {
	Property    string
	P           *Program
	Obligations []Obligation
	Notes       []string
	Counts      map[string]int
	seen        map[string]int
}

func NewReport(prop string, p *Program) *Report {
	return &Report{Property: prop, P: p, Counts: map[string]int{}, seen: map[string]int{}}
}

func (r *Report) add(o Obligation) {
	// The same construct may be reached on several paths / by several
	// instructions; keep one obligation per (rule, construct, status) but
	// never let a discharged one hide a violating one.
	k := o.Key() + " " + o.Status
	if i, ok := r.seen[k]; ok {
		_ = i
		return
	}
	r.seen[k] = len(r.Obligations)
	if r.P != nil {
		o.Config = r.P.Config.String()
	}
	r.Obligations = append(r.Obligations, o)
}

// OK records a discharged obligation.
func (r *Report) OK(rule, construct, pos, idiom string) {
	r.add(Obligation{Rule: rule, Construct: construct, Pos: pos, Status: Discharged, Idiom: idiom})
}

// Audit records an obligation discharged by an explicit table entry.
func (r *Report) Audit(rule, construct, pos, reason string) {
	r.add(Obligation{Rule: rule, Construct: construct, Pos: pos, Status: Audited, Idiom: reason})
}

// Bad records a violated obligation.
func (r *Report) Bad(rule, construct, pos, detail string) {
	r.add(Obligation{Rule: rule, Construct: construct, Pos: pos, Status: Violation, Detail: detail})
}

// Note records an informational remark (never a violation).
func (r *Report) Note(format string, a ...any) {
	r.Notes = append(r.Notes, fmt.Sprintf(format, a...))
}

// Count bumps a named population counter reported in the evidence.
func (r *Report) Count(name string, n int) { r.Counts[name] += n }

// Anchor fails closed when a named construct the rule depends on is gone.
func (r *Report) Anchor(rule, what string, ok bool) bool {
	if !ok {
		r.Bad(rule, "anchor "+what, "-", "anchor not found in the loaded program: "+what+" (the rule cannot be decided; fail closed)")
	}
	return ok
}

// Violations returns violated obligations (not yet matched against the
// known-findings file).
func (r *Report) Violations() []Obligation {
	var out []Obligation
	for _, o := range r.Obligations {
		if o.Status == Violation {
			out = append(out, o)
		}
	}
	return out
}

// CountRule returns the number of obligations of a rule.
func (r *Report) CountRule(rule string) int {
	n := 0
	for _, o := range r.Obligations {
		if o.Rule == rule {
			n++
		}
	}
	return n
}

// KnownFindings is the parsed known_findings.txt.
type KnownFindings struct {
	Known []KnownEntry
	Fixed []string
}

type KnownEntry struct {
	Property, Rule, Construct, What string
}

// LoadKnown parses the known-findings file. Format:
//
//	known: property=C09 rule=CMP-DOMAINS construct=<key up to " :: "> :: what fails
//	fixed: property=C17 <commit> <what failed>
func LoadKnown(path string) (*KnownFindings, error) {
	kf := &KnownFindings{}
	f, err := os.Open(path)
	if err != nil {
		if os.IsNotExist(err) {
			return kf, nil
		}
		return nil, err
	}
	defer f.Close()
	sc := bufio.NewScanner(f)
	sc.Buffer(make([]byte, 1<<20), 1<<20)
	for sc.Scan() {
		line := strings.TrimSpace(sc.Text())
		switch {
		case strings.HasPrefix(line, "known:"):
			rest := strings.TrimSpace(strings.TrimPrefix(line, "known:"))
			what := ""
			if i := strings.Index(rest, " :: "); i >= 0 {
				what = rest[i+4:]
				rest = rest[:i]
			}
			e := KnownEntry{What: what}
			if i := strings.Index(rest, "construct="); i >= 0 {
				e.Construct = strings.TrimSpace(rest[i+len("construct="):])
				rest = rest[:i]
			}
			for _, f := range strings.Fields(rest) {
				if v, ok := strings.CutPrefix(f, "property="); ok {
					e.Property = v
				}
				if v, ok := strings.CutPrefix(f, "rule="); ok {
					e.Rule = v
				}
			}
			if e.Property == "" || e.Rule == "" || e.Construct == "" {
				return nil, fmt.Errorf("malformed known: line: %s", line)
			}
			kf.Known = append(kf.Known, e)
		case strings.HasPrefix(line, "fixed:"):
			kf.Fixed = append(kf.Fixed, line)
		}
	}
	return kf, sc.Err()
}

func (kf *KnownFindings) match(prop string, o Obligation) *KnownEntry {
	for i := range kf.Known {
		e := &kf.Known[i]
		if e.Property == prop && e.Rule == o.Rule && e.Construct == o.Construct {
			return e
		}
	}
	return nil
}

// Outcome is the final result of a property run over all configurations.
type Outcome struct {
	Property    string
	Tier        string
	Seed        int64
	Obligations []Obligation // merged over configurations
	Notes       []string
	Counts      map[string]int
	Configs     []string
	Controls    []ControlResult
	CrossRef    map[string]string
	Packages    int
	Functions   int
	Wall        time.Duration
	Explanation string
	Rules       []string
	Trusted     []string
	NotCovered  string
	MinCounts   map[string]int
}

// Finish matches violations against known findings, prints the verdict
// lines, writes evidence and replay files and returns the exit code.
func (oc *Outcome) Finish(kf *KnownFindings, verifDir string) int {
	// de-duplicate across configurations: same key+status reported once,
	// remembering the configurations it was seen in.
	type agg struct {
		o    Obligation
		cfgs []string
	}
	idx := map[string]*agg{}
	var order []string
	for _, o := range oc.Obligations {
		k := o.Key() + " " + o.Status
		if a, ok := idx[k]; ok {
			a.cfgs = append(a.cfgs, o.Config)
			continue
		}
		idx[k] = &agg{o: o, cfgs: []string{o.Config}}
		order = append(order, k)
	}
	var merged []Obligation
	for _, k := range order {
		a := idx[k]
		o := a.o
		sort.Strings(a.cfgs)
		o.Config = strings.Join(uniq(a.cfgs), ",")
		merged = append(merged, o)
	}
	// minimum instance counts (non-vacuity): fail closed
	ruleCount := map[string]int{}
	for _, o := range merged {
		ruleCount[o.Rule]++
	}
	var rulesSorted []string
	for r := range oc.MinCounts {
		rulesSorted = append(rulesSorted, r)
	}
	sort.Strings(rulesSorted)
	for _, rule := range rulesSorted {
		min := oc.MinCounts[rule]
		if ruleCount[rule] < min {
			merged = append(merged, Obligation{Rule: rule, Construct: "non-vacuity", Pos: "-", Status: Violation,
				Detail: fmt.Sprintf("rule matched %d instance(s), fewer than the confirmed minimum %d: the rule would pass vacuously (anchors moved or the analysed code disappeared)", ruleCount[rule], min)})
		}
	}

	replayDir := filepath.Join(verifDir, "evidence", "replay")
	os.MkdirAll(replayDir, 0o755)
	// remove stale replay files of this property
	if old, _ := filepath.Glob(filepath.Join(replayDir, oc.Property+"-*.json")); old != nil {
		for _, f := range old {
			os.Remove(f)
		}
	}
	nviol, nknown, ndis, naud := 0, 0, 0, 0
	var knownLines, violLines []string
	for i := range merged {
		o := &merged[i]
		switch o.Status {
		case Discharged:
			ndis++
		case Audited:
			naud++
		case Violation:
			if e := kf.match(oc.Property, *o); e != nil {
				o.Status = Known
				nknown++
				knownLines = append(knownLines, fmt.Sprintf("KNOWN-FINDING: property=%s rule=%s construct=%s %s (%s)", oc.Property, o.Rule, o.Construct, e.What, o.Pos))
				continue
			}
			nviol++
			path := filepath.Join(replayDir, fmt.Sprintf("%s-%d.json", oc.Property, nviol))
			b, _ := json.MarshalIndent(map[string]any{
				"property": oc.Property, "rule": o.Rule, "construct": o.Construct, "pos": o.Pos,
				"detail": o.Detail, "configs": o.Config, "tier": oc.Tier,
				"how_to_replay": fmt.Sprintf("cd /verif && ./check %s %s   # re-analyses /repo and reports the same construct while it is present", oc.Property, oc.Tier),
			}, "", " ")
			os.WriteFile(path, b, 0o644)
			fmt.Printf("  rule=%s construct=%s at %s: %s\n", o.Rule, o.Construct, o.Pos, o.Detail)
			violLines = append(violLines, fmt.Sprintf("VIOLATION property=%s replay=%s", oc.Property, path))
		}
	}
	for _, l := range knownLines {
		fmt.Println(l)
	}
	for _, l := range violLines {
		fmt.Println(l)
	}

	// evidence
	nontrivial := map[string]bool{}
	for _, o := range merged {
		if o.Idiom != "trivial" {
			nontrivial[o.Key()] = true
		}
	}
	samples := sampleObligations(merged, 14)
	ctlFired, ctlSilent, ctlSkipped, ctlFailed, ctlMissed := 0, 0, 0, 0, 0
	for _, c := range oc.Controls {
		switch c.Outcome {
		case "fired":
			ctlFired++
		case "silent":
			ctlSilent++
		case "skipped":
			ctlSkipped++
		case "missed-as-documented":
			ctlMissed++
		default:
			ctlFailed++
		}
	}
	var audited []Obligation
	var known []Obligation
	var violations []Obligation
	for _, o := range merged {
		switch o.Status {
		case Audited:
			audited = append(audited, o)
		case Known:
			known = append(known, o)
		case Violation:
			violations = append(violations, o)
		}
	}
	perRule := map[string]map[string]int{}
	for _, o := range merged {
		if perRule[o.Rule] == nil {
			perRule[o.Rule] = map[string]int{}
		}
		perRule[o.Rule][o.Status]++
	}
	cov := map[string]any{
		"explanation":         oc.Explanation,
		"rule":                "obligations are enumerated from the loaded program (every instance of each rule's pattern in /repo's current source); an obligation is non-trivial when discharging it needed an argument (a dominating guard, a held lock, a pairing on all paths, a freshness derivation or an audit-table entry) rather than being syntactically immediate; distinct = distinct rule+construct keys. Rules: " + strings.Join(oc.Rules, "; "),
		"obligations":         len(merged),
		"discharged":          ndis + naud,
		"evaluations":         len(merged),
		"distinct_nontrivial": len(nontrivial),
		"samples":             samples,
		"exhaustive":          true,
		"checker_cmd":         fmt.Sprintf("./check %s %s", oc.Property, oc.Tier),
		"trusted_base":        oc.Trusted,
		"per_rule":            perRule,
		"populations":         oc.Counts,
		"packages":            oc.Packages,
		"functions_analysed":  oc.Functions,
		"configs":             oc.Configs,
		"controls":            map[string]any{"fired": ctlFired, "silent": ctlSilent, "skipped": ctlSkipped, "documented_misses": ctlMissed, "failed": ctlFailed, "results": oc.Controls},
		"audited":             audited,
		"known_findings":      known,
		"violating":           violations,
		"notes":               oc.Notes,
		"not_covered":         oc.NotCovered,
		"fixed_entries":       kf.Fixed,
	}
	if len(oc.CrossRef) > 0 {
		cov["cross_reference_tools"] = oc.CrossRef
	}
	ev := map[string]any{
		"property_id": oc.Property,
		"tier":        oc.Tier,
		"seed":        oc.Seed,
		"level":       "other",
		"coverage":    cov,
		"assumptions": append([]string{
			"static analysis only: nothing under test is executed; the structural clause named in coverage.explanation is decided, the input-level behaviour is not",
			"go/types, go/ssa (x/tools v0.29.0) and the dominator computation are trusted; the accepted-idiom and audit tables in /verif/sa/internal/rules are part of the trusted base",
		}, oc.Trusted...),
		"wall_s":     oc.Wall.Seconds(),
		"violations": nviol,
	}
	b, _ := json.MarshalIndent(ev, "", " ")
	evPath := filepath.Join(verifDir, "evidence", oc.Property+".json")
	if err := os.WriteFile(evPath, b, 0o644); err != nil {
		fmt.Fprintln(os.Stderr, "cannot write evidence:", err)
		return 2
	}
	fmt.Printf("%s %s: %d obligations (%d discharged, %d audited, %d known findings, %d violations), %d controls (%d fired, %d silent, %d skipped, %d documented misses, %d failed), configs=%v, %.1fs\n",
		oc.Property, oc.Tier, len(merged), ndis, naud, nknown, nviol, len(oc.Controls), ctlFired, ctlSilent, ctlSkipped, ctlMissed, ctlFailed, oc.Configs, oc.Wall.Seconds())
	for _, c := range oc.Controls {
		if c.Outcome == "FAILED" {
			fmt.Printf("  CONTROL-FAILED %s (%s): %s\n", c.Name, c.Expect, c.Detail)
		}
	}
	if nviol > 0 {
		return 1
	}
	return 0
}

func uniq(s []string) []string {
	var out []string
	for i, x := range s {
		if i == 0 || x != s[i-1] {
			out = append(out, x)
		}
	}
	return out
}

// sampleObligations picks a spread of obligations over rules and statuses.
func sampleObligations(obs []Obligation, n int) []Obligation {
	var out []Obligation
	seen := map[string]int{}
	for _, o := range obs {
		if o.Status != Discharged {
			if seen[o.Rule+o.Status] < 2 {
				seen[o.Rule+o.Status]++
				out = append(out, o)
			}
		}
	}
	for _, o := range obs {
		if len(out) >= n+8 {
			break
		}
		if o.Status == Discharged && seen[o.Rule+o.Status] < 3 {
			seen[o.Rule+o.Status]++
			out = append(out, o)
		}
	}
	if len(out) == 0 && len(obs) > 0 {
		out = append(out, obs[0])
	}
	return out
}
