package core

import (
	"go/token"
	"go/types"

	"golang.org/x/tools/go/ssa"
)

// Callee resolves the statically known callee of a call instruction:
// a static callee, or a closure created in place.
func Callee(c ssa.CallInstruction) *ssa.Function {
	cc := c.Common()
	if f := cc.StaticCallee(); f != nil {
		return f
	}
	if mc, ok := cc.Value.(*ssa.MakeClosure); ok {
		return mc.Fn.(*ssa.Function)
	}
	return nil
}

// IsFunc reports whether f (or its generic origin) is the function with the
// given package path, optional receiver type name and name.
func IsFunc(f *ssa.Function, pkgPath, recv, name string) bool {
	if f == nil {
		return false
	}
	f = Origin(f)
	if f.Name() != name {
		return false
	}
	if PkgPathOf(f) != pkgPath {
		return false
	}
	r := f.Signature.Recv()
	if recv == "" {
		return r == nil
	}
	if r == nil {
		return false
	}
	return RecvName(r.Type()) == recv
}

// RecvName returns the name of the named type behind a receiver type.
func RecvName(t types.Type) string {
	if p, ok := t.(*types.Pointer); ok {
		t = p.Elem()
	}
	if n, ok := t.(*types.Named); ok {
		return n.Obj().Name()
	}
	return ""
}

// NamedOf returns the named type behind t, looking through one pointer.
func NamedOf(t types.Type) *types.Named {
	if p, ok := t.Underlying().(*types.Pointer); ok {
		t = p.Elem()
	}
	if p, ok := t.(*types.Pointer); ok {
		t = p.Elem()
	}
	n, _ := t.(*types.Named)
	return n
}

// IsNamed reports whether t (through one pointer) is the named type
// pkgPath.name.
func IsNamed(t types.Type, pkgPath, name string) bool {
	n := NamedOf(t)
	return n != nil && n.Obj().Name() == name && n.Obj().Pkg() != nil && n.Obj().Pkg().Path() == pkgPath
}

// FieldName returns the struct type and field name of a FieldAddr.
func FieldName(fa *ssa.FieldAddr) (*types.Named, string) {
	pt, ok := fa.X.Type().Underlying().(*types.Pointer)
	if !ok {
		return nil, ""
	}
	st, ok := pt.Elem().Underlying().(*types.Struct)
	if !ok {
		return nil, ""
	}
	n, _ := pt.Elem().(*types.Named)
	return n, st.Field(fa.Field).Name()
}

// FieldOfValue returns the struct type and field name of a Field (value).
func FieldOfValue(f *ssa.Field) (*types.Named, string) {
	st, ok := f.X.Type().Underlying().(*types.Struct)
	if !ok {
		return nil, ""
	}
	n, _ := f.X.Type().(*types.Named)
	return n, st.Field(f.Field).Name()
}

// Instrs calls f for every instruction of fn.
func Instrs(fn *ssa.Function, f func(ssa.Instruction)) {
	for _, b := range fn.Blocks {
		for _, ins := range b.Instrs {
			f(ins)
		}
	}
}

// IsPanicBlock reports whether the block ends in a panic.
func IsPanicBlock(b *ssa.BasicBlock) bool {
	if len(b.Instrs) == 0 {
		return false
	}
	_, ok := b.Instrs[len(b.Instrs)-1].(*ssa.Panic)
	return ok
}

// idxIn returns the index of ins in its block.
func idxIn(ins ssa.Instruction) int {
	for i, x := range ins.Block().Instrs {
		if x == ins {
			return i
		}
	}
	return -1
}

// MustPass reports whether every path from just after `from` to a normal
// function exit (Return) passes through an instruction satisfying hit.
// Paths ending in panic are ignored. If stop is non-nil, a path is also
// considered finished (successfully) when it reaches an instruction
// satisfying stop. The returned instruction is the offending exit.
func MustPass(from ssa.Instruction, hit func(ssa.Instruction) bool, stop func(ssa.Instruction) bool) (bool, ssa.Instruction) {
	start := from.Block()
	seen := map[*ssa.BasicBlock]bool{}
	var bad ssa.Instruction
	var walk func(b *ssa.BasicBlock, i int) bool
	walk = func(b *ssa.BasicBlock, i int) bool {
		for ; i < len(b.Instrs); i++ {
			ins := b.Instrs[i]
			if hit(ins) {
				return true
			}
			if stop != nil && stop(ins) {
				return true
			}
			switch ins.(type) {
			case *ssa.Return:
				bad = ins
				return false
			case *ssa.Panic:
				return true
			}
		}
		for _, s := range b.Succs {
			if seen[s] {
				continue
			}
			seen[s] = true
			if !walk(s, 0) {
				return false
			}
		}
		return true
	}
	ok := walk(start, idxIn(from)+1)
	return ok, bad
}

// Reaches reports whether some path from just after `from` reaches an
// instruction satisfying target without first passing one satisfying
// barrier.
func Reaches(from ssa.Instruction, target func(ssa.Instruction) bool, barrier func(ssa.Instruction) bool) (bool, ssa.Instruction) {
	seen := map[*ssa.BasicBlock]bool{}
	var found ssa.Instruction
	var walk func(b *ssa.BasicBlock, i int) bool
	walk = func(b *ssa.BasicBlock, i int) bool {
		for ; i < len(b.Instrs); i++ {
			ins := b.Instrs[i]
			if target(ins) {
				found = ins
				return true
			}
			if barrier != nil && barrier(ins) {
				return false
			}
		}
		for _, s := range b.Succs {
			if seen[s] {
				continue
			}
			seen[s] = true
			if walk(s, 0) {
				return true
			}
		}
		return false
	}
	return walk(from.Block(), idxIn(from)+1), found
}

// Precedes reports whether instruction a is executed before instruction b on
// every path that reaches b (a dominates b).
func Precedes(a, b ssa.Instruction) bool {
	if a.Block() == b.Block() {
		return idxIn(a) < idxIn(b)
	}
	return a.Block().Dominates(b.Block())
}

// IsConstInt reports whether v is an integer constant with the given value.
func IsConstInt(v ssa.Value, n int64) bool {
	c, ok := v.(*ssa.Const)
	if !ok || c.Value == nil {
		return false
	}
	if !types.Identical(c.Type().Underlying(), c.Type().Underlying()) {
		return false
	}
	if b, ok := c.Type().Underlying().(*types.Basic); !ok || b.Info()&types.IsInteger == 0 {
		return false
	}
	return c.Int64() == n
}

// Unwrap looks through conversions that do not change the identity of a
// value: ChangeType, ChangeInterface, MakeInterface, Convert.
func Unwrap(v ssa.Value) ssa.Value {
	for {
		switch x := v.(type) {
		case *ssa.ChangeType:
			v = x.X
		case *ssa.ChangeInterface:
			v = x.X
		case *ssa.MakeInterface:
			v = x.X
		default:
			return v
		}
	}
}

// IsLoad reports whether v is a load (*addr) and returns the address.
func IsLoad(v ssa.Value) (ssa.Value, bool) {
	if u, ok := v.(*ssa.UnOp); ok && u.Op == token.MUL {
		return u.X, true
	}
	return nil, false
}

// EdgeTo reports which successor index (0 = true, 1 = false) of an If block
// dominates the given block exclusively, or -1.
func EdgeTo(ifBlock *ssa.BasicBlock, target *ssa.BasicBlock) int {
	if len(ifBlock.Succs) != 2 {
		return -1
	}
	for i, s := range ifBlock.Succs {
		if len(s.Preds) == 1 && s.Dominates(target) {
			return i
		}
	}
	return -1
}
