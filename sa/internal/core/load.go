// Package core holds the loader, obligation bookkeeping, evidence writer and
// SSA helpers shared by all rules.
package core

import (
	"fmt"
	"go/token"
	"go/types"
	"os"
	"path/filepath"
	"sort"
	"strings"

	"golang.org/x/tools/go/callgraph"
	"golang.org/x/tools/go/callgraph/cha"
	"golang.org/x/tools/go/callgraph/vta"
	"golang.org/x/tools/go/packages"
	"golang.org/x/tools/go/ssa"
	"golang.org/x/tools/go/ssa/ssautil"
)

// ModPath is the module path of the repository under analysis.
const ModPath = "src.elv.sh"

// Config is one build configuration of the matrix.
type Config struct {
	GOOS, GOARCH string
}

func (c Config) String() string {
	if c.GOOS == "" {
		return "native"
	}
	return c.GOOS + "/" + c.GOARCH
}

// Matrix is the configuration matrix of the thorough tier.
var Matrix = []Config{
	{"linux", "amd64"}, {"linux", "386"}, {"windows", "amd64"}, {"darwin", "arm64"}, {"freebsd", "amd64"},
}

// LoadOpts says what to load.
type LoadOpts struct {
	Repo     string            // repository root
	Patterns []string          // package patterns relative to Repo, default ./...
	Config   Config            // zero = native
	Overlay  map[string][]byte // absolute path -> replacement content
}

// Program is a loaded, type-checked, SSA-built program.
type Program struct {
	Repo   string
	Config Config
	Fset   *token.FileSet
	Pkgs   []*packages.Package // repository packages (non-test), sorted by path
	ByPath map[string]*packages.Package
	SSA    *ssa.Program
	AllFns map[*ssa.Function]bool
	// RepoFns are functions (incl. closures and generic instantiations)
	// that belong to a non-test package of the repository, sorted.
	RepoFns []*ssa.Function
	cg      *callgraph.Graph
}

// Load loads the repository afresh. Any type error is an error.
func Load(o LoadOpts) (*Program, error) {
	if len(o.Patterns) == 0 {
		o.Patterns = []string{"./..."}
	}
	env := append(os.Environ(), "GOFLAGS=-mod=mod", "GOPROXY=off", "GOSUMDB=off", "GOTOOLCHAIN=local", "GOWORK=off", "CGO_ENABLED=0")
	if o.Config.GOOS != "" {
		env = append(env, "GOOS="+o.Config.GOOS, "GOARCH="+o.Config.GOARCH)
	}
	cfg := &packages.Config{
		Mode:    packages.LoadAllSyntax,
		Dir:     o.Repo,
		Tests:   false,
		Env:     env,
		Overlay: o.Overlay,
	}
	pkgs, err := packages.Load(cfg, o.Patterns...)
	if err != nil {
		return nil, fmt.Errorf("packages.Load: %w", err)
	}
	var errs []string
	packages.Visit(pkgs, nil, func(p *packages.Package) {
		for _, e := range p.Errors {
			errs = append(errs, e.Error())
		}
	})
	if len(errs) > 0 {
		sort.Strings(errs)
		if len(errs) > 8 {
			errs = errs[:8]
		}
		return nil, fmt.Errorf("load/type errors (%s): %s", o.Config, strings.Join(errs, "; "))
	}
	prog, _ := ssautil.AllPackages(pkgs, ssa.InstantiateGenerics)
	prog.Build()
	p := &Program{Repo: o.Repo, Config: o.Config, Fset: prog.Fset, SSA: prog, ByPath: map[string]*packages.Package{}}
	packages.Visit(pkgs, nil, func(pk *packages.Package) {
		if pk.PkgPath == ModPath || strings.HasPrefix(pk.PkgPath, ModPath+"/") {
			if !IsTestPkgPath(pk.PkgPath) {
				p.Pkgs = append(p.Pkgs, pk)
			}
			p.ByPath[pk.PkgPath] = pk
		}
	})
	sort.Slice(p.Pkgs, func(i, j int) bool { return p.Pkgs[i].PkgPath < p.Pkgs[j].PkgPath })
	if len(p.Pkgs) == 0 {
		return nil, fmt.Errorf("no repository packages loaded from %s (%v)", o.Repo, o.Patterns)
	}
	p.AllFns = ssautil.AllFunctions(prog)
	for fn := range p.AllFns {
		pp := PkgPathOf(fn)
		if (pp == ModPath || strings.HasPrefix(pp, ModPath+"/")) && !IsTestPkgPath(pp) && fn.Blocks != nil {
			p.RepoFns = append(p.RepoFns, fn)
		}
	}
	sort.Slice(p.RepoFns, func(i, j int) bool {
		a, b := p.RepoFns[i], p.RepoFns[j]
		if a.String() != b.String() {
			return a.String() < b.String()
		}
		return a.Pos() < b.Pos()
	})
	return p, nil
}

// IsTestPkgPath reports whether a package exists only to support tests.
func IsTestPkgPath(pp string) bool {
	for _, s := range []string{"/tt", "/must", "/transcript", "/e2e"} {
		if strings.HasSuffix(pp, s) {
			return true
		}
	}
	if strings.Contains(pp, "/examples/") || strings.Contains(pp, "/docs/") {
		return true
	}
	return strings.Contains(pp, "test")
}

// PkgPathOf returns the package path a function belongs to, looking through
// generic instantiations, closures and synthetic wrappers.
func PkgPathOf(f *ssa.Function) string {
	for f != nil {
		if f.Pkg != nil {
			return f.Pkg.Pkg.Path()
		}
		if o := f.Origin(); o != nil && o != f {
			f = o
			continue
		}
		if f.Parent() != nil {
			f = f.Parent()
			continue
		}
		if f.Object() != nil && f.Object().Pkg() != nil {
			return f.Object().Pkg().Path()
		}
		return ""
	}
	return ""
}

// Origin returns the generic origin of f, or f.
func Origin(f *ssa.Function) *ssa.Function {
	if o := f.Origin(); o != nil {
		return o
	}
	return f
}

// Outer returns the outermost enclosing function.
func Outer(f *ssa.Function) *ssa.Function {
	for f.Parent() != nil {
		f = f.Parent()
	}
	return f
}

// FnKey is a stable name for a function: short package path, receiver,
// name; closures are named after their outermost function plus "$".
func FnKey(f *ssa.Function) string {
	suffix := ""
	if f.Parent() != nil {
		suffix = "$"
		f = Outer(f)
	}
	f = Origin(f)
	s := f.String()
	s = strings.ReplaceAll(s, ModPath+"/pkg/", "")
	s = strings.ReplaceAll(s, ModPath+"/", "")
	return s + suffix
}

// Pos renders a position relative to the repository root.
func (p *Program) Pos(pos token.Pos) string {
	if !pos.IsValid() {
		return "-"
	}
	q := p.Fset.Position(pos)
	rel, err := filepath.Rel(p.Repo, q.Filename)
	if err != nil || strings.HasPrefix(rel, "..") {
		rel = q.Filename
	}
	return fmt.Sprintf("%s:%d", rel, q.Line)
}

// InsPos finds a usable position for an instruction (falls back to the
// enclosing function).
func (p *Program) InsPos(ins ssa.Instruction) string {
	if ins.Pos().IsValid() {
		return p.Pos(ins.Pos())
	}
	for _, op := range ins.Operands(nil) {
		if *op != nil && (*op).Pos().IsValid() {
			return p.Pos((*op).Pos())
		}
	}
	if ins.Parent() != nil {
		return p.Pos(ins.Parent().Pos())
	}
	return "-"
}

// Pkg returns the SSA package for an import path (nil if absent).
func (p *Program) Pkg(path string) *ssa.Package {
	pk := p.ByPath[path]
	if pk == nil || pk.Types == nil {
		return nil
	}
	return p.SSA.Package(pk.Types)
}

// Func resolves a package-level function; nil if absent.
func (p *Program) Func(pkgPath, name string) *ssa.Function {
	sp := p.Pkg(pkgPath)
	if sp == nil {
		return nil
	}
	return sp.Func(name)
}

// Method resolves a method on a named type (pointer or value receiver).
func (p *Program) Method(pkgPath, typeName, method string) *ssa.Function {
	sp := p.Pkg(pkgPath)
	if sp == nil {
		return nil
	}
	t := sp.Type(typeName)
	if t == nil {
		return nil
	}
	for _, typ := range []types.Type{types.NewPointer(t.Type()), t.Type()} {
		ms := p.SSA.MethodSets.MethodSet(typ)
		for i := 0; i < ms.Len(); i++ {
			sel := ms.At(i)
			if sel.Obj().Name() == method && sel.Obj().Pkg() != nil && sel.Obj().Pkg().Path() == pkgPath {
				if fn := p.SSA.MethodValue(sel); fn != nil {
					// Skip promoted wrappers: want the declared method.
					if fn.Synthetic == "" {
						return fn
					}
				}
			}
		}
	}
	return nil
}

// NamedType resolves a named type.
func (p *Program) NamedType(pkgPath, name string) *types.Named {
	pk := p.ByPath[pkgPath]
	if pk == nil || pk.Types == nil {
		return nil
	}
	o := pk.Types.Scope().Lookup(name)
	if o == nil {
		return nil
	}
	n, _ := o.Type().(*types.Named)
	return n
}

// FnsInPkg returns the repo functions (with bodies) of the given package
// path, including closures and instantiations.
func (p *Program) FnsInPkg(paths ...string) []*ssa.Function {
	var out []*ssa.Function
	for _, f := range p.RepoFns {
		pp := PkgPathOf(f)
		for _, want := range paths {
			if pp == want {
				out = append(out, f)
			}
		}
	}
	return out
}

// CallGraph returns a VTA call graph seeded with CHA (built lazily).
func (p *Program) CallGraph() *callgraph.Graph {
	if p.cg == nil {
		p.cg = vta.CallGraph(p.AllFns, cha.CallGraph(p.SSA))
	}
	return p.cg
}

// ReadRepoFile reads a file relative to the repository root.
func ReadRepoFile(repo, rel string) ([]byte, error) {
	return os.ReadFile(filepath.Join(repo, rel))
}
