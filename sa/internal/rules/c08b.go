package rules

import (
	"go/token"
	"go/types"
	"sort"

	"golang.org/x/tools/go/ssa"

	"verif/sa/internal/core"
)

// runCollisionHash (C08 COLLISION-HASH): a collision node of the hash trie
// stands for "several keys with one and the same hash" and records that hash;
// assoc and lookup trust the label (a key with another hash is taken to be
// absent from it). A collision node is therefore built only with the label of
// an existing collision node, or - for two keys - on the equal edge of a
// comparison of their two hashes. A pair of keys with different hashes put
// under one label makes the second key unfindable by its own hash: assoc adds
// it again and the map holds two keys that are eq.
func runCollisionHash(p *core.Program, r *core.Report) {
	const rule = "COLLISION-HASH"
	const pkgHashmap = "src.elv.sh/pkg/persistent/hashmap"
	n := 0
	for _, fn := range p.FnsInPkg(pkgHashmap) {
		core.Instrs(fn, func(ins ssa.Instruction) {
			a, ok := ins.(*ssa.Alloc)
			if !ok || !core.IsNamed(a.Type().(*types.Pointer).Elem(), pkgHashmap, "collisionNode") {
				return
			}
			var label ssa.Value
			for _, ref := range *a.Referrers() {
				if fa, ok := ref.(*ssa.FieldAddr); ok {
					if _, f := core.FieldName(fa); f == "hash" {
						for _, r2 := range *fa.Referrers() {
							if st, ok := r2.(*ssa.Store); ok && st.Addr == ssa.Value(fa) {
								label = st.Val
							}
						}
					}
				}
			}
			n++
			construct := core.FnKey(fn) + " builds a collision node labelled " + addrDesc(label)
			pos := p.InsPos(a)
			if label == nil {
				r.Bad(rule, construct, pos, "the hash label of the new collision node is never set")
				return
			}
			if addr, isLd := core.IsLoad(label); isLd {
				if fa, ok := addr.(*ssa.FieldAddr); ok {
					if nt, f := core.FieldName(fa); nt != nil && nt.Obj().Name() == "collisionNode" && f == "hash" {
						r.OK(rule, construct, pos, "the label is copied from an existing collision node")
						return
					}
				}
			}
			guarded := false
			for _, b := range fn.Blocks {
				if len(b.Instrs) == 0 {
					continue
				}
				iff, ok := b.Instrs[len(b.Instrs)-1].(*ssa.If)
				if !ok {
					continue
				}
				cmp, ok := iff.Cond.(*ssa.BinOp)
				if !ok || (cmp.X != label && cmp.Y != label) {
					continue
				}
				e := core.EdgeTo(b, a.Block())
				if (cmp.Op == token.EQL && e == 0) || (cmp.Op == token.NEQ && e == 1) {
					guarded = true
				}
			}
			if guarded {
				r.OK(rule, construct, pos, "built only on the equal edge of a comparison of the label with the other key's hash")
			} else {
				r.Bad(rule, construct, pos, "the node is not built on the equal edge of a comparison of the two keys' hashes: two keys with different hashes can end up under one label, and the one whose hash differs is then added a second time by assoc (two eq keys in one map)")
			}
		})
	}
	r.Count(rule+" constructions of a collision node", n)
}

// runKeyStable (C08 KEY-STABLE): a value used as a map key must keep its hash
// and its equality class for as long as it sits in the map. vals.Hash and
// vals.Equal (and the helpers they call inside pkg/eval/vals) therefore do not
// read state of the value that an operation of the language can change later.
// The one such state in the value universe is the descriptor of an open file:
// (*os.File).Fd() becomes -1 (as an unsigned number) once the file is closed,
// so a key hashed by Fd() moves to another bucket under the map's feet.
func runKeyStable(p *core.Program, r *core.Report) {
	const rule = "KEY-STABLE"
	var roots []*ssa.Function
	for _, name := range []string{"Hash", "Equal"} {
		if f := p.Func(pkgVals, name); f != nil {
			roots = append(roots, f)
		}
	}
	if !r.Anchor(rule, "vals.Hash and vals.Equal", len(roots) == 2) {
		return
	}
	for _, root := range roots {
		scope := reachableInPkg([]*ssa.Function{root}, pkgVals)
		var fns []*ssa.Function
		for f := range scope {
			fns = append(fns, f)
		}
		sort.Slice(fns, func(i, j int) bool { return fns[i].String() < fns[j].String() })
		var bad ssa.Instruction
		for _, fn := range fns {
			core.Instrs(fn, func(ins ssa.Instruction) {
				if bad != nil {
					return
				}
				if c, ok := ins.(ssa.CallInstruction); ok {
					if callee := c.Common().StaticCallee(); callee != nil && callee.String() == "(*os.File).Fd" {
						bad = ins
					}
				}
			})
		}
		construct := "vals." + root.Name() + " identifies a file by its descriptor"
		if bad == nil {
			r.OK(rule, "vals."+root.Name()+" reads no state that a later operation changes", p.Pos(root.Pos()), "no call of (*os.File).Fd below vals."+root.Name())
		} else {
			r.Bad(rule, construct, p.InsPos(bad), "the descriptor changes when the file is closed: a map that holds the file as a key no longer finds it (has-key is false, assoc adds a second eq key), and all closed files become eq to each other")
		}
	}
}
