package rules

import (
	"go/token"
	"go/types"

	"golang.org/x/tools/go/ssa"

	"verif/sa/internal/core"
)

// errAtPosAudit: parse errors reported away from the parser's position for a
// reason confirmed by reading. Key: name of the error variable.
var errAtPosAudit = map[string]string{}

// runErrorAtPos (C02 ERROR-AT-POS): an error that a longer input could repair
// is marked partial only when it starts at the end of the source, so the
// parser has to report it where it stands. Every parse error is therefore
// reported either at the parser's current position (ps.pos read right at the
// report, as parser.error does) or a fixed number of bytes before it (a token
// the parser has just consumed in full, which no continuation can repair). A
// report at a position saved earlier, or over the range of a node, is not at
// the end of the input when the input runs out after some skipped whitespace
// (`echo hi > `): the error is not partial and Enter submits the unfinished
// code.
func runErrorAtPos(p *core.Program, r *core.Report) {
	const rule = "ERROR-AT-POS"
	errorp := p.Method(pkgParse, "parser", "errorp")
	if !r.Anchor(rule, "(*parse.parser).errorp", errorp != nil) {
		return
	}
	n := 0
	for _, fn := range p.FnsInPkg(pkgParse) {
		core.Instrs(fn, func(ins ssa.Instruction) {
			c, ok := ins.(*ssa.Call)
			if !ok || c.Call.StaticCallee() != errorp {
				return
			}
			n++
			fk := core.FnKey(fn)
			errName := "?"
			if len(c.Call.Args) > 2 {
				if addr, isLd := core.IsLoad(core.Unwrap(c.Call.Args[2])); isLd {
					if g, isG := addr.(*ssa.Global); isG {
						errName = g.Name()
					}
				} else if prm, isP := core.Unwrap(c.Call.Args[2]).(*ssa.Parameter); isP {
					errName = "parameter " + prm.Name()
				}
			}
			construct := fk + " reports " + errName
			pos := p.InsPos(ins)
			fields := rangingFields(core.Unwrap(c.Call.Args[1]))
			if fields == nil {
				if why := errAtPosAudit[errName]; why != "" {
					r.Audit(rule, construct, pos, why)
					return
				}
				r.Bad(rule, construct, pos, "the error range is not built from the parser's position at the report (it is a node's range or a value computed elsewhere): when the input ends here the error does not start at the end of the source, is not marked partial, and Enter submits the unfinished code")
				return
			}
			from := fields[0]
			if b, ok := from.(*ssa.BinOp); ok && b.Op == token.SUB {
				if k, isC := constInt(b.Y); isC && k >= 0 {
					from = b.X
				}
			}
			if ld, ok := from.(*ssa.UnOp); ok && ld.Op == token.MUL {
				if fa, ok := ld.X.(*ssa.FieldAddr); ok {
					if nt, f := core.FieldName(fa); nt != nil && nt.Obj().Name() == "parser" && f == "pos" && freshAt(ld, c) {
						r.OK(rule, construct, pos, "From is ps.pos (minus a constant) read at the report, with no parser call in between")
						return
					}
				}
			}
			if why := errAtPosAudit[errName]; why != "" {
				r.Audit(rule, construct, pos, why)
				return
			}
			r.Bad(rule, construct, pos, "the error starts at "+addrDesc(fields[0])+", not at the parser's position at the report: if the input ends between the two (skipped whitespace) the error is not at the end of the source, is not marked partial, and Enter submits the unfinished code")
		})
	}
	r.Count(rule+" calls of parser.errorp", n)
}

// freshAt: the load and the call are in one block with no call in between
// that is handed a *parser (and could move it).
func freshAt(ld *ssa.UnOp, call *ssa.Call) bool {
	if ld.Block() != call.Block() {
		return false
	}
	between := false
	for _, ins := range ld.Block().Instrs {
		if ins == ssa.Instruction(ld) {
			between = true
			continue
		}
		if ins == ssa.Instruction(call) {
			return between
		}
		if !between {
			continue
		}
		if c, ok := ins.(ssa.CallInstruction); ok {
			for _, a := range c.Common().Args {
				if ptr, ok := a.Type().(*types.Pointer); ok && core.IsNamed(ptr.Elem(), pkgParse, "parser") {
					return false
				}
			}
		}
	}
	return false
}
