package rules

import (
	"go/token"
	"go/types"

	"golang.org/x/tools/go/ssa"

	"verif/sa/internal/core"
)

// errAtPosAudit: parse errors reported away from the parser's position for a
// reason confirmed by reading. Key: name of the error variable.
var errAtPosAudit = map[string]string{}

// runErrorAtPos (C02 ERROR-AT-POS): an error that a longer input could repair
// is marked partial only when it starts at the end of the source, so the
// parser has to report it where it stands. Every parse error is therefore
// reported either at the parser's current position (ps.pos read right at the
// report, as parser.error does) or a fixed number of bytes before it (a token
// the parser has just consumed in full, which no continuation can repair). A
// report at a position saved earlier, or over the range of a node, is not at
// the end of the input when the input runs out after some skipped whitespace
// (`echo hi > `): the error is not partial and Enter submits the unfinished
// code.
func runErrorAtPos(p *core.Program, r *core.Report) {
	const rule = "ERROR-AT-POS"
	errorp := p.Method(pkgParse, "parser", "errorp")
	if !r.Anchor(rule, "(*parse.parser).errorp", errorp != nil) {
		return
	}
	n := 0
	for _, fn := range p.FnsInPkg(pkgParse) {
		core.Instrs(fn, func(ins ssa.Instruction) {
			c, ok := ins.(*ssa.Call)
			if !ok || c.Call.StaticCallee() != errorp {
				return
			}
			n++
			fk := core.FnKey(fn)
			errName := "?"
			if len(c.Call.Args) > 2 {
				if addr, isLd := core.IsLoad(core.Unwrap(c.Call.Args[2])); isLd {
					if g, isG := addr.(*ssa.Global); isG {
						errName = g.Name()
					}
				} else if prm, isP := core.Unwrap(c.Call.Args[2]).(*ssa.Parameter); isP {
					errName = "parameter " + prm.Name()
				}
			}
			construct := fk + " reports " + errName
			pos := p.InsPos(ins)
			rng := core.Unwrap(c.Call.Args[1])
			switch ok, shape := rangeAtPos(rng, c, 0); {
			case ok:
				r.OK(rule, construct, pos, "From is ps.pos (minus a constant) read at the report, with no parser call in between"+shape)
			case errAtPosAudit[errName] != "":
				r.Audit(rule, construct, pos, errAtPosAudit[errName])
			case shape == "":
				r.Bad(rule, construct, pos, "the error range is not built from the parser's position at the report (it is a node's range or a value computed elsewhere): when the input ends here the error does not start at the end of the source, is not marked partial, and Enter submits the unfinished code")
			default:
				r.Bad(rule, construct, pos, "the error starts at "+shape+", not at the parser's position at the report: if the input ends between the two (skipped whitespace) the error is not at the end of the source, is not marked partial, and Enter submits the unfinished code")
			}
		})
	}
	r.Count(rule+" calls of parser.errorp", n)
}

// freshAt: the load and the call are in one block with no call in between
// that is handed a *parser (and could move it).
func freshAt(ld ssa.Instruction, call ssa.Instruction) bool {
	if ld.Block() != call.Block() {
		return false
	}
	between := false
	for _, ins := range ld.Block().Instrs {
		if ins == ld {
			between = true
			continue
		}
		if ins == call {
			return between
		}
		if !between {
			continue
		}
		if c, ok := ins.(ssa.CallInstruction); ok {
			for _, a := range c.Common().Args {
				if ptr, ok := a.Type().(*types.Pointer); ok && core.IsNamed(ptr.Elem(), pkgParse, "parser") {
					return false
				}
			}
		}
	}
	return false
}

// rangeAtPos: the diag.Ranging value rng, as used at instruction at, starts
// at the parser's current position (minus a constant). It is either a local
// Ranging literal whose From is ps.pos read just before, or the result of a
// helper of the package that returns such a literal (ps.posRange()), called
// just before. The second result describes a From that is something else.
func rangeAtPos(rng ssa.Value, at ssa.Instruction, depth int) (bool, string) {
	if depth > 2 {
		return false, ""
	}
	if fields := rangingFields(rng); fields != nil {
		from := fields[0]
		if b, ok := from.(*ssa.BinOp); ok && b.Op == token.SUB {
			if k, isC := constInt(b.Y); isC && k >= 0 {
				from = b.X
			}
		}
		if ld, ok := from.(*ssa.UnOp); ok && ld.Op == token.MUL {
			if fa, ok := ld.X.(*ssa.FieldAddr); ok {
				if nt, f := core.FieldName(fa); nt != nil && nt.Obj().Name() == "parser" && f == "pos" && freshAt(ld, at) {
					return true, ""
				}
			}
		}
		return false, addrDesc(fields[0])
	}
	call, ok := rng.(*ssa.Call)
	if !ok {
		return false, ""
	}
	callee := call.Call.StaticCallee()
	if callee == nil || callee.Blocks == nil || core.PkgPathOf(callee) != pkgParse || !freshAt(call, at) {
		return false, ""
	}
	all, any := true, false
	core.Instrs(callee, func(ins ssa.Instruction) {
		ret, ok := ins.(*ssa.Return)
		if !ok || len(ret.Results) != 1 {
			return
		}
		any = true
		if ok, _ := rangeAtPos(ret.Results[0], ret, depth+1); !ok {
			all = false
		}
	})
	if any && all {
		return true, " (through the helper " + callee.Name() + ")"
	}
	return false, ""
}
