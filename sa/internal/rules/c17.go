package rules

import (
	"fmt"
	"go/token"
	"go/types"
	"sort"
	"strings"

	"golang.org/x/tools/go/ssa"

	"verif/sa/internal/core"
)

// libReq: argument position (receiver = 0 for methods) and the facts needed.
type libReq struct {
	arg   int
	needs []string // conjunction; each item may be alternatives "a|b"
	what  string
}

// Library functions that panic on argument values (curated from the callees
// reached by tainted values in this repository; frozen).
var libSinks = map[string][]libReq{
	"strings.Repeat":             {{1, []string{"ge0", "mulguard|hi"}, "count must be >= 0 and len(s)*count must not overflow"}},
	"bytes.Repeat":               {{1, []string{"ge0", "mulguard|hi"}, "count must be >= 0 and len(b)*count must not overflow"}},
	"(*math/rand.Rand).Intn":     {{1, []string{"gt0"}, "n must be > 0"}},
	"(*math/rand.Rand).Int63n":   {{1, []string{"gt0"}, "n must be > 0"}},
	"(*math/rand.Rand).Int31n":   {{1, []string{"gt0"}, "n must be > 0"}},
	"(*math/rand.Rand).Perm":     {{1, []string{"ge0", "ub"}, "n must be >= 0 and bounded"}},
	"math/rand.Intn":             {{0, []string{"gt0"}, "n must be > 0"}},
	"math/rand.Int63n":           {{0, []string{"gt0"}, "n must be > 0"}},
	"strconv.FormatInt":          {{1, []string{"range:2:36"}, "base must be in 2..36"}},
	"strconv.FormatUint":         {{1, []string{"range:2:36"}, "base must be in 2..36"}},
	"strconv.AppendInt":          {{2, []string{"range:2:36"}, "base must be in 2..36"}},
	"(*math/big.Int).Text":       {{1, []string{"range:2:62"}, "base must be in 2..62"}},
	"(*math/big.Rat).Inv":        {{1, []string{"ne0"}, "operand must be non-zero"}},
	"(*math/big.Rat).Quo":        {{2, []string{"ne0"}, "divisor must be non-zero"}},
	"(*math/big.Rat).SetFrac":    {{2, []string{"ne0"}, "denominator must be non-zero"}},
	"(*math/big.Rat).SetFrac64":  {{2, []string{"ne0"}, "denominator must be non-zero"}},
	"math/big.NewRat":            {{1, []string{"ne0"}, "denominator must be non-zero"}},
	"(*math/big.Int).Quo":        {{2, []string{"ne0"}, "divisor must be non-zero"}},
	"(*math/big.Int).Rem":        {{2, []string{"ne0"}, "divisor must be non-zero"}},
	"(*math/big.Int).Div":        {{2, []string{"ne0"}, "divisor must be non-zero"}},
	"(*math/big.Int).Mod":        {{2, []string{"ne0"}, "divisor must be non-zero"}},
	"(*math/big.Int).QuoRem":     {{2, []string{"ne0"}, "divisor must be non-zero"}},
	"(*math/big.Int).DivMod":     {{2, []string{"ne0"}, "divisor must be non-zero"}},
	"(*math/big.Int).Rand":       {{2, []string{"gt0"}, "n must be > 0"}},
	"(*math/big.Int).Lsh":        {{2, []string{"ub"}, "shift count must be bounded"}},
	"(*flag.FlagSet).Var":        {{2, []string{"noprefix:-", "nocontain:=", "flag-unique"}, "a duplicate or malformed flag name panics"}},
	"(*flag.FlagSet).BoolVar":    {{2, []string{"noprefix:-", "nocontain:=", "flag-unique"}, "a duplicate or malformed flag name panics"}},
	"(*flag.FlagSet).StringVar":  {{2, []string{"noprefix:-", "nocontain:=", "flag-unique"}, "a duplicate or malformed flag name panics"}},
	"(*flag.FlagSet).Bool":       {{1, []string{"noprefix:-", "nocontain:=", "flag-unique"}, "a duplicate or malformed flag name panics"}},
	"(*flag.FlagSet).String":     {{1, []string{"noprefix:-", "nocontain:=", "flag-unique"}, "a duplicate or malformed flag name panics"}},
	"(*flag.FlagSet).Int":        {{1, []string{"noprefix:-", "nocontain:=", "flag-unique"}, "a duplicate or malformed flag name panics"}},
	"regexp.MustCompilePOSIX":    {{0, []string{"never"}, "an invalid pattern panics"}},
	"text/template.Must":         nil,
	"regexp.MustCompile":         {{0, []string{"never"}, "an invalid pattern panics"}},
	"time.NewTicker":             {{0, []string{"gt0"}, "duration must be > 0"}},
	"time.Tick":                  {{0, []string{"gt0"}, "duration must be > 0"}},
	"(*strings.Builder).Grow":    {{1, []string{"ge0", "ub"}, "n must be >= 0 and bounded"}},
	"(*bytes.Buffer).Grow":       {{1, []string{"ge0", "ub"}, "n must be >= 0 and bounded"}},
	"unicode/utf8.AppendRune":    nil,
}

func needOK(f factSet, need string) bool {
	for _, alt := range strings.Split(need, "|") {
		switch {
		case alt == "never":
		case alt == "hi":
			if hasConstHi(f) {
				return true
			}
		case strings.HasPrefix(alt, "range:"):
			parts := strings.Split(alt, ":")
			lo, _ := parseInt(parts[1])
			hi, _ := parseInt(parts[2])
			okLo, okHi := false, false
			for k := range f {
				if strings.HasPrefix(k, "lo>=") {
					if n, err := parseInt(k[4:]); err == nil && n >= lo {
						okLo = true
					}
				}
				if strings.HasPrefix(k, "hi<=") {
					if n, err := parseInt(k[4:]); err == nil && n <= hi {
						okHi = true
					}
				}
			}
			if okLo && okHi {
				return true
			}
		default:
			if f[alt] {
				return true
			}
			// below the length of a slice that was made with more elements
			// than the index
			if strings.HasPrefix(alt, "ltlen:") && f["ltmade:"+alt[6:]] {
				return true
			}
		}
	}
	return false
}

type sink struct {
	ins     ssa.Instruction
	operand ssa.Value
	kind    string   // index, slice, make, intdiv, shift, assert, lib:<callee>
	needs   []string // facts needed
	what    string
}

// sinkAudit: constructs that are safe for a reason the analysis cannot see.
// Key = construct (function + kind + origin); one line of reason each.
var sinkAudit = map[string]string{
	"(*eval.whileOp).exec assert eval.Exception of call:? missing=never":  "the body of while is a thunk (the compiler rejects a body lambda with arguments), so Closure.Call cannot fail its arity check and returns only Exception values",
	"(*eval.forOp).exec$ assert eval.Exception of call:? missing=never":   "the body of for is a thunk (compile-time check), so Closure.Call returns only Exception values",
	"(*eval.tryOp).exec assert eval.Exception of call:? missing=never":    "the body of try is a thunk (compile-time check), so Closure.Call returns only Exception values",
	"(eval.fnOp).exec assert *eval.Closure of *extract(call:?)[] missing=never": "fnOp.lambdaOp is compiled from a lambda node (compileFn), so it evaluates to exactly one *Closure",
	"eval.execLambdaOp assert eval.Callable of *extract(call:?)[] missing=never": "only called with ops compiled from lambda nodes by the special forms (if/while/for/try)",
	"eval/vals.assocString slice of extract(call:convertStringIndex) missing=ge0,lelen:param:s|ltlen:param:s":              "convertStringIndex returns bounds validated by ConvertListIndex against n = len(s): 0 <= i <= j <= len(s) (index arithmetic itself is C13, not decided here)",
	"eval/vals.indexString slice of extract(call:convertStringIndex) missing=ge0,lelen:param:s|ltlen:param:s":              "convertStringIndex returns bounds validated by ConvertListIndex against n = len(s): 0 <= i <= j <= len(s)",
	"eval/vals.convertStringIndex slice of *extract(call:ConvertListIndex).Lower missing=ge0,lelen:param:s|ltlen:param:s": "ConvertListIndex(rawIndex, len(s)) returned without error, so adjustAndCheckIndex bounded Lower by [0, len(s)]",
	"eval/vals.convertStringIndex slice of *extract(call:ConvertListIndex).Upper missing=ge0,lelen:param:s|ltlen:param:s": "ConvertListIndex(rawIndex, len(s)) returned without error, so adjustAndCheckIndex bounded Upper by [Lower, len(s)]",
	"eval/vals.hasKeyViaIterateKeys$ ifacecmp of *freevar:*any missing=never": "the keys handed out by every IterateKeys implementation (Ns, ui.Text, *ui.Segment, complexItem) are strings or ints; == panics only when both operands hold the same uncomparable type",
	"eval.growAccess index of param:int missing=ltlen:*param:s":           "grow idiom: when i >= len(*s) the slice was just replaced by make([]T, i+1), so i < len(*s) on both branches",
	"eval.randint assert *big.Int of *param:[]vals.Num[] missing=never":   "checkExactIntArg accepted the argument, so it is int or *big.Int, and the int case was just excluded by the comma-ok assertion",
	"eval.rem lib:(*math/big.Int).Rem of call:PromoteToBigInt missing=ne0": "b was compared with exact 0 (b == 0 returns ErrDivideByZero) before PromoteToBigInt(b)",
	"eval/vals.UnifyNums assert int of *param:[]vals.Num[] missing=never": "typ == Int is the maximum of getNumType over all elements, so every element is an int",
}

// Audit entries that stand for a whole function rather than one expression:
// the key names the function the sink belongs to (a helper called from one
// function only counts as part of that function, closures as part of their
// parent) and the class of the operation, so that moving the operation into a
// helper or spelling it with a sibling method keeps the entry. An entry with
// a condition is granted only while the structural fact its reason rests on
// is found in the code.
type classAudit struct {
	reason string
	cond   func(p *core.Program, root *ssa.Function) (bool, string)
}

var sinkClassAudit = map[string]classAudit{
	"eval.div lib:big.Rat-div missing=ne0": {
		reason: "every argument of div was compared with exact 0 before the numbers are unified (the divisors rawNums[1:] in the loop at the top, the dividend right after it); UnifyNums preserves zero-ness, and a normalised big number is never zero",
		cond:   divGuardsEveryArgument,
	},
	"eval.randIntBigInt lib:(*math/big.Int).Rand missing=gt0": {
		reason: "randIntBigInt returns early unless high > low; Rand is called with high when low is 0 and with high-low otherwise, both positive",
	},
}

// sinkClass groups sibling operations that share one precondition.
func sinkClass(kind string) string {
	switch kind {
	case "lib:(*math/big.Rat).Quo", "lib:(*math/big.Rat).Inv":
		return "lib:big.Rat-div"
	}
	return kind
}

// divGuardsEveryArgument: in root (eval.div), before vals.UnifyNums is called
// on the argument list, (a) a range loop over args[1:] returns when an element
// equals exact 0 and (b) args[0] is compared with exact 0 and the call lies
// on the unequal side.
func divGuardsEveryArgument(p *core.Program, root *ssa.Function) (bool, string) {
	var unify *ssa.Call
	core.Instrs(root, func(ins ssa.Instruction) {
		if c, ok := ins.(*ssa.Call); ok {
			if callee := c.Call.StaticCallee(); callee != nil && core.IsFunc(callee, pkgVals, "", "UnifyNums") {
				unify = c
			}
		}
	})
	if unify == nil || len(root.Params) == 0 {
		return false, "no call of vals.UnifyNums in " + core.FnKey(root)
	}
	var args ssa.Value = root.Params[len(root.Params)-1]
	isArgs := func(v ssa.Value) bool { return v == args || resolveVal(v) == resolveVal(args) }
	if !isArgs(unify.Call.Args[0]) {
		return false, "vals.UnifyNums is not applied to the argument list itself"
	}
	isZeroNum := func(v ssa.Value) bool {
		mi, ok := v.(*ssa.MakeInterface)
		if !ok {
			return false
		}
		n, isC := constInt(mi.X)
		return isC && n == 0
	}
	// (a) the divisors
	var rest ssa.Value
	core.Instrs(root, func(ins ssa.Instruction) {
		if sl, ok := ins.(*ssa.Slice); ok && isArgs(sl.X) && sl.High == nil && sl.Max == nil {
			if one, isC := constInt(sl.Low); isC && one == 1 && elemsComparedBefore(sl, unify, isZeroNum) {
				rest = sl
			}
		}
	})
	if rest == nil {
		return false, "no loop that returns when one of args[1:] equals exact 0 is finished before vals.UnifyNums is called"
	}
	// (b) the dividend
	first := false
	for _, b := range root.Blocks {
		if len(b.Instrs) == 0 {
			continue
		}
		iff, ok := b.Instrs[len(b.Instrs)-1].(*ssa.If)
		if !ok {
			continue
		}
		cmp, ok := iff.Cond.(*ssa.BinOp)
		if !ok || (cmp.Op != token.EQL && cmp.Op != token.NEQ) {
			continue
		}
		var other ssa.Value
		switch {
		case isZeroNum(cmp.Y):
			other = cmp.X
		case isZeroNum(cmp.X):
			other = cmp.Y
		default:
			continue
		}
		ld, ok := resolveVal(other).(*ssa.UnOp)
		if !ok || ld.Op != token.MUL {
			continue
		}
		ia, ok := ld.X.(*ssa.IndexAddr)
		if !ok || !isArgs(ia.X) {
			continue
		}
		if zero, isC := constInt(ia.Index); !isC || zero != 0 {
			continue
		}
		edge := core.EdgeTo(b, unify.Block())
		if (cmp.Op == token.EQL && edge == 1) || (cmp.Op == token.NEQ && edge == 0) {
			first = true
		}
	}
	if !first {
		return false, "vals.UnifyNums is reached although args[0] was not found to differ from exact 0"
	}
	return true, ""
}

type panicEngine struct {
	p       *core.Program
	entries map[*ssa.Function]string
	t       *taintEngine
	fe      *factEngine
}

func newPanicEngine(p *core.Program) *panicEngine {
	entries := discoverEntries(p)
	return &panicEngine{p: p, entries: entries, t: newTaintEngine(p, entries), fe: newFactEngine(p, entries)}
}

func (e *panicEngine) sinks() []sink {
	var out []sink
	tainted := func(v ssa.Value) bool { _, ok := e.t.tainted[v]; return ok && v != nil }
	for _, fn := range e.p.RepoFns {
		core.Instrs(fn, func(ins ssa.Instruction) {
			switch v := ins.(type) {
			case *ssa.IndexAddr:
				if tainted(v.Index) {
					out = append(out, sink{ins, v.Index, "index", []string{"ge0", "ltlen:" + exprKey(v.X)}, "index must be within [0, len)"})
				}
			case *ssa.Index:
				if tainted(v.Index) {
					out = append(out, sink{ins, v.Index, "index", []string{"ge0", "ltlen:" + exprKey(v.X)}, "index must be within [0, len)"})
				}
			case *ssa.Lookup:
				if _, isStr := v.X.Type().Underlying().(*types.Basic); isStr && tainted(v.Index) {
					out = append(out, sink{ins, v.Index, "index", []string{"ge0", "ltlen:" + exprKey(v.X)}, "string index must be within [0, len)"})
				}
				// m[k] on a Go map keyed by an interface type hashes the dynamic
				// value of k: a slice-typed value (styled text, a pipeline
				// error) panics with "hash of unhashable type"
				if mt, isMap := v.X.Type().Underlying().(*types.Map); isMap && isEmptyIface(mt.Key()) && tainted(v.Index) && !fromConcrete(v.Index) && !recoversPanic(v.Parent()) {
					out = append(out, sink{ins, v.Index, "mapkey", []string{"never"}, "a script-controlled value is used as the key of a Go map keyed by an interface type: an unhashable dynamic type (a styled text is a slice) panics with 'hash of unhashable type'"})
				}
			case *ssa.MapUpdate:
				if mt, isMap := v.Map.Type().Underlying().(*types.Map); isMap && isEmptyIface(mt.Key()) && tainted(v.Key) && !fromConcrete(v.Key) && !recoversPanic(v.Parent()) {
					out = append(out, sink{ins, v.Key, "mapkey", []string{"never"}, "a script-controlled value is used as the key of a Go map keyed by an interface type: an unhashable dynamic type (a styled text is a slice) panics with 'hash of unhashable type'"})
				}
			case *ssa.Slice:
				for _, x := range []ssa.Value{v.Low, v.High, v.Max} {
					if x != nil && tainted(x) {
						base := v.X
						if ld, ok := core.IsLoad(base); ok {
							_ = ld
						}
						out = append(out, sink{ins, x, "slice", []string{"ge0", "lelen:" + exprKey(sliceBase(v.X)) + "|ltlen:" + exprKey(sliceBase(v.X))}, "slice bound must be within [0, len]"})
					}
				}
			case *ssa.MakeSlice:
				for _, x := range []ssa.Value{v.Len, v.Cap} {
					if tainted(x) {
						out = append(out, sink{ins, x, "make", []string{"ge0", "ub"}, "make size must be non-negative and bounded (a huge size panics with 'len out of range' or exhausts memory)"})
					}
				}
			case *ssa.BinOp:
				if (v.Op == token.QUO || v.Op == token.REM) && isIntType(v.Y.Type()) && tainted(v.Y) {
					out = append(out, sink{ins, v.Y, "intdiv", []string{"ne0"}, "integer divisor must be non-zero"})
				}
				if (v.Op == token.SHL || v.Op == token.SHR) && isIntType(v.Y.Type()) && !isUnsigned(v.Y.Type()) && tainted(v.Y) {
					out = append(out, sink{ins, v.Y, "shift", []string{"ge0"}, "signed shift count must be non-negative"})
				}
				// a == b on two interface values panics ("comparing uncomparable
				// type") when both hold the same uncomparable dynamic type - a
				// slice such as ui.Text. Comparing with a constant, or with a
				// value of a concrete type, is safe.
				if (v.Op == token.EQL || v.Op == token.NEQ) && isEmptyIface(v.X.Type()) && isEmptyIface(v.Y.Type()) && tainted(v.X) && tainted(v.Y) {
					if _, xc := v.X.(*ssa.Const); !xc {
						if _, yc := v.Y.(*ssa.Const); !yc {
							if !fromConcrete(v.X) && !fromConcrete(v.Y) && !knownNil(v.X, v) && !knownNil(v.Y, v) && !recoversPanic(v.Parent()) {
								out = append(out, sink{ins, v.X, "ifacecmp", []string{"never"}, "== on two script-controlled interface values panics when both hold the same uncomparable type (a styled text is a slice)"})
							}
						}
					}
				}
			case *ssa.TypeAssert:
				// x.(T) with T the static type of x is go/ssa's nil check for a
				// method value taken from an interface (y.Index): it cannot
				// fail on the dynamic type
				if types.Identical(v.X.Type(), v.AssertedType) {
					return
				}
				if !v.CommaOk && tainted(v.X) {
					out = append(out, sink{ins, v.X, "assert " + shortType(v.AssertedType), []string{"never"}, "a non-comma-ok type assertion on a script-controlled value panics when the dynamic type differs"})
				}
			case ssa.CallInstruction:
				c := v.Common()
				callee := c.StaticCallee()
				if callee == nil {
					return
				}
				reqs, ok := libSinks[callee.String()]
				if !ok {
					return
				}
				for _, rq := range reqs {
					if rq.arg < len(c.Args) && tainted(c.Args[rq.arg]) {
						out = append(out, sink{ins, c.Args[rq.arg], "lib:" + callee.String(), rq.needs, rq.what})
					}
				}
			}
		})
	}
	return out
}

func sliceBase(v ssa.Value) ssa.Value {
	// s[a:b] on a pointer-to-array: base is the array
	return v
}

// typeKnown: a non-comma-ok assertion is safe when the operand is a
// MakeInterface of exactly the asserted type, or is dominated by the
// success edge of a comma-ok assertion / type-switch case of that type.
func (e *panicEngine) assertSafe(ta *ssa.TypeAssert) string {
	if mi, ok := ta.X.(*ssa.MakeInterface); ok && types.Identical(mi.X.Type(), ta.AssertedType) {
		return "operand is built from a value of exactly the asserted type"
	}
	fn := ta.Parent()
	for _, b := range fn.Blocks {
		if len(b.Instrs) == 0 {
			continue
		}
		iff, ok := b.Instrs[len(b.Instrs)-1].(*ssa.If)
		if !ok {
			continue
		}
		ex, ok := iff.Cond.(*ssa.Extract)
		if !ok || ex.Index != 1 {
			continue
		}
		prev, ok := ex.Tuple.(*ssa.TypeAssert)
		if !ok || prev.X != ta.X || !types.Identical(prev.AssertedType, ta.AssertedType) {
			continue
		}
		if core.EdgeTo(b, ta.Block()) == 0 {
			return "dominated by the success edge of a comma-ok assertion to the same type"
		}
	}
	return ""
}

func (e *panicEngine) construct(s sink) string {
	return core.FnKey(s.ins.Parent()) + " " + s.kind + " of " + addrDesc(s.operand)
}

// run reports every sink under the given rule, optionally filtered.
func (e *panicEngine) run(r *core.Report, rule string, filter func(sink) bool) {
	sinks := e.sinks()
	r.Count(rule+" registered Go functions (entries)", len(e.entries))
	r.Count(rule+" tainted SSA values", len(e.t.tainted))
	sort.SliceStable(sinks, func(i, j int) bool { return e.construct(sinks[i]) < e.construct(sinks[j]) })
	for _, s := range sinks {
		if filter != nil && !filter(s) {
			continue
		}
		construct := e.construct(s)
		pos := e.p.InsPos(s.ins)
		if ta, ok := s.ins.(*ssa.TypeAssert); ok {
			if why := e.assertSafe(ta); why != "" {
				r.OK(rule, construct, pos, why)
				continue
			}
			// the value of a variable has the variable's Go type (ScanToGo
			// enforces it on assignment), except that $nil is stored into any
			// nil-able type unless PtrVar.Set refuses it
			if strings.HasPrefix(e.t.tainted[s.operand], "value of a variable") {
				if !nilable(ta.AssertedType) {
					r.OK(rule, construct, pos, "a variable of this Go type cannot hold $nil")
					continue
				}
				if ok, why := ptrVarRefusesNil(e.p); ok {
					r.OK(rule, construct, pos, why)
					continue
				} else {
					r.Bad(rule, construct, pos, "the value of a typed variable is asserted to be "+types.TypeString(ta.AssertedType, shortQual)+" without the comma-ok form, and "+why+": `set <variable> = $nil` then crashes the interpreter here")
					continue
				}
			}
		}
		facts := e.fe.at(s.operand, s.ins, 0)
		var missing []string
		for _, need := range s.needs {
			if !needOK(facts, need) {
				missing = append(missing, need)
			}
		}
		if len(missing) == 0 {
			r.OK(rule, construct, pos, "guarded on every path: "+strings.Join(s.needs, " & ")+" established by dominating checks / value shape ["+facts.String()+"]")
			continue
		}
		// audit entries name the construct and the exact missing facts
		if why, ok := sinkAudit[construct+" missing="+strings.Join(missing, ",")]; ok {
			r.Audit(rule, construct, pos, why+" (not established locally: "+strings.Join(missing, ",")+")")
			continue
		}
		var ca classAudit
		var root *ssa.Function
		for _, f := range uniqueCallerChain(e.p, s.ins.Parent()) {
			if a, ok := sinkClassAudit[core.FnKey(f)+" "+sinkClass(s.kind)+" missing="+strings.Join(missing, ",")]; ok {
				ca, root = a, f
				break
			}
		}
		if root != nil {
			if ca.cond == nil {
				r.Audit(rule, construct, pos, ca.reason+" (not established locally: "+strings.Join(missing, ",")+")")
				continue
			}
			if held, whyNot := ca.cond(e.p, root); held {
				r.Audit(rule, construct, pos, ca.reason+" (the comparisons were found in the code; not established locally: "+strings.Join(missing, ",")+")")
				continue
			} else {
				r.Bad(rule, construct, pos, fmt.Sprintf("script-controlled value reaches a panicking operation unguarded: %s; %s (`/ 0` or `/ 1 0` would crash the interpreter with a Go division by zero instead of raising an exception)", s.what, whyNot))
				continue
			}
		}
		origin := e.t.tainted[s.operand]
		onesided := ""
		if s.kind == "index" && len(missing) == 1 {
			onesided = " (one-sided check: only the other bound is tested)"
		}
		r.Bad(rule, construct, pos, fmt.Sprintf("script-controlled value reaches a panicking operation unguarded%s: %s; missing %s; known facts [%s]; taint origin: %s", onesided, s.what, strings.Join(missing, ","), facts.String(), origin))
	}
}

// paramReassigned: a parameter that is spilled to a cell and stored again.
func paramReassigned(prm *ssa.Parameter) bool {
	for _, ref := range *prm.Referrers() {
		if st, ok := ref.(*ssa.Store); ok && st.Val == ssa.Value(prm) {
			if cell, ok := st.Addr.(*ssa.Alloc); ok {
				n := 0
				for _, r2 := range *cell.Referrers() {
					if s2, ok := r2.(*ssa.Store); ok && s2.Addr == cell {
						n++
					}
				}
				if n > 1 {
					return true
				}
			}
		}
	}
	return false
}

// runVariadicIndex: a constant index into the variadic parameter of a
// registered Go function needs a dominating check of len(args).
func (e *panicEngine) runVariadicIndex(r *core.Report, rule string) {
	var fns []*ssa.Function
	for f := range e.entries {
		if f.Signature.Variadic() && f.Blocks != nil && !core.IsTestPkgPath(core.PkgPathOf(f)) {
			fns = append(fns, f)
		}
	}
	sort.Slice(fns, func(i, j int) bool { return fns[i].String() < fns[j].String() })
	r.Count(rule+" variadic registered functions", len(fns))
	for _, fn := range fns {
		prm := fn.Params[len(fn.Params)-1]
		// len(args) call values in the function
		var lens []ssa.Value
		core.Instrs(fn, func(ins ssa.Instruction) {
			if c, ok := ins.(*ssa.Call); ok {
				if la := lenArg(c); la == ssa.Value(prm) {
					lens = append(lens, c)
				}
			}
		})
		for _, ref := range *prm.Referrers() {
			var idx ssa.Value
			var ins ssa.Instruction
			var base ssa.Value = prm
			switch u := ref.(type) {
			case *ssa.IndexAddr:
				idx, ins = u.Index, u
			case *ssa.Slice:
				// args[k:] needs len >= k
				if u.Low != nil {
					idx, ins = u.Low, u
				}
			}
			_ = base
			if ins == nil {
				continue
			}
			n, isConst := constInt(idx)
			if !isConst {
				continue // variable indices are handled by the taint rule / range loops
			}
			need := n + 1
			if _, isSlice := ins.(*ssa.Slice); isSlice {
				need = n
			}
			construct := core.FnKey(fn) + " " + e.entries[fn] + " args[" + fmtInt(n) + "]"
			if _, isSlice := ins.(*ssa.Slice); isSlice {
				construct = core.FnKey(fn) + " " + e.entries[fn] + " args[" + fmtInt(n) + ":]"
			}
			// every len(args) value denotes the same number (the parameter
			// is never reassigned): pool the facts of all of them
			best := int64(0)
			pooled := factSet{}
			if !paramReassigned(prm) {
				for _, l := range lens {
					for k := range e.fe.at(l, ins, 0) {
						pooled[k] = true
					}
				}
			}
			for k := range pooled {
				if strings.HasPrefix(k, "lo>=") {
					if m, err := parseInt(k[4:]); err == nil && m > best {
						best = m
					}
				}
			}
			for pooled["ne:"+fmtInt(best)] {
				best++
			}
			if best >= need {
				r.OK(rule, construct, e.p.InsPos(ins), "dominated by a check establishing len(args) >= "+fmtInt(need))
			} else {
				r.Bad(rule, construct, e.p.InsPos(ins), "constant index into the variadic argument list without a dominating check that enough arguments were given (known: len >= "+fmtInt(best)+", needed: "+fmtInt(need)+"): calling the command with too few arguments panics")
			}
		}
	}
}

func init() {
	register(&core.Spec{
		ID: "C17",
		Explanation: "Decides a necessary condition of C17's 'never kills the process with a runtime panic' clause: (PANIC-SINK) for every Go function registered as an Elvish command (discovered from the registration maps), every special-form operand, every value read from the input stream and every value produced by evaluating an expression, no such script-controlled value reaches a panic-prone operation - slice/array/string index or slice bound, make size, integer division, signed shift, non-comma-ok type assertion, or a library call that panics on argument values (strings.Repeat, rand.Intn, strconv.FormatInt base, big.Rat.Inv/Quo/SetFrac, big.Int division family, flag.FlagSet.Var names, ...) - unless dominating checks establish the facts that make it safe (both bounds for an index, non-negative and bounded for a size, non-zero for a divisor, range for a base, ...). Facts flow interprocedurally from call sites into parameters and captured variables. (VARIADIC-INDEX) a constant index into the variadic argument list of a command needs a dominating len(args) check. (RESULT-INDEX) an element access on a list of values handed back by the interpreter (vals.Collect, Frame.CaptureOutput) is within a length proven on every path. (NIL-ARG) every parameter of a registered command for which argument conversion accepts $nil - pointer, non-empty interface, map and func types, and the elements of a variadic parameter of such a type - is compared with nil before any method call, field access, dereference, call or map write on it, followed through local cells, closures and calls of repository functions. Sinks that are safe for a reason outside the function are listed in an audit table, one reason each, keyed by construct and by the exact facts that could not be established. Other nil dereferences, untainted indices, unbounded resource use and the no-deadlock clause are not decided.",
		NotCovered:  "nil dereferences other than of $nil command arguments (NIL-ARG does not follow a nil argument stored in a value that outlives the call); panics not driven by a script-controlled scalar; resource exhaustion (huge exponents, unbounded allocation through library calls); the 'never hangs' clause; index arithmetic inside pkg/eval/vals is audited, not proven (C13)",
		Rules:       []string{"PANIC-SINK: taint from script-controlled values to panic-prone operations, discharged by dominating guard facts (interprocedural)", "VARIADIC-INDEX: constant index into a command's variadic arguments needs a len check", "GLOBAL-MAP-WRITE: package-level maps of pkg/eval and pkg/mods are written after initialisation only under a write lock (unsynchronised map writes abort the process)", "RLOCK-WRITE: nothing guarded by an RWMutex is written under its read lock", "RESULT-INDEX: an element access on a value list returned by the interpreter (vals.Collect, Frame.CaptureOutput) is within a length proven on every path", "NIL-ARG: a command parameter for which vals.ScanToGo accepts $nil (pointer, non-empty interface, map, func; elements of such a variadic parameter) is compared with nil before any use that needs it, in the command, its closures and the repository functions it is passed to"},
		Run: func(p *core.Program, r *core.Report) {
			e := newPanicEngine(p)
			e.run(r, "PANIC-SINK", nil)
			e.runVariadicIndex(r, "VARIADIC-INDEX")
			runGlobalMapWrite(p, r)
			runConstIndex(p, r)
			runNilArg(p, r, e.entries)
			runTracebackNil(p, r)
			runRLockWrite(p, r, "RLOCK-WRITE")
		},
		MinCounts: map[string]int{"PANIC-SINK": 15, "VARIADIC-INDEX": 2, "RESULT-INDEX": 5, "NIL-ARG": 25, "TRACEBACK-NIL": 2},
		Trusted:   append([]string{"the table of argument-panicking library functions and the audit table in sa/internal/rules/c17.go"}, trustedBase...),
		Controls: []core.Control{
			{Name: "unlocked-pattern-cache", Rule: "GLOBAL-MAP-WRITE", File: "pkg/mods/re/re.go", Old: "func makePattern(p string, posix, longest bool) (*regexp.Regexp, error) {\n\tpattern, err := compile(p, posix)\n\tif err != nil {\n\t\treturn nil, err\n\t}\n", New: "var patternCache = map[string]*regexp.Regexp{}\n\nfunc makePattern(p string, posix, longest bool) (*regexp.Regexp, error) {\n\tif c, ok := patternCache[p]; ok && !posix && !longest {\n\t\treturn c, nil\n\t}\n\tpattern, err := compile(p, posix)\n\tif err != nil {\n\t\treturn nil, err\n\t}\n\tif !posix && !longest {\n\t\tpatternCache[p] = pattern\n\t}\n", Fire: true, Want: "patternCache"},
			{Name: "read-locked-pattern-cache", Rule: "RLOCK-WRITE", File: "pkg/mods/re/re.go", Old: "func makePattern(p string, posix, longest bool) (*regexp.Regexp, error) {\n\tpattern, err := compile(p, posix)\n\tif err != nil {\n\t\treturn nil, err\n\t}\n", New: "var patternCache = map[string]*regexp.Regexp{}\nvar patternCacheMutex sync.RWMutex\n\nfunc makePattern(p string, posix, longest bool) (*regexp.Regexp, error) {\n\tpatternCacheMutex.RLock()\n\tdefer patternCacheMutex.RUnlock()\n\tif c, ok := patternCache[p]; ok && !posix && !longest {\n\t\treturn c, nil\n\t}\n\tpattern, err := compile(p, posix)\n\tif err != nil {\n\t\treturn nil, err\n\t}\n\tif !posix && !longest {\n\t\tpatternCache[p] = pattern\n\t}\n", Edits: [][2]string{{"\t\"strings\"\n", "\t\"strings\"\n\t\"sync\"\n"}}, Fire: true, Want: "patternCache"},
			{Name: "benign-write-locked-pattern-cache", Rule: "GLOBAL-MAP-WRITE", File: "pkg/mods/re/re.go", Old: "func makePattern(p string, posix, longest bool) (*regexp.Regexp, error) {\n\tpattern, err := compile(p, posix)\n\tif err != nil {\n\t\treturn nil, err\n\t}\n", New: "var patternCache = map[string]*regexp.Regexp{}\nvar patternCacheMutex sync.Mutex\n\nfunc makePattern(p string, posix, longest bool) (*regexp.Regexp, error) {\n\tpatternCacheMutex.Lock()\n\tdefer patternCacheMutex.Unlock()\n\tif c, ok := patternCache[p]; ok && !posix && !longest {\n\t\treturn c, nil\n\t}\n\tpattern, err := compile(p, posix)\n\tif err != nil {\n\t\treturn nil, err\n\t}\n\tif !posix && !longest {\n\t\tpatternCache[p] = pattern\n\t}\n", Edits: [][2]string{{"\t\"strings\"\n", "\t\"strings\"\n\t\"sync\"\n"}}, Fire: false},
			{Name: "revert-fix-each-nil", Rule: "NIL-ARG", File: "pkg/eval/builtin_fn_flow.go", Old: "func each(fm *Frame, f Callable, inputs Inputs) error {\n\tif f == nil {\n\t\treturn errs.BadValue{What: \"function\", Valid: \"function\", Actual: \"$nil\"}\n\t}\n", New: "func each(fm *Frame, f Callable, inputs Inputs) error {\n", Fire: true, Want: "eval:each", Quick: true},
			{Name: "revert-fix-run-parallel-nil", Rule: "NIL-ARG", File: "pkg/eval/builtin_fn_flow.go", Old: "\tfor _, function := range functions {\n\t\tif function == nil {\n\t\t\treturn errs.BadValue{What: \"function\", Valid: \"function\", Actual: \"$nil\"}\n\t\t}\n\t}\n", New: "", Fire: true, Want: "run-parallel"},
			{Name: "revert-fix-multi-error-nil", Rule: "NIL-ARG", File: "pkg/eval/builtin_fn_flow.go", Old: "\tfor _, exc := range excs {\n\t\tif exc == nil {\n\t\t\treturn errs.BadValue{What: \"exception\", Valid: \"exception\", Actual: \"$nil\"}\n\t\t}\n\t}\n", New: "", Fire: true, Want: "multi-error"},
			{Name: "nil-check-after-use", Rule: "NIL-ARG", File: "pkg/mods/flag/flag.go", Old: "\tif fn == nil {\n\t\treturn errs.BadValue{What: \"function to call\", Valid: \"function\", Actual: \"$nil\"}\n\t}\n\tif argsVal == nil {", New: "\tif len(fn.OptNames) > 64 {\n\t\treturn errs.BadValue{What: \"function to call\", Valid: \"function with at most 64 options\", Actual: \"more\"}\n\t}\n\tif fn == nil {\n\t\treturn errs.BadValue{What: \"function to call\", Valid: \"function\", Actual: \"$nil\"}\n\t}\n\tif argsVal == nil {", Fire: true, Want: "flag:call"},
			{Name: "benign-nil-check-in-helper-order", Rule: "NIL-ARG", File: "pkg/eval/builtin_fn_time.go", Old: "func timeCmd(fm *Frame, opts timeOpt, f Callable) error {\n\tif f == nil {\n\t\treturn errs.BadValue{What: \"function\", Valid: \"function\", Actual: \"$nil\"}\n\t}\n", New: "func timeCmd(fm *Frame, opts timeOpt, f Callable) error {\n\tif f != nil {\n\t\treturn timeIt(fm, opts, f)\n\t}\n\treturn errs.BadValue{What: \"function\", Valid: \"function\", Actual: \"$nil\"}\n}\n\nfunc timeIt(fm *Frame, opts timeOpt, f Callable) error {\n", Fire: false},
			{Name: "revert-fix-typed-var-nil", Rule: "PANIC-SINK", File: "pkg/eval/vars/ptr.go", Old: "\tif val == nil {\n\t\tt := reflect.TypeOf(v.ptr).Elem()\n\t\tif t.Kind() != reflect.Interface || t.NumMethod() > 0 {\n\t\t\treturn errCannotSetToNil\n\t\t}\n\t}\n", New: "", Fire: true, Want: "NewEvaler"},
			{Name: "revert-fix-deprecate-from-a-hook", Rule: "TRACEBACK-NIL", File: "pkg/eval/builtin_fn_misc.go", Old: "\tif fm.traceback != nil && fm.traceback.Next != nil {", New: "\tif fm.traceback.Next != nil {", Fire: true, Want: "deprecate"},
			{Name: "revert-fix-is-compares-interfaces", Rule: "PANIC-SINK", File: "pkg/eval/builtin_fn_pred.go", Old: "\t\tif !identical(args[i], args[i+1]) {", New: "\t\tif args[i] != args[i+1] {", Fire: true, Want: "eval.is"},
			{Name: "collect-length-believed", Rule: "RESULT-INDEX", File: "pkg/eval/builtin_fn_container.go", Old: "\t\tif len(elems) != 2 {\n\t\t\terrMakeMap = fmt.Errorf(\"internal bug: collected %v values\", len(elems))\n\t\t\treturn\n\t\t}\n", New: "", Fire: true, Want: "makeMap"},
			{Name: "revert-fix-negative-fd", Rule: "PANIC-SINK", File: "pkg/eval/compile_effect.go", Old: "if dst < 0 || dst > maxRedirFD {", New: "if dst > maxRedirFD {", Fire: true, Want: "growAccess", Quick: true},
			{Name: "revert-fix-huge-fd", Rule: "PANIC-SINK", File: "pkg/eval/compile_effect.go", Old: "if dst < 0 || dst > maxRedirFD {", New: "if dst < 0 {", Fire: true, Want: "growAccess make"},
			{Name: "revert-fix-src-fd", Rule: "PANIC-SINK", File: "pkg/eval/compile_effect.go", Old: "case src < 0 || src >= len(fm.ports) || fm.ports[src] == nil:", New: "case src >= len(fm.ports) || fm.ports[src] == nil:", Fire: true, Want: "redirOp"},
			{Name: "revert-fix-frame-port", Rule: "PANIC-SINK", File: "pkg/eval/frame.go", Old: "if i < 0 || i >= len(fm.ports) {", New: "if i >= len(fm.ports) {", Fire: true, Want: "Port"},
			{Name: "port-off-by-one", Rule: "PANIC-SINK", File: "pkg/eval/frame.go", Old: "if i < 0 || i >= len(fm.ports) {", New: "if i < 0 || i > len(fm.ports) {", Fire: true, Want: "Port"},
			{Name: "revert-fix-pow-zero", Rule: "PANIC-SINK", File: "pkg/mods/math/math.go", Old: "\t\t\tif base.Sign() == 0 {\n\t\t\t\t// A negative power of exact zero is a division by exact zero.\n\t\t\t\treturn nil, eval.ErrDivideByZero\n\t\t\t}\n", New: "", Fire: true, Want: "pow"},
			{Name: "revert-fix-run-parallel-assert", Rule: "PANIC-SINK", File: "pkg/eval/builtin_fn_flow.go", Old: "\t\t\t\tif exc, ok := err.(Exception); ok {\n\t\t\t\t\t*pexc = exc\n\t\t\t\t} else {\n\t\t\t\t\t*pexc = &exception{err, fm2.traceback}\n\t\t\t\t}", New: "\t\t\t\t*pexc = err.(Exception)", Fire: true, Want: "runParallel"},
			{Name: "revert-fix-randint-overflow", Rule: "PANIC-SINK", File: "pkg/eval/builtin_fn_num.go", Old: "\tn := high - low\n\tif n <= 0 {\n\t\t// high - low overflows int; use arbitrary-precision arithmetic.\n\t\treturn randIntBigInt(big.NewInt(int64(low)), big.NewInt(int64(high)))\n\t}\n", New: "\tn := high - low\n", Fire: true, Want: "randIntSmallInt"},
			{Name: "revert-fix-str-repeat-overflow", Rule: "PANIC-SINK", File: "pkg/mods/str/str.go", Old: "if len(s) > 0 && n > math.MaxInt/len(s) {", New: "if len(s)*n < 0 {", Edits: [][2]string{{"\t\"math\"\n", ""}}, Fire: true, Want: "repeat"},
			{Name: "revert-fix-flag-duplicate", Rule: "PANIC-SINK", File: "pkg/mods/flag/flag.go", Old: "\tif fs.Lookup(name) != nil {\n\t\treturn errs.BadValue{What: \"flag name\",\n\t\t\tValid: \"name not used by a previous flag\", Actual: vals.ReprPlain(name)}\n\t}\n", New: "", Fire: true, Want: "addFlag"},
			{Name: "base-drop-range-check", Rule: "PANIC-SINK", File: "pkg/eval/builtin_fn_str.go", Old: "if b < 2 || b > 36 {", New: "if b > 36 {", Fire: true, Want: "base"},
			{Name: "str-repeat-drop-negative-check", Rule: "PANIC-SINK", File: "pkg/mods/str/str.go", Old: "\tif n < 0 {\n\t\treturn \"\", errs.BadValue{What: \"n\", Valid: \"non-negative number\", Actual: vals.ToString(n)}\n\t}\n", New: "", Fire: true, Want: "repeat"},
			{Name: "rem-drop-zero-check", Rule: "PANIC-SINK", File: "pkg/eval/builtin_fn_num.go", Old: "\tif b == 0 {\n\t\treturn 0, ErrDivideByZero\n\t}\n\tif a, ok := a.(int); ok {", New: "\tif a, ok := a.(int); ok {", Fire: true, Want: "rem"},
			{Name: "randint-drop-arity-check", Rule: "VARIADIC-INDEX", File: "pkg/eval/builtin_fn_num.go", Old: "if len(args) == 0 || len(args) > 2 {", New: "if len(args) > 2 {", Fire: true, Want: "randint", Quick: true},
			{Name: "benign-base-inverted-branch", Rule: "PANIC-SINK", File: "pkg/eval/builtin_fn_str.go", Old: "if b < 2 || b > 36 {", New: "if !(b >= 2 && b <= 36) {", Fire: false},
			{Name: "benign-port-check-reordered", Rule: "PANIC-SINK", File: "pkg/eval/frame.go", Old: "if i < 0 || i >= len(fm.ports) {", New: "if len(fm.ports) <= i || 0 > i {", Fire: false},
		},
	})
}
