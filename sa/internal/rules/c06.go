package rules

import (
	"go/token"
	"go/types"

	"golang.org/x/tools/go/ssa"

	"verif/sa/internal/core"
)

func init() {
	register(&core.Spec{
		ID: "C06",
		Explanation: "Decides the immutability clause of C06 ('no operation ever changes a previously obtained list') structurally: rule FRESH shows that every instruction in pkg/persistent/vector that writes memory (Store, copy, append, map update) writes into memory allocated during the same activation (or returned by a callee all of whose returns are fresh), or into an iterator's private cursor state. So no operation can write into a node, tail or header reachable from an existing Vector. It does not decide that results equal the array model.",
		NotCovered:  "agreement of results with a plain array (lengths, height transitions, slices of slices, out-of-range rejection, iteration order) is value-level and not decided",
		Rules:       []string{"FRESH: every write in the persistent vector package targets fresh or cursor-owned memory", "API-OPAQUE: no exported function or interface method of the package returns a slice, pointer or array aliasing internal storage", "SLICE-OWN-BOUNDS: a slice of a list compares every index with its own extent before delegating to the underlying vector", "NODE-INDEX: every index into a fixed-size tree node is proven to lie inside it"},
		Patterns:    []string{"./pkg/persistent/..."},
		Run: func(p *core.Program, r *core.Report) {
			runFresh(p, r, "FRESH", pkgVector)
			runAPIOpaque(p, r, pkgVector)
			runSliceOwnBounds(p, r)
			runNodeIndex(p, r)
		},
		MinCounts: map[string]int{"FRESH": 30, "API-OPAQUE": 5, "SLICE-OWN-BOUNDS": 4, "NODE-INDEX": 4},
		Trusted:   trustedBase,
		Controls: []core.Control{
			{Name: "doAssoc-mutates-in-place", Rule: "FRESH", File: "pkg/persistent/vector/vector.go", Old: "m := clone(n)\n\tif height == 0 {", New: "m := n\n\tif height == 0 {", Fire: true, Want: "doAssoc", Quick: true},
			{Name: "Conj-appends-into-shared-tail", Rule: "FRESH", File: "pkg/persistent/vector/vector.go",
				Old: "newTail := make([]any, len(v.tail)+1)\n\t\tcopy(newTail, v.tail)\n\t\tnewTail[len(v.tail)] = val", New: "newTail := append(v.tail, val)", Fire: true, Want: "Conj"},
			{Name: "Assoc-tail-in-place", Rule: "FRESH", File: "pkg/persistent/vector/vector.go",
				Old: "newTail := append([]any(nil), v.tail...)", New: "newTail := v.tail", Fire: true, Want: "Assoc"},
			{Name: "popTail-in-place", Rule: "FRESH", File: "pkg/persistent/vector/vector.go",
				Old: "\t\tm := clone(n)\n\t\tm[idx] = nil\n\t\treturn m", New: "\t\tm := n\n\t\tm[idx] = nil\n\t\treturn m", Fire: true, Want: "popTail"},
			{Name: "benign-make-copy-instead-of-append-nil", Rule: "FRESH", File: "pkg/persistent/vector/vector.go",
				Old: "newTail := append([]any(nil), v.tail...)", New: "newTail := make([]any, len(v.tail))\n\t\tcopy(newTail, v.tail)", Fire: false},
			{Name: "revert-fix-nested-slice-unchecked", Rule: "SLICE-OWN-BOUNDS", File: "pkg/persistent/vector/vector.go",
				Old: "\tif i < 0 || i > j || j > s.Len() {\n\t\treturn nil\n\t}\n\treturn s.v.SubVector(s.begin+i, s.begin+j)", New: "\treturn s.v.SubVector(s.begin+i, s.begin+j)", Fire: true, Want: "SubVector", Quick: true},
			{Name: "slice-index-lower-bound-dropped", Rule: "SLICE-OWN-BOUNDS", File: "pkg/persistent/vector/vector.go",
				Old: "\tif i < 0 || i >= s.Len() {\n\t\treturn nil, false\n\t}", New: "\tif i >= s.Len() {\n\t\treturn nil, false\n\t}", Fire: true, Want: "Index"},
			{Name: "benign-slice-bounds-against-end", Rule: "SLICE-OWN-BOUNDS", File: "pkg/persistent/vector/vector.go",
				Old: "\tif i < 0 || i >= s.Len() {\n\t\treturn nil, false\n\t}", New: "\tif i < 0 || i >= s.end-s.begin {\n\t\treturn nil, false\n\t}", Fire: false},
			{Name: "iterator-path-index-unmasked", Rule: "NODE-INDEX", File: "pkg/persistent/vector/vector.go",
				Old: "\t\tidx := (begin >> shift) & chunkMask", New: "\t\tidx := begin >> shift", Fire: true, Want: "newIteratorWithRange"},
			{Name: "benign-inline-clone", Rule: "FRESH", File: "pkg/persistent/vector/vector.go",
				Old: "m := clone(n)\n\tif height == 0 {", New: "a := *n\n\tm := node(&a)\n\tif height == 0 {", Fire: false},
		},
	})
	register(&core.Spec{
		ID: "C07",
		Explanation: "Decides the immutability clause of C07 ('earlier versions of the map are never changed') structurally: rule FRESH shows that every instruction in pkg/persistent/hashmap that writes memory writes into memory allocated during the same activation (make/append(nil,…)/by-value array copy/composite literal/fresh-returning helper such as replaceEntry, withoutEntry, pack, unpack) or into iterator-private state. It does not decide agreement with a reference dictionary.",
		NotCovered:  "lookup/size/iteration agreement with a dictionary, collision handling and exactly-once iteration are value-level and not decided",
		Rules:       []string{"FRESH: every write in the persistent hashmap package targets fresh or cursor-owned memory", "API-OPAQUE: no exported function or interface method returns storage aliasing internal nodes"},
		Patterns:    []string{"./pkg/persistent/..."},
		Run: func(p *core.Program, r *core.Report) {
			runFresh(p, r, "FRESH", pkgHashmap)
			runAPIOpaque(p, r, pkgHashmap)
		},
		MinCounts: map[string]int{"FRESH": 40, "API-OPAQUE": 5},
		Trusted:   trustedBase,
		Controls: []core.Control{
			{Name: "replaceEntry-in-place", Rule: "FRESH", File: "pkg/persistent/hashmap/hashmap.go", Old: "newEntries := append([]mapEntry(nil), entries...)", New: "newEntries := entries", Fire: true, Want: "replaceEntry", Quick: true},
			{Name: "arrayNode-withNewChild-in-place", Rule: "FRESH", File: "pkg/persistent/hashmap/hashmap.go",
				Old: "newChildren := n.children\n\tnewChildren[i] = newChild\n\treturn &arrayNode{n.nChildren + d, newChildren}", New: "n.children[i] = newChild\n\tn.nChildren += d\n\treturn n", Fire: true, Want: "withNewChild"},
			{Name: "collision-assoc-appends-into-shared", Rule: "FRESH", File: "pkg/persistent/hashmap/hashmap.go",
				Old: "newEntries := make([]mapEntry, len(n.entries)+1)\n\t\tcopy(newEntries[:len(n.entries)], n.entries[:])\n\t\tnewEntries[len(n.entries)] = mapEntry{k, v}", New: "newEntries := append(n.entries, mapEntry{k, v})", Fire: true, Want: "assoc"},
			{Name: "benign-replaceEntry-make-copy", Rule: "FRESH", File: "pkg/persistent/hashmap/hashmap.go", Old: "newEntries := append([]mapEntry(nil), entries...)", New: "newEntries := make([]mapEntry, len(entries))\n\tcopy(newEntries, entries)", Fire: false},
		},
	})
	register(&core.Spec{
		ID: "C14",
		Explanation: "Decides the 'never change any other observable value' clause of C14 structurally: (FRESH) neither persistent container package, nor vals.Assoc/vals.Dissoc and their callees inside package vals, nor the element-variable code in pkg/eval/vars writes into memory that is not freshly allocated (the element variable's own bookkeeping fields excepted); (ASSOC-CHAIN) in (*elem).Set and DelElement the only value handed to the head variable's Set is the result of the vals.Assoc/vals.Dissoc chain, and the containers read through Var.Get/vals.Index are used only as arguments of vals.Index/Assoc/Dissoc. It does not decide that exactly the addressed element changes.",
		NotCovered:  "that the rebound value equals the nested assoc of the old value (index arithmetic, C13) and tmp/with restoration (C21) are not decided here",
		Rules:       []string{"FRESH: writes in pkg/persistent/{vector,hashmap}, in vals.Assoc/Dissoc's call tree inside vals, and in vars element functions target fresh memory", "ASSOC-CHAIN: head variable is Set only with the Assoc/Dissoc chain's result; containers flow only into vals.Index/Assoc/Dissoc"},
		Patterns:    []string{"./pkg/persistent/...", "./pkg/eval/vars", "./pkg/eval/vals"},
		Run: func(p *core.Program, r *core.Report) {
			runFresh(p, r, "FRESH", pkgVector, pkgHashmap)
			runAssocTree(p, r)
			runAssocChain(p, r)
		},
		MinCounts: map[string]int{"FRESH": 80, "ASSOC-CHAIN": 4},
		Trusted:   trustedBase,
		Controls: []core.Control{
			{Name: "elem-Set-skips-assoc-on-last-level", Rule: "ASSOC-CHAIN", File: "pkg/eval/vars/element.go", Old: "\terr = ev.variable.Set(v)\n", New: "\terr = ev.variable.Set(ev.assocers[0])\n", Fire: true, Quick: true},
			{Name: "doAssoc-mutates-in-place", Rule: "FRESH", File: "pkg/persistent/vector/vector.go", Old: "m := clone(n)\n\tif height == 0 {", New: "m := n\n\tif height == 0 {", Fire: true, Want: "doAssoc"},
			{Name: "DelElement-writes-container-slot", Rule: "ASSOC-CHAIN", File: "pkg/eval/vars/element.go", Old: "\treturn variable.Set(v)\n}", New: "\tif m, ok := container.(map[string]any); ok {\n\t\tdelete(m, \"x\")\n\t}\n\treturn variable.Set(v)\n}", Fire: true},
		},
	})
}

// runAPIOpaque: exported functions and methods (incl. interface methods
// implemented by unexported types) must not return slices, pointers to
// arrays, arrays or maps whose storage could alias a persistent value,
// unless the returned value is fresh.
func runAPIOpaque(p *core.Program, r *core.Report, pkg string) {
	e := newFreshEngine(p, pkg)
	for _, fn := range e.fns {
		if fn.Parent() != nil || fn.Synthetic != "" {
			continue
		}
		obj := fn.Object()
		if obj == nil || !obj.Exported() {
			continue
		}
		sig := fn.Signature
		for i := 0; i < sig.Results().Len(); i++ {
			t := sig.Results().At(i).Type()
			aliasing := false
			switch u := t.Underlying().(type) {
			case *types.Slice, *types.Array, *types.Map:
				aliasing = true
			case *types.Pointer:
				if _, ok := u.Elem().Underlying().(*types.Array); ok {
					aliasing = true
				}
			}
			construct := core.FnKey(fn) + " result#" + itoa(i) + " " + shortType(t)
			if !aliasing {
				r.OK("API-OPAQUE", construct, p.Pos(fn.Pos()), "trivial")
				continue
			}
			ok := true
			for _, b := range fn.Blocks {
				for _, ins := range b.Instrs {
					if ret, isRet := ins.(*ssa.Return); isRet {
						v := ret.Results[i]
						if !e.fresh(v, map[ssa.Value]bool{}) && !isLibraryBuffer(v) {
							ok = false
						}
					}
				}
			}
			if ok {
				r.OK("API-OPAQUE", construct, p.Pos(fn.Pos()), "returned storage is freshly allocated or produced by a library buffer")
			} else {
				r.Bad("API-OPAQUE", construct, p.Pos(fn.Pos()), "exported API returns storage that may alias internal persistent memory; a caller could mutate an existing value through it")
			}
		}
	}
}

// isLibraryBuffer accepts results of calls into other packages (e.g.
// bytes.Buffer.Bytes, json.Marshal) and extracts thereof: such storage is
// not part of a persistent value.
func isLibraryBuffer(v ssa.Value) bool {
	switch x := v.(type) {
	case *ssa.Extract:
		return isLibraryBuffer(x.Tuple)
	case *ssa.Call:
		if c := x.Call.StaticCallee(); c != nil {
			pp := core.PkgPathOf(c)
			return pp != pkgVector && pp != pkgHashmap || c.Name() == "marshalJSON"
		}
		return false
	case *ssa.Const:
		return true
	case *ssa.Phi:
		for _, e := range x.Edges {
			if !isLibraryBuffer(e) {
				return false
			}
		}
		return true
	}
	return false
}

func itoa(i int) string {
	return string(rune('0' + i%10))
}

// runAssocTree applies FRESH to vals.Assoc, vals.Dissoc and every function of
// package vals they reach through static calls, and to the element functions
// of package vars.
func runAssocTree(p *core.Program, r *core.Report) {
	roots := []*ssa.Function{p.Func(pkgVals, "Assoc"), p.Func(pkgVals, "Dissoc")}
	if !r.Anchor("FRESH", "vals.Assoc", roots[0] != nil) || !r.Anchor("FRESH", "vals.Dissoc", roots[1] != nil) {
		return
	}
	seen := map[*ssa.Function]bool{}
	var visit func(f *ssa.Function)
	visit = func(f *ssa.Function) {
		if f == nil || seen[f] || f.Blocks == nil || core.PkgPathOf(f) != pkgVals {
			return
		}
		seen[f] = true
		for _, b := range f.Blocks {
			for _, ins := range b.Instrs {
				if c, ok := ins.(ssa.CallInstruction); ok {
					visit(c.Common().StaticCallee())
				}
				if mc, ok := ins.(*ssa.MakeClosure); ok {
					visit(mc.Fn.(*ssa.Function))
				}
			}
		}
	}
	for _, f := range roots {
		visit(f)
	}
	elemFns := []*ssa.Function{p.Func(pkgVars, "MakeElement"), p.Func(pkgVars, "DelElement"), p.Method(pkgVars, "elem", "Set")}
	for i, f := range elemFns {
		if r.Anchor("FRESH", []string{"vars.MakeElement", "vars.DelElement", "(*vars.elem).Set"}[i], f != nil) {
			seen[f] = true
		}
	}
	e := &freshEngine{p: p, freshFn: map[*ssa.Function]bool{}}
	for _, fn := range p.RepoFns {
		if !seen[fn] {
			continue
		}
		r.Count("FRESH functions in the Assoc/Dissoc/element tree", 1)
		for _, b := range fn.Blocks {
			for _, ins := range b.Instrs {
				var dst ssa.Value
				kind := ""
				switch v := ins.(type) {
				case *ssa.Store:
					dst, kind = v.Addr, "store"
				case *ssa.MapUpdate:
					dst, kind = v.Map, "mapupdate"
				case *ssa.Call:
					if bi, ok := v.Call.Value.(*ssa.Builtin); ok {
						switch bi.Name() {
						case "copy", "append", "clear", "delete":
							dst, kind = v.Call.Args[0], bi.Name()
						}
					}
				}
				if dst == nil {
					continue
				}
				construct := core.FnKey(fn) + " " + kind + " " + addrDesc(dst)
				pos := p.InsPos(ins)
				if _, isAlloc := dst.(*ssa.Alloc); isAlloc && kind == "store" {
					r.OK("FRESH", construct, pos, "trivial")
					continue
				}
				if e.fresh(dst, map[ssa.Value]bool{}) {
					r.OK("FRESH", construct, pos, "destination allocated in this activation")
					continue
				}
				// the element variable's own fields (bookkeeping of the
				// temporary lvalue object, not an Elvish value)
				if fa, ok := dst.(*ssa.FieldAddr); ok {
					if n := namedOfPtr(fa.X.Type()); n != nil && n.Obj().Name() == "elem" && n.Obj().Pkg().Path() == pkgVars {
						r.OK("FRESH", construct, pos, "field of the temporary element-variable object itself")
						continue
					}
				}
				r.Bad("FRESH", construct, pos, "vals.Assoc/Dissoc or element assignment writes into memory it did not allocate: a value visible elsewhere may change ("+kind+" to "+addrDesc(dst)+")")
			}
		}
	}
}

func namedOfPtr(t types.Type) *types.Named {
	if p, ok := t.Underlying().(*types.Pointer); ok {
		t = p.Elem()
	}
	n, _ := t.(*types.Named)
	return n
}

// runAssocChain: in (*elem).Set and DelElement, the argument of the head
// variable's Set must come from the Assoc/Dissoc chain, and values obtained
// from Var.Get / vals.Index may only be passed to vals.Index/Assoc/Dissoc,
// stored into the local assocers slice, or kept in the elem object.
func runAssocChain(p *core.Program, r *core.Report) {
	assoc, dissoc, index := p.Func(pkgVals, "Assoc"), p.Func(pkgVals, "Dissoc"), p.Func(pkgVals, "Index")
	if !r.Anchor("ASSOC-CHAIN", "vals.Assoc/Dissoc/Index", assoc != nil && dissoc != nil && index != nil) {
		return
	}
	fns := map[string]*ssa.Function{"(*elem).Set": p.Method(pkgVars, "elem", "Set"), "DelElement": p.Func(pkgVars, "DelElement"), "MakeElement": p.Func(pkgVars, "MakeElement")}
	for name, fn := range fns {
		if !r.Anchor("ASSOC-CHAIN", "vars."+name, fn != nil) {
			continue
		}
		for _, b := range fn.Blocks {
			for _, ins := range b.Instrs {
				call, ok := ins.(*ssa.Call)
				if !ok {
					continue
				}
				// Var.Set(x) through the interface
				if call.Call.IsInvoke() && call.Call.Method.Name() == "Set" && isVarIface(call.Call.Value.Type()) {
					arg := call.Call.Args[0]
					construct := "vars." + name + " Var.Set argument"
					if dependsOnCall(arg, map[ssa.Value]bool{}, assoc, dissoc) {
						r.OK("ASSOC-CHAIN", construct, p.InsPos(ins), "argument is (a phi of) the result of vals.Assoc/vals.Dissoc")
					} else {
						r.Bad("ASSOC-CHAIN", construct, p.InsPos(ins), "the head variable is set to a value that does not come from the vals.Assoc/vals.Dissoc chain")
					}
				}
			}
		}
		// containers read from the variable may only flow into vals.Index/Assoc/Dissoc
		for _, b := range fn.Blocks {
			for _, ins := range b.Instrs {
				call, ok := ins.(*ssa.Call)
				if !ok {
					continue
				}
				isGet := call.Call.IsInvoke() && call.Call.Method.Name() == "Get" && isVarIface(call.Call.Value.Type())
				isIdx := call.Call.StaticCallee() == index
				if !isGet && !isIdx {
					continue
				}
				var src ssa.Value = call
				what := "Var.Get result"
				if isIdx {
					what = "vals.Index result"
				}
				bad := containerMisuse(src, map[ssa.Value]bool{}, assoc, dissoc, index)
				construct := "vars." + name + " " + what
				if bad == "" {
					r.OK("ASSOC-CHAIN", construct, p.InsPos(ins), "container flows only into vals.Index/Assoc/Dissoc, local bookkeeping and returns")
				} else {
					r.Bad("ASSOC-CHAIN", construct, p.InsPos(ins), "container obtained from the variable is used by "+bad+" (only vals.Index/Assoc/Dissoc may touch it)")
				}
			}
		}
	}
}

func isVarIface(t types.Type) bool {
	n, ok := t.(*types.Named)
	return ok && n.Obj().Name() == "Var" && n.Obj().Pkg() != nil && n.Obj().Pkg().Path() == pkgVars
}

func dependsOnCall(v ssa.Value, seen map[ssa.Value]bool, fns ...*ssa.Function) bool {
	if seen[v] {
		return false
	}
	seen[v] = true
	switch x := v.(type) {
	case *ssa.Call:
		for _, f := range fns {
			if x.Call.StaticCallee() == f {
				return true
			}
		}
		// a helper of pkg/eval/vars that runs the chain (assocInsideOut): one
		// of its value returns comes from the chain
		if callee := x.Call.StaticCallee(); callee != nil && callee.Blocks != nil && core.PkgPathOf(callee) == pkgVars && len(seen) < 60 {
			found := false
			core.Instrs(callee, func(ins ssa.Instruction) {
				if ret, ok := ins.(*ssa.Return); ok && len(ret.Results) > 0 && !isNilConst(ret.Results[0]) && dependsOnCall(ret.Results[0], seen, fns...) {
					found = true
				}
			})
			return found
		}
	case *ssa.Extract:
		return dependsOnCall(x.Tuple, seen, fns...)
	case *ssa.Phi:
		for _, e := range x.Edges {
			if dependsOnCall(e, seen, fns...) {
				return true
			}
		}
	case *ssa.ChangeInterface:
		return dependsOnCall(x.X, seen, fns...)
	case *ssa.MakeInterface:
		return dependsOnCall(x.X, seen, fns...)
	}
	return false
}

// containerMisuse follows a container value and returns a description of the
// first use that is not one of the accepted ones.
func containerMisuse(v ssa.Value, seen map[ssa.Value]bool, ok ...*ssa.Function) string {
	if seen[v] {
		return ""
	}
	seen[v] = true
	refs := v.Referrers()
	if refs == nil {
		return ""
	}
	for _, ref := range *refs {
		switch u := ref.(type) {
		case *ssa.Extract:
			if u.Index == 0 {
				if s := containerMisuse(u, seen, ok...); s != "" {
					return s
				}
			}
		case *ssa.Phi:
			if s := containerMisuse(u, seen, ok...); s != "" {
				return s
			}
		case *ssa.Store:
			if u.Val != v {
				return "a store through it"
			}
			// storing the container into a local slot (assocers[i]) or an elem field is bookkeeping
		case *ssa.Call:
			callee := u.Call.StaticCallee()
			accepted := false
			for _, f := range ok {
				if callee == f {
					accepted = true
				}
			}
			if u.Call.IsInvoke() && u.Call.Method.Name() == "Set" && isVarIface(u.Call.Value.Type()) {
				accepted = true
			}
			if !accepted {
				return "call " + u.Call.Value.Name()
			}
		case *ssa.BinOp:
			if u.Op != token.EQL && u.Op != token.NEQ {
				return "operator " + u.Op.String()
			}
		case *ssa.Return, *ssa.DebugRef, *ssa.MakeInterface, *ssa.ChangeInterface:
		case *ssa.TypeAssert:
			return "a type assertion (direct access to the container's representation)"
		default:
			return "instruction " + ref.String()
		}
	}
	return ""
}
