package rules

import (
	"go/token"
	"go/types"
	"strings"

	"golang.org/x/tools/go/ssa"

	"verif/sa/internal/core"
)

// runSwapOnlyBySort (C10 SWAP-ONLY-BY-SORT): the values order outputs are
// permuted by the stable sort alone. The slice's Swap method exists for
// sort.Interface; nothing in pkg/eval calls it directly, so no pre- or
// post-pass (such as flipping an input that runs against the requested order,
// which reverses the relative order of equal values) rearranges the values
// behind the sort's back.
func runSwapOnlyBySort(p *core.Program, r *core.Report) {
	const rule = "SWAP-ONLY-BY-SORT"
	swap := p.Method(pkgEval, orderSorterName(p, builtinFn(p, "eval:order", pkgEval, "order")), "Swap")
	if !r.Anchor(rule, "(*eval.slice).Swap", swap != nil) {
		return
	}
	var site ssa.Instruction
	for _, fn := range p.FnsInPkg(pkgEval) {
		if fn.Synthetic != "" {
			continue
		}
		core.Instrs(fn, func(ins ssa.Instruction) {
			if c, ok := ins.(ssa.CallInstruction); ok && c.Common().StaticCallee() == swap && site == nil {
				site = ins
			}
		})
	}
	construct := "only the sort package swaps the values of order"
	if site == nil {
		r.OK(rule, construct, p.Pos(swap.Pos()), "(*slice).Swap has no direct caller in pkg/eval")
	} else {
		r.Bad(rule, construct, p.InsPos(site), core.FnKey(site.Parent())+" swaps elements of the value slice itself: a rearrangement outside the stable sort does not keep values that compare equal in their input order")
	}
}

// runRestoreAlways (C21 RESTORE-ALWAYS): when a restore collector is given,
// set() hands it the restore function on every path on which the variable was
// set - the only conditions between a successful Var.Set and the call of the
// collector are "Set succeeded" and "there is a collector". Skipping the
// registration because the new value equals the old one leaves the variable
// unrestored when the body changes it afterwards (`tmp x = $x; set x = ...`).
func runRestoreAlways(p *core.Program, r *core.Report) {
	const rule = "RESTORE-ALWAYS"
	setFn := p.Func(pkgEval, "set")
	if !r.Anchor(rule, "eval.set", setFn != nil && setFn.Blocks != nil) {
		return
	}
	// the collector parameter: a func-typed parameter
	var rc *ssa.Parameter
	for _, prm := range setFn.Params {
		if _, ok := prm.Type().Underlying().(*types.Signature); ok {
			rc = prm
		}
	}
	if !r.Anchor(rule, "the restore-collector parameter of eval.set", rc != nil) {
		return
	}
	var calls []*ssa.Call
	core.Instrs(setFn, func(ins ssa.Instruction) {
		if c, ok := ins.(*ssa.Call); ok && c.Call.Value == ssa.Value(rc) {
			calls = append(calls, c)
		}
	})
	if !r.Anchor(rule, "a call of the collector in eval.set", len(calls) >= 1) {
		return
	}
	for i, c := range calls {
		construct := "eval.set registers the restore whenever the variable was set #" + fmtInt(int64(i+1))
		bad := ""
		for _, cond := range controllingConds(setFn, c.Block()) {
			if !benignRestoreCond(cond, rc, 0) {
				bad = addrDesc(cond)
				if ins, ok := cond.(ssa.Instruction); ok {
					bad += " at " + p.InsPos(ins)
				}
				break
			}
		}
		if bad == "" {
			r.OK(rule, construct, p.InsPos(c), "the call depends only on error tests and on the collector being non-nil")
		} else {
			r.Bad(rule, construct, p.InsPos(c), "whether the restore is registered also depends on "+bad+": on the paths where it is skipped the variable was assigned but will not be restored (`tmp x = $x; set x = other` leaves x changed)")
		}
	}
}

// benignRestoreCond: a comparison of an error (or exception) value with nil,
// or of the collector with nil, possibly negated or combined.
func benignRestoreCond(v ssa.Value, rc *ssa.Parameter, depth int) bool {
	if depth > 3 {
		return false
	}
	switch x := v.(type) {
	case *ssa.UnOp:
		if x.Op == token.NOT {
			return benignRestoreCond(x.X, rc, depth+1)
		}
	case *ssa.Phi:
		for _, e := range x.Edges {
			if _, isC := e.(*ssa.Const); isC {
				continue
			}
			if !benignRestoreCond(e, rc, depth+1) {
				return false
			}
		}
		return true
	case *ssa.BinOp:
		if x.Op != token.EQL && x.Op != token.NEQ {
			return false
		}
		var other ssa.Value
		switch {
		case isNilConst(x.Y):
			other = x.X
		case isNilConst(x.X):
			other = x.Y
		default:
			return false
		}
		if other == ssa.Value(rc) {
			return true
		}
		if _, isIface := other.Type().Underlying().(*types.Interface); !isIface {
			return false
		}
		return other.Type().String() == "error" || core.IsNamed(other.Type(), pkgEval, "Exception")
	}
	return false
}

// runBigFresh (C11 BIG-FRESH): *big.Int and *big.Rat values are shared: the
// same pointer sits in variables, lists and closures. An arithmetic method of
// math/big writes its result into its receiver, so in the number builtins the
// receiver of every such call is a number allocated in that call (new(big.Int),
// &big.Rat{}, big.NewInt, or the result of another call on such a receiver) -
// never an argument or an element of the unified argument slice.
// (`acc := nums[0]; acc.Sub(acc, num)` overwrites the caller's first argument.)
func runBigFresh(p *core.Program, r *core.Report) {
	const rule = "BIG-FRESH"
	mutators := map[string]bool{"Add": true, "Sub": true, "Mul": true, "Quo": true, "Div": true, "Mod": true, "Rem": true, "Neg": true, "Abs": true, "Set": true, "SetInt": true, "SetInt64": true, "SetFrac": true, "SetString": true, "SetUint64": true, "Exp": true, "Inv": true, "Lsh": true, "Rsh": true, "And": true, "Or": true, "Xor": true, "Not": true, "Sqrt": true, "QuoRem": true, "DivMod": true, "SetFloat64": true, "SetBit": true, "Rand": true, "GCD": true, "ModInverse": true}
	n := 0
	seenC := map[string]bool{}
	// helperFresh: result idx of a call of a helper of the repository is
	// fresh at every return of the helper.
	var helperFresh func(x *ssa.Call, idx int, seen map[ssa.Value]bool) bool
	var fresh func(v ssa.Value, seen map[ssa.Value]bool) bool
	fresh = func(v ssa.Value, seen map[ssa.Value]bool) bool {
		if seen[v] {
			return true
		}
		seen[v] = true
		switch x := v.(type) {
		case *ssa.Alloc:
			return true
		case *ssa.Phi:
			for _, e := range x.Edges {
				if !fresh(e, seen) {
					return false
				}
			}
			return true
		case *ssa.Call:
			callee := x.Call.StaticCallee()
			if callee == nil {
				// a constructor held in a function value (d.newZero()): it is
				// given nothing it could hand back
				if _, isBuiltin := x.Call.Value.(*ssa.Builtin); !isBuiltin && !x.Call.IsInvoke() && len(x.Call.Args) == 0 {
					return true
				}
				return false
			}
			if core.PkgPathOf(callee) == "math/big" {
				if callee.Signature.Recv() == nil {
					return strings.HasPrefix(callee.Name(), "New")
				}
				// z.Op(...) returns z
				if mutators[callee.Name()] && len(x.Call.Args) > 0 {
					return fresh(x.Call.Args[0], seen)
				}
				return false
			}
			// a helper of the repository that returns a fresh number
			if callee.Blocks != nil && strings.HasPrefix(core.PkgPathOf(callee), core.ModPath) {
				return helperFresh(x, 0, seen)
			}
		case *ssa.Extract:
			// q, m := new(big.Int).QuoRem(x, y, new(big.Int)): q is the
			// receiver, m the last argument
			if c, ok := x.Tuple.(*ssa.Call); ok {
				if callee := c.Call.StaticCallee(); callee != nil && core.PkgPathOf(callee) == "math/big" && (callee.Name() == "QuoRem" || callee.Name() == "DivMod") && len(c.Call.Args) >= 4 {
					if x.Index == 0 {
						return fresh(c.Call.Args[0], seen)
					}
					return fresh(c.Call.Args[3], seen)
				}
				if callee := c.Call.StaticCallee(); callee != nil && callee.Blocks != nil && strings.HasPrefix(core.PkgPathOf(callee), core.ModPath) {
					return helperFresh(c, x.Index, seen)
				}
			}
		case *ssa.Parameter:
			// a helper that finishes a number its callers made: every call
			// site hands it a fresh one
			fn := x.Parent()
			if fn.Parent() != nil || fn.Object() == nil || fn.Object().Exported() || fn.Signature.Recv() != nil {
				return false
			}
			idx := -1
			for i, q := range fn.Params {
				if q == x {
					idx = i
				}
			}
			sites, asValue := bigCallSites(p, fn)
			if idx < 0 || asValue || len(sites) == 0 {
				return false
			}
			for _, site := range sites {
				if idx >= len(site.Common().Args) || !fresh(site.Common().Args[idx], seen) {
					return false
				}
			}
			return true
		case *ssa.UnOp:
			if x.Op == token.MUL {
				if a, ok := x.X.(*ssa.Alloc); ok {
					all, any := true, false
					for _, ref := range *a.Referrers() {
						if st, ok := ref.(*ssa.Store); ok && st.Addr == ssa.Value(a) {
							any = true
							if !fresh(st.Val, seen) {
								all = false
							}
						}
					}
					return any && all
				}
			}
		}
		return false
	}
	helperFresh = func(x *ssa.Call, idx int, seen map[ssa.Value]bool) bool {
		callee := x.Call.StaticCallee()
		all, any := true, false
		core.Instrs(callee, func(ins ssa.Instruction) {
			if ret, ok := ins.(*ssa.Return); ok && len(ret.Results) > idx {
				any = true
				res := ret.Results[idx]
				// a function with a defer returns through a result cell
				if ld, ok := res.(*ssa.UnOp); ok && ld.Op == token.MUL {
					if cell, ok := ld.X.(*ssa.Alloc); ok {
						if w := singleStoreOf(cell); w != nil {
							res = w
						}
					}
				}
				// withRand(func(r) *big.Int {...}): the helper returns
				// what the closure it was given returns
				if rc, ok := res.(*ssa.Call); ok {
					for k, prm := range callee.Params {
						if rc.Call.Value == ssa.Value(prm) && k < len(x.Call.Args) {
							if cf, ok := closureOf(x.Call.Args[k]); ok {
								core.Instrs(cf, func(i2 ssa.Instruction) {
									if r2, ok := i2.(*ssa.Return); ok && len(r2.Results) > idx && !fresh(r2.Results[idx], seen) {
										all = false
									}
								})
								return
							}
						}
					}
				}
				if !fresh(res, seen) {
					all = false
				}
			}
		})
		return any && all
	}
	for _, fn := range p.RepoFns {
		pp := core.PkgPathOf(fn)
		if core.IsTestPkgPath(pp) || !(pp == pkgEval || strings.HasPrefix(pp, "src.elv.sh/pkg/mods") || pp == pkgVals) {
			continue
		}
		core.Instrs(fn, func(ins ssa.Instruction) {
			c, ok := ins.(*ssa.Call)
			if !ok {
				return
			}
			callee := c.Call.StaticCallee()
			if callee == nil || core.PkgPathOf(callee) != "math/big" || callee.Signature.Recv() == nil || !mutators[callee.Name()] {
				return
			}
			rn := core.RecvName(callee.Signature.Recv().Type())
			if rn != "Int" && rn != "Rat" {
				return
			}
			n++
			construct := core.FnKey(fn) + " " + rn + "." + callee.Name() + " into " + addrDesc(c.Call.Args[0])
			if seenC[construct] {
				return
			}
			seenC[construct] = true
			if fresh(c.Call.Args[0], map[ssa.Value]bool{}) {
				r.OK(rule, construct, p.InsPos(ins), "the receiver is a number allocated in this call")
			} else if why := bigFreshAudit[construct]; why != "" {
				r.Audit(rule, construct, p.InsPos(ins), why)
			} else {
				r.Bad(rule, construct, p.InsPos(ins), "the result is written into a big number that was not allocated here: numbers are shared by pointer, so a variable or list element that holds the same number changes under the program's feet (`var x = (num 1e20 exact); - $x 1` must leave $x alone)")
			}
		})
	}
	r.Count(rule+" result-writing math/big calls in the number builtins", n)
}

// bigFreshAudit: receivers that are private for a reason the rule cannot see.
var bigFreshAudit = map[string]string{}

// runNoGlobalCapture (C16 NO-GLOBAL-CAPTURE): a compilation starts from state
// of its own. Nothing the compiler reaches stores the address of a
// package-level variable into a data structure: whatever is written through
// such a pointer later (a pragma set by the code being compiled) outlives the
// compilation and changes how the next piece of code is checked and compiled,
// even when this one was only checked or was rejected.
func runNoGlobalCapture(p *core.Program, r *core.Report) {
	const rule = "NO-GLOBAL-CAPTURE"
	var roots []*ssa.Function
	isCompiler := func(t types.Type) bool {
		ptr, ok := t.(*types.Pointer)
		return ok && core.IsNamed(ptr.Elem(), pkgEval, "compiler")
	}
	for _, fn := range p.FnsInPkg(pkgEval) {
		if fn.Parent() != nil {
			continue
		}
		if recv := fn.Signature.Recv(); recv != nil && isCompiler(recv.Type()) {
			roots = append(roots, fn)
		} else if fn.Signature.Params().Len() > 0 && isCompiler(fn.Signature.Params().At(0).Type()) {
			roots = append(roots, fn)
		} else if fn.Name() == "compile" {
			roots = append(roots, fn)
		}
	}
	if !r.Anchor(rule, "functions of the compiler", len(roots) >= 10) {
		return
	}
	scope := reachableInPkg(roots, pkgEval)
	var bad ssa.Instruction
	what := ""
	n := 0
	for fn := range scope {
		core.Instrs(fn, func(ins ssa.Instruction) {
			st, ok := ins.(*ssa.Store)
			if !ok {
				return
			}
			g, ok := st.Val.(*ssa.Global)
			if !ok {
				return
			}
			n++
			// only data: struct, map, slice, pointer variables (not functions)
			if _, isFn := g.Type().(*types.Pointer).Elem().Underlying().(*types.Signature); isFn {
				return
			}
			if bad == nil {
				bad, what = ins, g.Name()
			}
		})
	}
	r.Count(rule+" functions reachable from the compiler", len(scope))
	construct := "the compiler keeps no pointer to a package-level variable"
	if bad == nil {
		r.OK(rule, construct, p.Pos(roots[0].Pos()), "no store of the address of a package-level variable in the functions the compiler reaches")
	} else {
		r.Bad(rule, construct, p.InsPos(bad), "the address of the package-level variable "+what+" is stored into the compiler's state: a write through it (a pragma in the code being compiled) survives the compilation, so checking or rejecting one piece of code changes how later code compiles")
	}
}

// bigCallSites: the static call sites of fn in the repository, and whether fn
// is also used as a value somewhere.
func bigCallSites(p *core.Program, fn *ssa.Function) (sites []ssa.CallInstruction, asValue bool) {
	for _, g := range p.RepoFns {
		if g.Pkg != fn.Pkg {
			continue
		}
		core.Instrs(g, func(ins ssa.Instruction) {
			isCall := false
			if c, ok := ins.(ssa.CallInstruction); ok && c.Common().StaticCallee() == fn {
				isCall = true
				if _, isPlain := ins.(*ssa.Call); isPlain {
					sites = append(sites, c)
				} else {
					asValue = true
				}
			}
			for _, op := range ins.Operands(nil) {
				if *op == nil {
					continue
				}
				if f, ok := (*op).(*ssa.Function); ok && f == fn && !isCall {
					asValue = true
				}
			}
		})
	}
	return sites, asValue
}
