package rules

import (
	"go/token"
	"go/types"
	"sort"

	"golang.org/x/tools/go/ssa"

	"verif/sa/internal/core"
)

const pkgHist = "src.elv.sh/pkg/cli/histutil"

func init() {
	register(&core.Spec{
		ID: "C29",
		Explanation: "Decides the structural part of C29's 'from the session's view' clause - commands stored concurrently by other sessions never enter this session's history walk. (FROZEN-UPPER) the bound of the shared history is read from the database exactly once per store (DB.NextCmdSeq feeds only the store literal), it and every field initialised from it are written nowhere else, and every read of the database by the store or its cursor is bounded by it: CmdsWithSeq gets it as its upper end, PrevCmd starts from the cursor's own position (initialised to the bound), and a command returned by NextCmd becomes the cursor's position only on the edge where its sequence number is below the bound. (SESSION-ADD) the hybrid store records a command added during the session in the session store under the sequence number the shared store returned for it, after adding it to the shared store. Which commands match a prefix, the order of the walk, de-duplication and the hand-off between the two cursors are state-machine behaviour and are not decided.",
		NotCovered:  "matching, newest-first order, de-duplication, the shared/session cursor hand-off, end-of-history reporting",
		Rules:       []string{"FROZEN-UPPER: the shared-history bound is read once, never rewritten, and bounds every database read", "DIRECTION-PURE: a cursor built on other cursors moves them only in its own direction", "ALLCMDS-FRESH: no store hands out the slice that holds its history", "SESSION-ADD: session commands are recorded under the sequence number returned by the shared store"},
		Patterns:    []string{"./pkg/cli/histutil"},
		Run:         func(p *core.Program, r *core.Report) { runC29(p, r); runDirectionPure(p, r); runAllCmdsFresh(p, r) },
		MinCounts:   map[string]int{"FROZEN-UPPER": 6, "SESSION-ADD": 1, "DIRECTION-PURE": 4, "ALLCMDS-FRESH": 2},
		Trusted:     trustedBase,
		Controls: []core.Control{
			{Name: "cursor-refreshes-bound", Rule: "FROZEN-UPPER", File: "pkg/cli/histutil/db_store.go", Old: "func (c *dbStoreCursor) Next() {\n", New: "func (c *dbStoreCursor) Next() {\n\tif n, err := c.db.NextCmdSeq(); err == nil {\n\t\tc.upper = n\n\t}\n", Fire: true, Want: "NextCmdSeq", Quick: true},
			{Name: "allcmds-unbounded", Rule: "FROZEN-UPPER", File: "pkg/cli/histutil/db_store.go", Old: "return s.db.CmdsWithSeq(0, s.upper)", New: "return s.db.CmdsWithSeq(0, -1)", Fire: true, Want: "CmdsWithSeq", Quick: true},
			{Name: "next-accepts-commands-beyond-bound", Rule: "FROZEN-UPPER", File: "pkg/cli/histutil/db_store.go", Old: "\tif cmd.Seq < c.upper {\n\t\tc.set(cmd, err, c.upper)\n\t}", New: "\tc.set(cmd, err, c.upper)", Fire: true, Want: "NextCmd"},
			{Name: "next-bound-off-by-one", Rule: "FROZEN-UPPER", File: "pkg/cli/histutil/db_store.go", Old: "\tif cmd.Seq < c.upper {\n\t\tc.set(cmd, err, c.upper)\n\t}", New: "\tif cmd.Seq <= c.upper {\n\t\tc.set(cmd, err, c.upper)\n\t}", Fire: true, Want: "NextCmd"},
			{Name: "prev-from-fresh-bound", Rule: "FROZEN-UPPER", File: "pkg/cli/histutil/db_store.go", Old: "cmd, err := c.db.PrevCmd(c.cmd.Seq, c.prefix)", New: "cmd, err := c.db.PrevCmd(c.cmd.Seq+1, c.prefix)", Fire: true, Want: "PrevCmd"},
			{Name: "session-add-under-own-number", Rule: "SESSION-ADD", File: "pkg/cli/histutil/hybrid_store.go", Old: "s.session.AddCmd(storedefs.Cmd{Text: cmd.Text, Seq: seq})", New: "s.session.AddCmd(storedefs.Cmd{Text: cmd.Text, Seq: -1})\n\t_ = seq", Fire: true, Want: "AddCmd"},
			{Name: "hybrid-next-steps-shared-back", Rule: "DIRECTION-PURE", File: "pkg/cli/histutil/hybrid_store.go", Old: "\t\tc.useShared = false\n\t\tc.session.Next()", New: "\t\tc.shared.Prev()\n\t\tc.useShared = false\n\t\tc.session.Next()", Fire: true, Want: "Next"},
			{Name: "revert-fix-allcmds-hands-out-own-slice", Rule: "ALLCMDS-FRESH", File: "pkg/cli/histutil/mem_store.go", Old: "return slices.Clone(s.cmds), nil", New: "_ = slices.Clone[[]storedefs.Cmd]\n\treturn s.cmds, nil", Fire: true, Want: "AllCmds", Quick: true},
			{Name: "benign-allcmds-copy-by-append", Rule: "ALLCMDS-FRESH", File: "pkg/cli/histutil/mem_store.go", Old: "return slices.Clone(s.cmds), nil", New: "return append(slices.Clone(s.cmds[:0]), s.cmds...), nil", Fire: false},
			{Name: "benign-bound-check-reversed", Rule: "FROZEN-UPPER", File: "pkg/cli/histutil/db_store.go", Old: "\tif cmd.Seq < c.upper {\n\t\tc.set(cmd, err, c.upper)\n\t}", New: "\tif c.upper > cmd.Seq {\n\t\tc.set(cmd, err, c.upper)\n\t}", Fire: false},
		},
	})
}

type boundField struct {
	typ   *types.Named
	field string
}

func runC29(p *core.Program, r *core.Report) {
	const rule = "FROZEN-UPPER"
	var fns []*ssa.Function
	for _, f := range p.FnsInPkg(pkgHist) {
		if f.Blocks != nil {
			fns = append(fns, f)
		}
	}
	sort.Slice(fns, func(i, j int) bool { return fns[i].String() < fns[j].String() })
	if !r.Anchor(rule, "package "+pkgHist, len(fns) > 0) {
		return
	}
	isDBInvoke := func(ins ssa.Instruction, name string) (*ssa.Call, bool) {
		c, ok := ins.(*ssa.Call)
		if !ok || !c.Call.IsInvoke() || c.Call.Method.Name() != name {
			return nil, false
		}
		return c, core.IsNamed(c.Call.Value.Type(), pkgHist, "DB")
	}
	fieldOfStore := func(st *ssa.Store) (boundField, *ssa.FieldAddr, bool) {
		fa, ok := st.Addr.(*ssa.FieldAddr)
		if !ok {
			return boundField{}, nil, false
		}
		n, f := core.FieldName(fa)
		if n == nil {
			return boundField{}, nil, false
		}
		return boundField{n, f}, fa, true
	}
	// 1. the bound is read once, into a store literal
	bounds := map[boundField]bool{}
	nseq := 0
	for _, fn := range fns {
		core.Instrs(fn, func(ins ssa.Instruction) {
			c, ok := isDBInvoke(ins, "NextCmdSeq")
			if !ok {
				return
			}
			nseq++
			construct := core.FnKey(fn) + " reads the bound with DB.NextCmdSeq"
			okUse := false
			bad := ""
			for _, ref := range *c.Referrers() {
				ex, ok := ref.(*ssa.Extract)
				if !ok || ex.Index != 0 {
					continue
				}
				for _, r2 := range *ex.Referrers() {
					st, ok := r2.(*ssa.Store)
					if !ok || st.Val != ssa.Value(ex) {
						bad = "the value is used for something other than initialising the store"
						continue
					}
					bf, fa, ok := fieldOfStore(st)
					if _, isLit := faBaseLiteral(fa); !ok || !isLit {
						bad = "the bound is written into an existing object (the session's view moves)"
						continue
					}
					bounds[bf] = true
					okUse = true
				}
			}
			switch {
			case bad != "":
				r.Bad(rule, construct, p.InsPos(ins), "DB.NextCmdSeq is read again: "+bad+"; commands added by other sessions since the session started become visible")
			case okUse:
				r.OK(rule, construct, p.InsPos(ins), "the result only initialises the bound field of a new store")
			default:
				r.Bad(rule, construct, p.InsPos(ins), "the result of DB.NextCmdSeq does not initialise a store's bound")
			}
		})
	}
	if !r.Anchor(rule, "a store whose bound comes from DB.NextCmdSeq", len(bounds) > 0 && nseq > 0) {
		return
	}
	isBoundLoad := func(v ssa.Value) bool {
		addr, ok := core.IsLoad(v)
		if !ok {
			return false
		}
		fa, ok := addr.(*ssa.FieldAddr)
		if !ok {
			return false
		}
		n, f := core.FieldName(fa)
		return n != nil && bounds[boundField{n, f}]
	}
	// 2. fields initialised from the bound are bounds too (the cursor's copy)
	for changed := true; changed; {
		changed = false
		for _, fn := range fns {
			core.Instrs(fn, func(ins ssa.Instruction) {
				st, ok := ins.(*ssa.Store)
				if !ok || !isBoundLoad(st.Val) {
					return
				}
				bf, fa, ok := fieldOfStore(st)
				if !ok || bounds[bf] {
					return
				}
				if _, isLit := faBaseLiteral(fa); isLit && isIntType(fa.Type().(*types.Pointer).Elem()) && bf.typ.Obj().Pkg() != nil && bf.typ.Obj().Pkg().Path() == pkgHist {
					bounds[bf] = true
					changed = true
				}
			})
		}
	}
	var bl []string
	for b := range bounds {
		bl = append(bl, b.typ.Obj().Name()+"."+b.field)
	}
	sort.Strings(bl)
	for _, b := range bl {
		r.Note("bound field: " + b)
	}
	// 3. bounds are never rewritten
	for _, fn := range fns {
		core.Instrs(fn, func(ins ssa.Instruction) {
			st, ok := ins.(*ssa.Store)
			if !ok {
				return
			}
			bf, fa, ok := fieldOfStore(st)
			if !ok || !bounds[bf] {
				return
			}
			construct := core.FnKey(fn) + " writes " + bf.typ.Obj().Name() + "." + bf.field
			if _, isLit := faBaseLiteral(fa); isLit {
				r.OK(rule, construct+" in a literal", p.InsPos(ins), "initialisation of a new object")
			} else {
				r.Bad(rule, construct, p.InsPos(ins), "the frozen bound of an existing store or cursor is rewritten: the session's view of the shared history moves while it is being walked")
			}
		})
	}
	// 4. every database read is bounded
	for _, fn := range fns {
		fk := core.FnKey(fn)
		core.Instrs(fn, func(ins ssa.Instruction) {
			if c, ok := isDBInvoke(ins, "CmdsWithSeq"); ok {
				construct := fk + " DB.CmdsWithSeq upper end"
				if len(c.Call.Args) == 2 && isBoundLoad(c.Call.Args[1]) {
					r.OK(rule, construct, p.InsPos(ins), "the frozen bound")
				} else {
					r.Bad(rule, construct, p.InsPos(ins), "the list of all commands is not cut at the session's frozen bound: commands added by other sessions since the session started are included")
				}
			}
			if c, ok := isDBInvoke(ins, "PrevCmd"); ok {
				construct := fk + " DB.PrevCmd starts from the cursor's position"
				okArg := false
				if addr, isLd := core.IsLoad(c.Call.Args[0]); isLd {
					if fa, isFA := addr.(*ssa.FieldAddr); isFA {
						if _, f := core.FieldName(fa); f == "Seq" {
							if inner, ok := fa.X.(*ssa.FieldAddr); ok && len(fn.Params) > 0 && inner.X == ssa.Value(fn.Params[0]) {
								okArg = true
							}
						}
					}
				}
				if okArg {
					r.OK(rule, construct, p.InsPos(ins), "searches strictly below the cursor's own sequence number, which starts at the bound and only moves to bounded results")
				} else {
					r.Bad(rule, construct, p.InsPos(ins), "the backward search does not start from the cursor's own sequence number: it can return a command at or above the session's bound")
				}
			}
			if c, ok := isDBInvoke(ins, "NextCmd"); ok {
				// uses of the returned command that make it the cursor's position
				var cell *ssa.Alloc
				var cmdVal ssa.Value
				for _, ref := range *c.Referrers() {
					if ex, ok := ref.(*ssa.Extract); ok && ex.Index == 0 {
						cmdVal = ex
						for _, r2 := range *ex.Referrers() {
							if st, ok := r2.(*ssa.Store); ok && st.Val == ssa.Value(ex) {
								if a, ok := st.Addr.(*ssa.Alloc); ok {
									cell = a
								}
							}
						}
					}
				}
				var uses []ssa.Instruction
				isCmd := func(v ssa.Value) bool {
					if v == cmdVal {
						return true
					}
					if addr, ok := core.IsLoad(v); ok && cell != nil && addr == ssa.Value(cell) {
						return true
					}
					return false
				}
				core.Instrs(fn, func(u ssa.Instruction) {
					switch x := u.(type) {
					case *ssa.Store:
						if isCmd(x.Val) && x.Addr != ssa.Value(cell) {
							uses = append(uses, u)
						}
					case *ssa.Call:
						for _, a := range x.Call.Args {
							if isCmd(a) {
								uses = append(uses, u)
							}
						}
					}
				})
				construct := fk + " DB.NextCmd result becomes the position only below the bound"
				if len(uses) == 0 {
					r.Bad(rule, construct, p.InsPos(ins), "cannot see what happens to the command returned by DB.NextCmd")
					return
				}
				allOK := true
				var offending ssa.Instruction
				for _, u := range uses {
					if !belowBound(fn, cell, cmdVal, isBoundLoad, u.Block()) {
						allOK = false
						offending = u
					}
				}
				if allOK {
					r.OK(rule, construct, p.InsPos(ins), "every use that installs the command is on the edge where its Seq is below the frozen bound")
				} else {
					r.Bad(rule, construct, p.InsPos(offending), "a command returned by the forward search becomes the cursor's position without the test Seq < bound (or with a weaker one): the walk enters commands that other sessions added after this session started")
				}
			}
		})
	}
	runSessionAdd(p, r, fns)
}

// faBaseLiteral: the field address is a field of a composite literal being
// built (a fresh Alloc that is not a parameter spill).
func faBaseLiteral(fa *ssa.FieldAddr) (*ssa.Alloc, bool) {
	if fa == nil {
		return nil, false
	}
	a, ok := fa.X.(*ssa.Alloc)
	if !ok {
		return nil, false
	}
	for _, ref := range *a.Referrers() {
		if st, ok := ref.(*ssa.Store); ok && st.Addr == ssa.Value(a) {
			return nil, false // a variable that receives a whole value, not a literal
		}
	}
	return a, true
}

// belowBound: blk is dominated by the edge on which (result).Seq < bound.
func belowBound(fn *ssa.Function, cell *ssa.Alloc, cmdVal ssa.Value, isBound func(ssa.Value) bool, blk *ssa.BasicBlock) bool {
	isSeq := func(v ssa.Value) bool {
		switch x := v.(type) {
		case *ssa.Field:
			_, f := core.FieldOfValue(x)
			return f == "Seq" && x.X == cmdVal
		case *ssa.UnOp:
			if x.Op != token.MUL {
				return false
			}
			fa, ok := x.X.(*ssa.FieldAddr)
			if !ok {
				return false
			}
			_, f := core.FieldName(fa)
			return f == "Seq" && cell != nil && fa.X == ssa.Value(cell)
		}
		return false
	}
	for _, b := range fn.Blocks {
		if len(b.Instrs) == 0 {
			continue
		}
		iff, ok := b.Instrs[len(b.Instrs)-1].(*ssa.If)
		if !ok {
			continue
		}
		cmp, ok := iff.Cond.(*ssa.BinOp)
		if !ok {
			continue
		}
		e := core.EdgeTo(b, blk)
		if e < 0 {
			continue
		}
		truth := e == 0
		switch {
		case isSeq(cmp.X) && isBound(cmp.Y):
			if (cmp.Op == token.LSS && truth) || (cmp.Op == token.GEQ && !truth) {
				return true
			}
		case isBound(cmp.X) && isSeq(cmp.Y):
			if (cmp.Op == token.GTR && truth) || (cmp.Op == token.LEQ && !truth) {
				return true
			}
		}
	}
	return false
}

func runSessionAdd(p *core.Program, r *core.Report, fns []*ssa.Function) {
	const rule = "SESSION-ADD"
	n := 0
	for _, fn := range fns {
		var adds []*ssa.Call
		core.Instrs(fn, func(ins ssa.Instruction) {
			if c, ok := ins.(*ssa.Call); ok && c.Call.IsInvoke() && c.Call.Method.Name() == "AddCmd" && core.IsNamed(c.Call.Value.Type(), pkgHist, "Store") {
				adds = append(adds, c)
			}
		})
		if len(adds) < 2 {
			continue
		}
		n++
		construct := core.FnKey(fn) + " records the command in the session store under the shared sequence number"
		first, second := adds[0], adds[1]
		if !core.Precedes(first, second) {
			first, second = second, first
		}
		var seq ssa.Value
		for _, ref := range *first.Referrers() {
			if ex, ok := ref.(*ssa.Extract); ok && ex.Index == 0 {
				seq = ex
			}
		}
		okSeq := false
		if addr, ok := core.IsLoad(second.Call.Args[0]); ok {
			if a, ok := addr.(*ssa.Alloc); ok {
				if v := fieldStores(a)["Seq"]; v != nil && seq != nil && resolveVal(v) == seq {
					okSeq = true
				}
			}
		}
		if okSeq {
			r.OK(rule, construct, p.InsPos(second), "Seq of the session entry is the number returned by the first AddCmd")
		} else {
			r.Bad(rule, construct, p.InsPos(second), "the session store does not record the command under the sequence number the shared store assigned: the session's own commands are ordered or de-duplicated against the wrong numbers")
		}
	}
	r.Anchor(rule, "a store that adds to two underlying stores", n > 0)
}
