package rules

import (
	"strings"

	"golang.org/x/tools/go/ssa"

	"verif/sa/internal/core"
)

// Helpers that let the C20 rules follow the code through ordinary
// refactorings: the worker may be a closure or a named method started with
// `go x.m(...)`, the shared state may be captured variables or fields of a
// struct, and the atomic flag may be wrapped in one-line accessors.

// workerOf resolves the function a go statement starts.
func workerOf(g *ssa.Go) *ssa.Function {
	if cf, ok := closureOf(g.Call.Value); ok {
		return cf
	}
	if callee := g.Call.StaticCallee(); callee != nil && callee.Blocks != nil && strings.HasPrefix(core.PkgPathOf(callee), core.ModPath) {
		return callee
	}
	return nil
}

// builtinFuncs: the function, its closures, the workers it starts and their
// closures.
func builtinFuncs(top *ssa.Function) []*ssa.Function {
	seen := map[*ssa.Function]bool{}
	var out []*ssa.Function
	var add func(f *ssa.Function)
	add = func(f *ssa.Function) {
		if f == nil || seen[f] {
			return
		}
		seen[f] = true
		out = append(out, f)
		for _, a := range f.AnonFuncs {
			add(a)
		}
		core.Instrs(f, func(ins ssa.Instruction) {
			if g, ok := ins.(*ssa.Go); ok {
				add(workerOf(g))
			}
		})
	}
	add(top)
	return out
}

func directAtomic(x ssa.Instruction, names ...string) bool {
	c, ok := x.(ssa.CallInstruction)
	if !ok {
		return false
	}
	callee := c.Common().StaticCallee()
	if callee == nil || core.PkgPathOf(callee) != "sync/atomic" {
		return false
	}
	n := core.Origin(callee).Name()
	for _, want := range names {
		if n == want || strings.HasPrefix(n, want) {
			return true
		}
	}
	return false
}

// viaAccessor: x calls a small function of the repository whose body does
// what pred says (a one-line accessor such as isBroken / setBroken).
func viaAccessor(x ssa.Instruction, pred func(ssa.Instruction) bool) bool {
	c, ok := x.(ssa.CallInstruction)
	if !ok {
		return false
	}
	callee := c.Common().StaticCallee()
	if callee == nil || callee.Blocks == nil || !strings.HasPrefix(core.PkgPathOf(callee), core.ModPath) {
		return false
	}
	n := 0
	hit := false
	core.Instrs(callee, func(i2 ssa.Instruction) {
		n++
		if pred(i2) {
			hit = true
		}
	})
	return hit && n <= 16
}

// isFlagLoad / isFlagStore: an atomic read / write of a flag, directly or
// through an accessor.
func isFlagLoad(x ssa.Instruction) bool {
	d := func(i ssa.Instruction) bool { return directAtomic(i, "Load") }
	return d(x) || viaAccessor(x, d)
}

func isFlagStore(x ssa.Instruction) bool {
	d := func(i ssa.Instruction) bool { return directAtomic(i, "Store", "CompareAndSwap", "Swap", "Add") }
	return d(x) || viaAccessor(x, d)
}

func isSemaCall(x ssa.Instruction, name string) bool {
	d := func(i ssa.Instruction) bool {
		return isCallTo(i, "(*golang.org/x/sync/semaphore.Weighted)."+name)
	}
	return d(x) || viaAccessor(x, d)
}

// redirFamily: the functions that together implement a redirection -
// redirOp.exec, its closures, and the helpers in pkg/eval it calls (two
// levels) that work on the destination slot or the ownership record (they
// take a **Port, *formOwnedPort or *[]formOwnedPort, or are methods of the
// same receiver), with their closures.
func redirFamily(p *core.Program) []*ssa.Function {
	exec := p.Method(pkgEval, "redirOp", "exec")
	if exec == nil {
		return nil
	}
	relevantParam := func(f *ssa.Function) bool {
		for _, prm := range f.Params {
			t := prm.Type().String()
			switch t {
			case "**src.elv.sh/pkg/eval.Port", "*src.elv.sh/pkg/eval.formOwnedPort", "*[]src.elv.sh/pkg/eval.formOwnedPort", "*src.elv.sh/pkg/eval.redirOp":
				return true
			}
		}
		return false
	}
	seen := map[*ssa.Function]bool{}
	var out []*ssa.Function
	var add func(f *ssa.Function, depth int)
	add = func(f *ssa.Function, depth int) {
		if f == nil || seen[f] || f.Blocks == nil {
			return
		}
		seen[f] = true
		out = append(out, f)
		for _, a := range f.AnonFuncs {
			add(a, depth)
		}
		if depth >= 2 {
			return
		}
		core.Instrs(f, func(ins ssa.Instruction) {
			c, ok := ins.(ssa.CallInstruction)
			if !ok {
				return
			}
			callee := c.Common().StaticCallee()
			if callee == nil || core.PkgPathOf(callee) != pkgEval || callee.Signature.TypeParams() != nil || len(callee.TypeArgs()) > 0 {
				return
			}
			if relevantParam(callee) {
				add(callee, depth+1)
			}
		})
	}
	add(exec, 0)
	return out
}

// closesOwnedPort: f calls formOwnedPort.close itself.
func closesOwnedPort(f *ssa.Function) bool {
	found := false
	if f == nil || f.Blocks == nil {
		return false
	}
	core.Instrs(f, func(x ssa.Instruction) {
		if c, ok := x.(ssa.CallInstruction); ok {
			if callee := c.Common().StaticCallee(); callee != nil && core.IsFunc(callee, pkgEval, "formOwnedPort", "close") {
				found = true
			}
		}
	})
	return found
}

// runLenKey: an entry is added to a map under a key computed from the map's
// own length (m[len(m)+1] = v) although entries are also deleted from maps of
// that type in the package. After a deletion the "next number" repeats: the
// insertion overwrites a live entry, and a later deletion of that number
// removes the wrong one. For a table of live connections this means the
// daemon believes all clients are gone while one is still connected.
func runLenKey(p *core.Program, r *core.Report, rule, pkg string) {
	fns := p.FnsInPkg(pkg)
	deleted := map[string]bool{}
	for _, fn := range fns {
		core.Instrs(fn, func(ins ssa.Instruction) {
			if c, ok := ins.(*ssa.Call); ok {
				if b, ok := c.Call.Value.(*ssa.Builtin); ok && b.Name() == "delete" {
					deleted[c.Call.Args[0].Type().String()] = true
				}
			}
		})
	}
	n := 0
	for _, fn := range fns {
		core.Instrs(fn, func(ins ssa.Instruction) {
			mu, ok := ins.(*ssa.MapUpdate)
			if !ok {
				return
			}
			n++
			construct := core.FnKey(fn) + " key of " + addrDesc(mu.Map) + " identifies the entry"
			fromLen := false
			var dep func(v ssa.Value, depth int)
			dep = func(v ssa.Value, depth int) {
				if v == nil || depth > 4 || fromLen {
					return
				}
				v = resolveVal(v) // through single-assignment (possibly captured) variables
				if la := lenArg(v); la != nil && (la == mu.Map || exprKey(la) == exprKey(mu.Map)) {
					fromLen = true
					return
				}
				switch x := v.(type) {
				case *ssa.BinOp:
					dep(x.X, depth+1)
					dep(x.Y, depth+1)
				case *ssa.Convert:
					dep(x.X, depth+1)
				case *ssa.ChangeType:
					dep(x.X, depth+1)
				case *ssa.UnOp:
					dep(x.X, depth+1)
				case *ssa.MakeInterface:
					dep(x.X, depth+1)
				}
			}
			dep(mu.Key, 0)
			if fromLen && deleted[mu.Map.Type().String()] {
				r.Bad(rule, construct, p.InsPos(ins), "the key is computed from the current size of the table, and entries are also deleted from it: after a deletion the same key is handed out again, so the new entry overwrites a live one and a later deletion removes the wrong entry - the table can become empty while a client is still connected")
			} else {
				r.OK(rule, construct, p.InsPos(ins), "the key does not depend on the size of the table")
			}
		})
	}
	r.Count(rule+" map insertions in "+pkg, n)
}
