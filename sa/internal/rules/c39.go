package rules

import (
	"go/constant"
	"go/token"
	"go/types"

	"golang.org/x/tools/go/ssa"

	"verif/sa/internal/core"
)

var evalerSpec = guardSpec{pkg: pkgEval, structName: "Evaler", mutex: "mu",
	fields: map[string]bool{"global": true, "builtin": true, "deprecations": true, "modules": true, "valuePrefix": true, "notifyBgJobSuccess": true, "numBgJobs": true}}

var ptrVarSpec = guardSpec{pkg: pkgVars, structName: "PtrVar", mutex: "mutex", fields: map[string]bool{"ptr": true},
	derefUses: func(c ssa.CallInstruction) int {
		if callee := c.Common().StaticCallee(); callee != nil && core.PkgPathOf(callee) == pkgVals && (callee.Name() == "ScanToGo" || callee.Name() == "ScanToGoOpts") {
			return 2 // writes through the pointer
		}
		return 1
	}}

func init() {
	register(&core.Spec{
		ID: "C39",
		Explanation: "Decides a necessary condition of C39's 'no data races or fatal errors' clause for the interpreter's own shared state: (EVALER-LOCK) every field of Evaler declared under its mutex (global, builtin, deprecations, modules, valuePrefix, notifyBgJobSuccess, numBgJobs) is read only with mu held (read or write) and written only with the write lock held, on every path of every function in the program, a map loaded from such a field is not used after the lock is released, the lock is never re-acquired while held, released while not held, or still held at a return without a deferred unlock; (PTRVAR-LOCK) the pointer inside vars.PtrVar is dereferenced only under the PtrVar's mutex (write lock for ScanToGo). The field list is derived from the struct declaration (fields after mu), not hard-coded. (FORK-SHARED) memory reached through a pointer field of Frame that Fork copies unchanged (today: defers) is written only with a mutex held on every path - the forms of a pipeline run on forks of one frame. It does not decide races on other shared state nor serialisability of results.",
		NotCovered:  "races on state outside Evaler/PtrVar (e.g. Ns slots written by closures running in parallel, which Elvish leaves to the script), serialisability of evaluation results",
		Rules:       []string{"EVALER-LOCK: lockset with boolean-correlated path sensitivity over all accesses to Evaler's guarded fields", "PTRVAR-LOCK: lockset for PtrVar.ptr under PtrVar.mutex", "GUARDED-SET: the guarded field set equals the fields declared after the mutex in the struct", "RMW-ATOMIC: a guarded field is not written with a value computed from a read of it made in an earlier critical section", "RLOCK-WRITE: contradiction rule over every struct with an RWMutex: no field of the struct is written while only its read lock is held", "FORK-SHARED: memory reached through a pointer field of Frame that Fork shares (defers) is written only with a mutex held on every path"},
		Run:         runC39,
		MinCounts:   map[string]int{"EVALER-LOCK": 25, "PTRVAR-LOCK": 3, "RLOCK-WRITE": 5, "RMW-ATOMIC": 3, "FORK-SHARED": 1},
		Trusted:     trustedBase,
		Controls: []core.Control{
			{Name: "eval-releases-lock-between-read-and-install", Rule: "RMW-ATOMIC", File: "pkg/eval/eval.go", Old: "\tif defaultGlobal {\n\t\tev.global = newLocal\n\t\tev.mu.Unlock()\n\t}", New: "\tif defaultGlobal {\n\t\tev.mu.Unlock()\n\t\tev.mu.Lock()\n\t\tev.global = newLocal\n\t\tev.mu.Unlock()\n\t}", Fire: true, Want: "Evaler.global", Quick: true, Patterns: []string{"./pkg/eval"}},
			{Name: "extendglobal-two-critical-sections", Rule: "RMW-ATOMIC", File: "pkg/eval/eval.go", Old: "func (ev *Evaler) ExtendGlobal(ns Nser) {\n\tev.mu.Lock()\n\tdefer ev.mu.Unlock()\n\tev.global = CombineNs(ev.global, ns.Ns())", New: "func (ev *Evaler) ExtendGlobal(ns Nser) {\n\tev.mu.RLock()\n\told := ev.global\n\tev.mu.RUnlock()\n\tcombined := CombineNs(old, ns.Ns())\n\tev.mu.Lock()\n\tdefer ev.mu.Unlock()\n\tev.global = combined", Fire: true, Want: "ExtendGlobal", Patterns: []string{"./pkg/eval"}},
			{Name: "revert-fix-use-reads-modules-unlocked", Rule: "EVALER-LOCK", File: "pkg/eval/builtin_special.go", Old: "if ns, ok := fm.Evaler.getModule(spec); ok {", New: "if ns, ok := fm.Evaler.modules[spec]; ok {", Fire: true, Want: "use", Quick: true, Patterns: []string{"./pkg/eval"}},
			{Name: "revert-fix-checktree-map-after-unlock", Rule: "EVALER-LOCK", File: "pkg/eval/eval.go", Old: "b, g, modules := ev.builtin, ev.global, mapKeys(ev.modules)\n\tev.mu.RUnlock()", New: "b, g, m := ev.builtin, ev.global, ev.modules\n\tev.mu.RUnlock()\n\tmodules := mapKeys(m)", Fire: true, Want: "CheckTree", Patterns: []string{"./pkg/eval"}},
			{Name: "extendglobal-without-lock", Rule: "EVALER-LOCK", File: "pkg/eval/eval.go", Old: "func (ev *Evaler) ExtendGlobal(ns Nser) {\n\tev.mu.Lock()\n\tdefer ev.mu.Unlock()\n", New: "func (ev *Evaler) ExtendGlobal(ns Nser) {\n", Fire: true, Want: "ExtendGlobal", Patterns: []string{"./pkg/eval"}},
			{Name: "eval-reads-global-after-unlock", Rule: "EVALER-LOCK", File: "pkg/eval/eval.go", Old: "\t} else {\n\t\tev.mu.Unlock()\n\t}\n\n\top, _, err := compile(b.static(), cfg.Global.static(), nil, tree, errFile)", New: "\t} else {\n\t\tev.mu.Unlock()\n\t}\n\t_ = ev.global\n\n\top, _, err := compile(b.static(), cfg.Global.static(), nil, tree, errFile)", Fire: true, Want: "Eval", Patterns: []string{"./pkg/eval"}},
			{Name: "eval-error-path-keeps-lock", Rule: "EVALER-LOCK", File: "pkg/eval/eval.go", Old: "\tif err != nil {\n\t\tif defaultGlobal {\n\t\t\tev.mu.Unlock()\n\t\t}\n\t\treturn err\n\t}", New: "\tif err != nil {\n\t\treturn err\n\t}", Fire: true, Want: "returns holding", Patterns: []string{"./pkg/eval"}},
			{Name: "write-under-read-lock", Rule: "EVALER-LOCK", File: "pkg/eval/eval.go", Old: "func (ev *Evaler) addNumBgJobs(delta int) {\n\tev.mu.Lock()\n\tdefer ev.mu.Unlock()", New: "func (ev *Evaler) addNumBgJobs(delta int) {\n\tev.mu.RLock()\n\tdefer ev.mu.RUnlock()", Fire: true, Want: "addNumBgJobs", Patterns: []string{"./pkg/eval"}},
			{Name: "revert-fix-defers-unlocked", Rule: "FORK-SHARED", File: "pkg/eval/frame.go", Old: "\tfm.defers.mu.Lock()\n\tdefer fm.defers.mu.Unlock()\n\tfm.defers.fns = append(fm.defers.fns, f)", New: "\tfm.defers.fns = append(fm.defers.fns, f)", Fire: true, Want: "addDefer", Patterns: []string{"./pkg/eval"}},
			{Name: "ptrvar-set-under-read-lock", Rule: "PTRVAR-LOCK", File: "pkg/eval/vars/ptr.go", Old: "\tv.mutex.Lock()\n\tdefer v.mutex.Unlock()\n\tif val == nil {", New: "\tv.mutex.RLock()\n\tdefer v.mutex.RUnlock()\n\tif val == nil {", Fire: true, Patterns: []string{"./pkg/eval"}},
			{Name: "envlist-get-writes-cache-under-rlock", Rule: "RLOCK-WRITE", File: "pkg/eval/vars/env_list.go", Old: "\tenvli.Lock()\n\tdefer envli.Unlock()\n\n\tvalue := os.Getenv", New: "\tenvli.RLock()\n\tdefer envli.RUnlock()\n\n\tvalue := os.Getenv", Fire: true, Patterns: []string{"./pkg/eval"}},
			{Name: "benign-rlock-for-pure-read", Rule: "EVALER-LOCK", File: "pkg/eval/eval.go", Old: "func (ev *Evaler) registerDeprecation(d deprecation) bool {\n\tev.mu.Lock()\n\tdefer ev.mu.Unlock()", New: "func (ev *Evaler) registerDeprecation(d deprecation) bool {\n\tev.mu.Lock()\n\tdefer func() { ev.mu.Unlock() }()", Fire: false, Patterns: []string{"./pkg/eval"}},
			{Name: "benign-explicit-unlock-instead-of-defer", Rule: "EVALER-LOCK", File: "pkg/eval/eval.go", Old: "func (ev *Evaler) getNumBgJobs() int {\n\tev.mu.RLock()\n\tdefer ev.mu.RUnlock()\n\treturn ev.numBgJobs\n}", New: "func (ev *Evaler) getNumBgJobs() int {\n\tev.mu.RLock()\n\tn := ev.numBgJobs\n\tev.mu.RUnlock()\n\treturn n\n}", Fire: false, Patterns: []string{"./pkg/eval"}},
		},
	})
	register(&core.Spec{
		ID: "C32",
		Explanation: "Decides structural necessary conditions of C32: (FULL-LOCK) loop.redrawFull is accessed only under redrawMutex on every path, and in Redraw the flag is set before the wake-up token is sent within the same critical section (a requested full redraw cannot be consumed before the flag is visible, so it is never downgraded); (NONBLOCK) the sends in Redraw and Return are non-blocking selects on channels created with capacity >= 1 (a request is never lost while the loop is busy and callers never block); (FINAL-ONCE) every return of Run is reached through exactly one redrawCb(finalRedraw) call, Run and its callees in the package start no goroutine (events are handled serially), and every wake-up received from redrawCh is followed by a redraw before the loop waits again (REDRAW-AFTER-WAKE). Arrival order and liveness under real schedules are not decided.",
		NotCovered:  "ordering of events from concurrent producers, liveness, behaviour of the callbacks",
		Rules:       []string{"FULL-LOCK: lockset on loop.redrawFull + set-before-send in Redraw", "NONBLOCK: non-blocking select sends on buffered channels", "FINAL-ONCE: exactly one final redraw before each return of Run; no go statements in Run's call tree", "REDRAW-AFTER-WAKE: after the select in Run wakes, a redraw callback runs before the next wait"},
		Patterns:    []string{"./pkg/cli"},
		Run:         func(p *core.Program, r *core.Report) { runC32(p, r); runInputFIFO(p, r) },
		MinCounts:   map[string]int{"FULL-LOCK": 4, "NONBLOCK": 4, "FINAL-ONCE": 3, "REDRAW-AFTER-WAKE": 1, "INPUT-FIFO": 1},
		Trusted:     trustedBase,
		Controls: []core.Control{
			{Name: "drain-request-after-full-redraw", Rule: "REDRAW-AFTER-WAKE", File: "pkg/cli/loop.go", Old: "\t\tlp.redrawCb(flag)\n\t\tselect {\n\t\tcase event := <-lp.inputCh:", New: "\t\tlp.redrawCb(flag)\n\t\tif flag&fullRedraw != 0 {\n\t\t\tselect {\n\t\t\tcase <-lp.redrawCh:\n\t\t\tdefault:\n\t\t\t}\n\t\t}\n\t\tselect {\n\t\tcase event := <-lp.inputCh:", Fire: true, Want: "polling receive"},
			{Name: "redrawFull-set-after-send", Rule: "FULL-LOCK", File: "pkg/cli/loop.go", Old: "\tif full {\n\t\tlp.redrawFull = true\n\t}\n\tselect {\n\tcase lp.redrawCh <- struct{}{}:\n\tdefault:\n\t}\n}", New: "\tselect {\n\tcase lp.redrawCh <- struct{}{}:\n\tdefault:\n\t}\n\tif full {\n\t\tlp.redrawFull = true\n\t}\n}", Fire: true, Want: "Redraw", Quick: true},
			{Name: "input-handed-to-a-goroutine", Rule: "INPUT-FIFO", File: "pkg/cli/loop.go", Old: "func (lp *loop) Input(ev event) {\n\tlp.inputCh <- ev\n}", New: "func (lp *loop) Input(ev event) {\n\tselect {\n\tcase lp.inputCh <- ev:\n\tdefault:\n\t\tgo func() { lp.inputCh <- ev }()\n\t}\n}", Fire: true, Want: "Input"},
			{Name: "benign-input-send-in-select-with-no-default", Rule: "INPUT-FIFO", File: "pkg/cli/loop.go", Old: "func (lp *loop) Input(ev event) {\n\tlp.inputCh <- ev\n}", New: "func (lp *loop) Input(ev event) {\n\tselect {\n\tcase lp.inputCh <- ev:\n\t}\n}", Fire: false},
			{Name: "redraw-unlocked-flag", Rule: "FULL-LOCK", File: "pkg/cli/loop.go", Old: "func (lp *loop) Redraw(full bool) {\n\tlp.redrawMutex.Lock()\n\tdefer lp.redrawMutex.Unlock()\n", New: "func (lp *loop) Redraw(full bool) {\n", Fire: true},
			{Name: "blocking-send-in-redraw", Rule: "NONBLOCK", File: "pkg/cli/loop.go", Old: "\tselect {\n\tcase lp.redrawCh <- struct{}{}:\n\tdefault:\n\t}\n}\n\n// Input", New: "\tlp.redrawCh <- struct{}{}\n}\n\n// Input", Fire: true},
			{Name: "unbuffered-return-channel", Rule: "NONBLOCK", File: "pkg/cli/loop.go", Old: "returnCh: make(chan loopReturn, 1),", New: "returnCh: make(chan loopReturn),", Fire: true},
			{Name: "return-without-final-redraw", Rule: "FINAL-ONCE", File: "pkg/cli/loop.go", Old: "\t\tcase ret := <-lp.returnCh:\n\t\t\tlp.redrawCb(finalRedraw)\n\t\t\treturn ret.buffer, ret.err\n\t\tcase <-lp.redrawCh:", New: "\t\tcase ret := <-lp.returnCh:\n\t\t\treturn ret.buffer, ret.err\n\t\tcase <-lp.redrawCh:", Fire: true, Quick: true},
			{Name: "handle-events-in-goroutine", Rule: "FINAL-ONCE", File: "pkg/cli/loop.go", Old: "\t\t\t\tlp.handleCb(event)\n", New: "\t\t\t\tgo lp.handleCb(event)\n", Fire: true},
			{Name: "benign-buffer-size-2", Rule: "NONBLOCK", File: "pkg/cli/loop.go", Old: "redrawCh:    make(chan struct{}, 1),", New: "redrawCh:    make(chan struct{}, 2),", Fire: false},
		},
	})
	register(&core.Spec{
		ID: "C30",
		Explanation: "Decides the 'never stale' clause of C30 structurally: (CACHE-LOCK) every access to Highlighter.cache holds cacheMutex on every path, the mutex is balanced, and the late-update notification send happens with the mutex released; (STALE-GUARD) in every late-result callback the store into the cached styled text is executed only on the equal edge of a comparison between the cached code and the code captured when the callback was created, in the same critical section, and that captured variable is the very argument highlight() was called with; (GET-CONSISTENT) the synchronous path stores the code together with the result computed for that same code. Text preservation by segment assembly (the first clause) is value-level and not decided.",
		NotCovered:  "that highlighting segments concatenate back to the code (value-level)",
		Rules:       []string{"CACHE-LOCK: lockset on Highlighter.cache; sends on lates only when unlocked", "STALE-GUARD: late store guarded by cache.code == captured code under the same lock", "GET-CONSISTENT: cache literal pairs the code with the result of highlight(code)"},
		Patterns:    []string{"./pkg/edit/highlight"},
		Run:         runC30,
		MinCounts:   map[string]int{"CACHE-LOCK": 5, "STALE-GUARD": 1, "GET-CONSISTENT": 1},
		Trusted:     trustedBase,
		Controls: []core.Control{
			{Name: "late-callback-drops-code-check", Rule: "STALE-GUARD", File: "pkg/edit/highlight/highlighter.go", Old: "\t\tif hl.cache.code != code {\n\t\t\t// Late result was delivered after code has changed. Unlock and\n\t\t\t// return.\n\t\t\thl.cacheMutex.Unlock()\n\t\t\treturn\n\t\t}\n", New: "", Fire: true, Quick: true},
			{Name: "late-callback-checks-outside-lock", Rule: "STALE-GUARD", File: "pkg/edit/highlight/highlighter.go", Old: "\t\thl.cacheMutex.Lock()\n\t\tif hl.cache.code != code {\n\t\t\t// Late result was delivered after code has changed. Unlock and\n\t\t\t// return.\n\t\t\thl.cacheMutex.Unlock()\n\t\t\treturn\n\t\t}\n", New: "\t\thl.cacheMutex.Lock()\n\t\tstale := hl.cache.code != code\n\t\thl.cacheMutex.Unlock()\n\t\tif stale {\n\t\t\treturn\n\t\t}\n\t\thl.cacheMutex.Lock()\n", Fire: true},
			{Name: "cache-written-before-lock", Rule: "CACHE-LOCK", File: "pkg/edit/highlight/highlighter.go", Old: "func (hl *Highlighter) InvalidateCache() {\n\thl.cacheMutex.Lock()\n\tdefer hl.cacheMutex.Unlock()\n\thl.cache = cache{}", New: "func (hl *Highlighter) InvalidateCache() {\n\thl.cache = cache{}\n\thl.cacheMutex.Lock()\n\tdefer hl.cacheMutex.Unlock()", Fire: true},
			{Name: "send-under-lock", Rule: "CACHE-LOCK", File: "pkg/edit/highlight/highlighter.go", Old: "\t\thl.cacheMutex.Unlock()\n\t\thl.lates <- struct{}{}", New: "\t\thl.lates <- struct{}{}\n\t\thl.cacheMutex.Unlock()", Fire: true},
			{Name: "get-caches-under-wrong-code", Rule: "GET-CONSISTENT", File: "pkg/edit/highlight/highlighter.go", Old: "hl.cache = cache{code, styledCode, tips}", New: "hl.cache = cache{hl.cache.code, styledCode, tips}", Fire: true},
			{Name: "benign-eq-form", Rule: "STALE-GUARD", File: "pkg/edit/highlight/highlighter.go", Old: "\t\tif hl.cache.code != code {\n\t\t\t// Late result was delivered after code has changed. Unlock and\n\t\t\t// return.\n\t\t\thl.cacheMutex.Unlock()\n\t\t\treturn\n\t\t}\n\t\thl.cache.styledCode = styledCode\n", New: "\t\tif code == hl.cache.code {\n\t\t\thl.cache.styledCode = styledCode\n\t\t} else {\n\t\t\thl.cacheMutex.Unlock()\n\t\t\treturn\n\t\t}\n", Fire: false},
		},
	})
}

func runC39(p *core.Program, r *core.Report) {
	// GUARDED-SET: derive the guarded fields from the declaration: all fields
	// after the mutex.
	ev := p.NamedType(pkgEval, "Evaler")
	if !r.Anchor("GUARDED-SET", "eval.Evaler", ev != nil) {
		return
	}
	st := ev.Underlying().(*types.Struct)
	spec := evalerSpec
	spec.fields = map[string]bool{}
	after := false
	for i := 0; i < st.NumFields(); i++ {
		f := st.Field(i)
		if f.Name() == spec.mutex {
			after = true
			continue
		}
		if after {
			spec.fields[f.Name()] = true
			r.OK("GUARDED-SET", "Evaler."+f.Name()+" declared after mu", p.Pos(f.Pos()), "trivial")
		}
	}
	if !r.Anchor("GUARDED-SET", "fields declared after Evaler.mu", after && len(spec.fields) >= 4) {
		return
	}
	runLockset(p, r, "EVALER-LOCK", spec, p.RepoFns)
	runLockset(p, r, "PTRVAR-LOCK", ptrVarSpec, p.FnsInPkg(pkgVars))
	runRLockWrite(p, r, "RLOCK-WRITE")
	runRMWAtomic(p, r, "RMW-ATOMIC", spec)
	runForkShared(p, r, "FORK-SHARED")
}

func runC32(p *core.Program, r *core.Report) {
	spec := guardSpec{pkg: pkgCLI, structName: "loop", mutex: "redrawMutex", fields: map[string]bool{"redrawFull": true}}
	fns := p.FnsInPkg(pkgCLI)
	runLockset(p, r, "FULL-LOCK", spec, fns)

	loopT := p.NamedType(pkgCLI, "loop")
	redraw, ret, run, newLoop := p.Method(pkgCLI, "loop", "Redraw"), p.Method(pkgCLI, "loop", "Return"), p.Method(pkgCLI, "loop", "Run"), p.Func(pkgCLI, "newLoop")
	if !r.Anchor("NONBLOCK", "cli.loop and its Redraw/Return/Run/newLoop", loopT != nil && redraw != nil && ret != nil && run != nil && newLoop != nil) {
		return
	}
	chanField := func(v ssa.Value) string {
		if addr, ok := core.IsLoad(v); ok {
			if fa, ok := addr.(*ssa.FieldAddr); ok {
				if n, f := core.FieldName(fa); n != nil && n.Obj() == loopT.Obj() {
					return f
				}
			}
		}
		return ""
	}
	// set-before-send in Redraw
	var setFull *ssa.Store
	var sendSel ssa.Instruction
	core.Instrs(redraw, func(ins ssa.Instruction) {
		if st, ok := ins.(*ssa.Store); ok {
			if fa, ok := st.Addr.(*ssa.FieldAddr); ok {
				if _, f := core.FieldName(fa); f == "redrawFull" {
					setFull = st
				}
			}
		}
		switch x := ins.(type) {
		case *ssa.Select:
			for _, st := range x.States {
				if st.Dir == types.SendOnly && chanField(st.Chan) == "redrawCh" {
					sendSel = ins
				}
			}
		case *ssa.Send:
			if chanField(x.Chan) == "redrawCh" {
				sendSel = ins
			}
		}
	})
	if r.Anchor("FULL-LOCK", "Redraw sets redrawFull and signals redrawCh", setFull != nil && sendSel != nil) {
		// the send must not be reachable without having passed the (conditional) store
		// region: i.e. the store's block must not be reachable from the send.
		reach, _ := core.Reaches(sendSel, func(i ssa.Instruction) bool { return i == ssa.Instruction(setFull) }, nil)
		if reach {
			r.Bad("FULL-LOCK", "(*cli.loop).Redraw flag set before token send", p.InsPos(setFull), "the wake-up token is sent before redrawFull is set: the loop can consume the token and clear/read the flag first, downgrading a requested full redraw")
		} else {
			r.OK("FULL-LOCK", "(*cli.loop).Redraw flag set before token send", p.InsPos(setFull), "the store of the flag cannot follow the send on any path")
		}
	}
	// NONBLOCK: sends
	for _, fn := range []*ssa.Function{redraw, ret} {
		found := false
		core.Instrs(fn, func(ins ssa.Instruction) {
			switch x := ins.(type) {
			case *ssa.Send:
				found = true
				r.Bad("NONBLOCK", core.FnKey(fn)+" send on "+chanField(x.Chan), p.InsPos(ins), "a plain (blocking) channel send in a method documented never to block")
			case *ssa.Select:
				for _, st := range x.States {
					if st.Dir != types.SendOnly {
						continue
					}
					found = true
					construct := core.FnKey(fn) + " send on " + chanField(st.Chan)
					if x.Blocking {
						r.Bad("NONBLOCK", construct, p.InsPos(ins), "the select has no default case: the caller can block")
					} else {
						r.OK("NONBLOCK", construct, p.InsPos(ins), "select with default")
					}
				}
			}
		})
		r.Anchor("NONBLOCK", core.FnKey(fn)+" contains a channel send", found)
	}
	// NONBLOCK: capacities
	caps := map[string]int64{}
	core.Instrs(newLoop, func(ins ssa.Instruction) {
		st, ok := ins.(*ssa.Store)
		if !ok {
			return
		}
		fa, ok := st.Addr.(*ssa.FieldAddr)
		if !ok {
			return
		}
		_, f := core.FieldName(fa)
		if mc, ok := st.Val.(*ssa.MakeChan); ok {
			caps[f] = -1
			if c, ok := mc.Size.(*ssa.Const); ok && c.Value != nil && c.Value.Kind() == constant.Int {
				caps[f] = c.Int64()
			}
		}
	})
	for _, f := range []string{"redrawCh", "returnCh"} {
		c, ok := caps[f]
		construct := "cli.newLoop capacity of " + f
		switch {
		case !ok:
			r.Bad("NONBLOCK", construct, p.Pos(newLoop.Pos()), "cannot find the make(chan) that initialises this channel")
		case c >= 1:
			r.OK("NONBLOCK", construct, p.Pos(newLoop.Pos()), "constant capacity >= 1: a non-blocking send is never dropped while no request is pending")
		default:
			r.Bad("NONBLOCK", construct, p.Pos(newLoop.Pos()), "the channel is unbuffered (or its capacity is not a positive constant): a non-blocking send is dropped whenever the loop is not already waiting, so a redraw/return request is lost")
		}
	}
	// FINAL-ONCE
	directRedrawCb := func(ins ssa.Instruction, final bool) bool {
		c, ok := ins.(*ssa.Call)
		if !ok || c.Call.IsInvoke() {
			return false
		}
		if chanField(c.Call.Value) != "redrawCb" || len(c.Call.Args) != 1 {
			return false
		}
		k, isConst := c.Call.Args[0].(*ssa.Const)
		isFinal := isConst && k.Value != nil && k.Uint64()&2 != 0
		return isFinal == final
	}
	// a redraw may be made by a small helper of the package (finish): the
	// call counts when every path through the helper makes exactly one such
	// redraw call
	isRedrawCb := func(ins ssa.Instruction, final bool) bool {
		if directRedrawCb(ins, final) {
			return true
		}
		c, ok := ins.(*ssa.Call)
		if !ok {
			return false
		}
		h := c.Call.StaticCallee()
		if h == nil || core.PkgPathOf(h) != pkgCLI || h.Blocks == nil || h == run {
			return false
		}
		var calls []ssa.Instruction
		other := false
		core.Instrs(h, func(x ssa.Instruction) {
			if directRedrawCb(x, final) {
				calls = append(calls, x)
			} else if directRedrawCb(x, !final) {
				other = true
			}
		})
		if len(calls) != 1 || other {
			return false
		}
		if len(h.Blocks[0].Instrs) == 0 {
			return false
		}
		first := h.Blocks[0].Instrs[0]
		if first == calls[0] {
			return true
		}
		okAll, _ := core.MustPass(first, func(x ssa.Instruction) bool { return x == calls[0] }, nil)
		return okAll
	}
	nret := 0
	for _, b := range run.Blocks {
		for _, ins := range b.Instrs {
			retIns, ok := ins.(*ssa.Return)
			if !ok {
				continue
			}
			nret++
			construct := "(*cli.loop).Run return #final-redraw"
			// walk back within the dominator chain: exactly one final redraw
			// call must dominate the return with no other final call between.
			count := 0
			for _, b2 := range run.Blocks {
				for _, i2 := range b2.Instrs {
					if isRedrawCb(i2, true) && core.Precedes(i2, retIns) {
						// it must be "close": no path from the call back to the loop head before returning
						if ok, _ := core.MustPass(i2, func(x ssa.Instruction) bool { return x == ssa.Instruction(retIns) }, nil); ok {
							count++
						}
					}
				}
			}
			if count == 1 {
				r.OK("FINAL-ONCE", construct, p.InsPos(retIns), "exactly one redrawCb(finalRedraw) dominates this return and leads only to it")
			} else {
				r.Bad("FINAL-ONCE", construct, p.InsPos(retIns), "this return of Run is reached through "+itoa(count)+" final redraws (must be exactly one)")
			}
		}
	}
	r.Anchor("FINAL-ONCE", "Run has return statements", nret > 0)
	// a final redraw that does not lead to a return is also wrong
	core.Instrs(run, func(ins ssa.Instruction) {
		if isRedrawCb(ins, true) {
			ok, _ := core.MustPass(ins, func(x ssa.Instruction) bool { _, r := x.(*ssa.Return); return r }, func(x ssa.Instruction) bool { return isRedrawCb(x, true) || isRedrawCb(x, false) })
			reach, _ := core.Reaches(ins, func(x ssa.Instruction) bool { return isRedrawCb(x, true) || isRedrawCb(x, false) }, nil)
			if ok && !reach {
				r.OK("FINAL-ONCE", "(*cli.loop).Run final redraw leads to return", p.InsPos(ins), "no further redraw after the final one")
			} else {
				r.Bad("FINAL-ONCE", "(*cli.loop).Run final redraw leads to return", p.InsPos(ins), "after redrawCb(finalRedraw) the loop can redraw again or continue")
			}
		}
	})
	// no goroutines in Run and its static callees in the package
	seen := map[*ssa.Function]bool{}
	var visit func(f *ssa.Function)
	visit = func(f *ssa.Function) {
		if f == nil || seen[f] || f.Blocks == nil || core.PkgPathOf(f) != pkgCLI {
			return
		}
		seen[f] = true
		core.Instrs(f, func(ins ssa.Instruction) {
			if _, ok := ins.(*ssa.Go); ok {
				r.Bad("FINAL-ONCE", core.FnKey(f)+" go statement", p.InsPos(ins), "the event loop starts a goroutine: callbacks are no longer handled serially")
			}
			if c, ok := ins.(ssa.CallInstruction); ok {
				visit(core.Callee(c))
			}
		})
	}
	visit(run)
	r.OK("FINAL-ONCE", "(*cli.loop).Run call tree has no go statement", p.Pos(run.Pos()), "checked "+itoa(len(seen))+" function(s)")
	// REDRAW-AFTER-WAKE
	core.Instrs(run, func(ins ssa.Instruction) {
		sel, ok := ins.(*ssa.Select)
		if !ok || !sel.Blocking {
			return
		}
		hasRedrawCh := false
		for _, st := range sel.States {
			if st.Dir == types.RecvOnly && chanField(st.Chan) == "redrawCh" {
				hasRedrawCh = true
			}
		}
		if !hasRedrawCh {
			return
		}
		// every path from the select back to itself passes a redraw callback
		reach, _ := core.Reaches(sel, func(x ssa.Instruction) bool { return x == ssa.Instruction(sel) }, func(x ssa.Instruction) bool { return isRedrawCb(x, false) || isRedrawCb(x, true) })
		if reach {
			r.Bad("REDRAW-AFTER-WAKE", "(*cli.loop).Run wait -> redraw -> wait", p.InsPos(sel), "the loop can wait again after a wake-up without redrawing: a redraw request is lost")
		} else {
			r.OK("REDRAW-AFTER-WAKE", "(*cli.loop).Run wait -> redraw -> wait", p.InsPos(sel), "every cycle through the blocking select passes a redrawCb call")
		}
	})
	// every consumer of a request token honours it: after ANY receive from
	// redrawCh (blocking or polling, anywhere in the package) a redraw
	// callback runs before the loop blocks again or returns. A poll that
	// merely drains the channel discards a request another goroutine made.
	for _, fn := range p.FnsInPkg(pkgCLI) {
		core.Instrs(fn, func(ins ssa.Instruction) {
			recvs := false
			switch x := ins.(type) {
			case *ssa.Select:
				for _, st := range x.States {
					if st.Dir == types.RecvOnly && chanField(st.Chan) == "redrawCh" {
						recvs = true
					}
				}
			case *ssa.UnOp:
				if x.Op == token.ARROW && chanField(x.X) == "redrawCh" {
					recvs = true
				}
			}
			if !recvs {
				return
			}
			kind := "blocking"
			if sel, ok := ins.(*ssa.Select); ok && !sel.Blocking {
				kind = "polling"
			}
			construct := core.FnKey(fn) + " " + kind + " receive from redrawCh is honoured by a redraw"
			lost, _ := core.Reaches(ins, func(x ssa.Instruction) bool {
				if x == ins {
					return true
				}
				if s2, ok := x.(*ssa.Select); ok && s2.Blocking {
					return true
				}
				if _, ok := x.(*ssa.Return); ok {
					return true
				}
				return false
			}, func(x ssa.Instruction) bool { return isRedrawCb(x, false) || isRedrawCb(x, true) })
			if lost {
				r.Bad("REDRAW-AFTER-WAKE", construct, p.InsPos(ins), "a request token taken from redrawCh can be dropped: some path from this receive reaches the next blocking wait (or a return) without calling the redraw callback, so a redraw requested by another goroutine at that moment never happens")
			} else {
				r.OK("REDRAW-AFTER-WAKE", construct, p.InsPos(ins), "every path from the receive passes a redrawCb call before the loop waits again or returns")
			}
		})
	}
}

func runC30(p *core.Program, r *core.Report) {
	hlT := p.NamedType(pkgHL, "Highlighter")
	if !r.Anchor("CACHE-LOCK", "highlight.Highlighter", hlT != nil) {
		return
	}
	// the mutex of the Highlighter and what it guards are read off the
	// struct declaration: the field of type sync.Mutex / sync.RWMutex, and the
	// fields declared after it
	hlMutex, hlGuarded := "", map[string]bool{}
	if st, ok := hlT.Underlying().(*types.Struct); ok {
		for i := 0; i < st.NumFields(); i++ {
			f := st.Field(i)
			if ts := f.Type().String(); hlMutex == "" && (ts == "sync.Mutex" || ts == "sync.RWMutex") {
				hlMutex = f.Name()
				continue
			}
			if hlMutex != "" {
				hlGuarded[f.Name()] = true
			}
		}
	}
	if !r.Anchor("CACHE-LOCK", "a mutex field in highlight.Highlighter followed by the fields it guards", hlMutex != "" && len(hlGuarded) > 0) {
		return
	}
	spec := guardSpec{pkg: pkgHL, structName: "Highlighter", mutex: hlMutex, fields: hlGuarded,
		unlocked: func(ins ssa.Instruction) string {
			if s, ok := ins.(*ssa.Send); ok {
				if addr, ok := core.IsLoad(s.Chan); ok {
					if fa, ok := addr.(*ssa.FieldAddr); ok {
						if n, f := core.FieldName(fa); n != nil && n.Obj() == hlT.Obj() {
							return "send on " + f
						}
					}
				}
			}
			return ""
		}}
	fns := p.FnsInPkg(pkgHL)
	runLockset(p, r, "CACHE-LOCK", spec, fns)

	highlightFn := p.Func(pkgHL, "highlight")
	if !r.Anchor("STALE-GUARD", "highlight.highlight", highlightFn != nil) {
		return
	}
	// cacheSub returns the cache sub-field name an address denotes ("" for whole cache / not cache)
	cacheSub := func(addr ssa.Value) (string, bool) {
		fa, ok := addr.(*ssa.FieldAddr)
		if !ok {
			return "", false
		}
		n, f := core.FieldName(fa)
		if n != nil && n.Obj() == hlT.Obj() && hlGuarded[f] {
			return "", true
		}
		if inner, ok := fa.X.(*ssa.FieldAddr); ok {
			if n2, f2 := core.FieldName(inner); n2 != nil && n2.Obj() == hlT.Obj() && hlGuarded[f2] {
				// the sub-field that holds the code is the string one
				if isStringType(fa.Type().(*types.Pointer).Elem()) {
					return "code", true
				}
				return f, true
			}
		}
		return "", false
	}
	// late functions: the callbacks handed to highlight() and what they call
	// inside the package (two levels)
	late := map[*ssa.Function]bool{}
	for _, fn := range fns {
		core.Instrs(fn, func(ins ssa.Instruction) {
			c, ok := ins.(*ssa.Call)
			if !ok || c.Call.StaticCallee() != highlightFn {
				return
			}
			for _, a := range c.Call.Args {
				if cf, ok := closureOf(a); ok {
					late[cf] = true
				}
			}
		})
	}
	for depth := 0; depth < 2; depth++ {
		for _, fn := range fns {
			if !late[fn] {
				continue
			}
			core.Instrs(fn, func(ins ssa.Instruction) {
				if c, ok := ins.(ssa.CallInstruction); ok {
					if callee := c.Common().StaticCallee(); callee != nil && core.PkgPathOf(callee) == pkgHL && callee != highlightFn {
						late[callee] = true
					}
				}
			})
		}
	}
	nLate := 0
	for _, fn := range fns {
		core.Instrs(fn, func(ins ssa.Instruction) {
			st, ok := ins.(*ssa.Store)
			if !ok {
				return
			}
			sub, isCache := cacheSub(st.Addr)
			if !isCache {
				return
			}
			fk := core.FnKey(fn)
			if !late[fn] {
				// synchronous writers
				if sub != "" {
					r.Bad("GET-CONSISTENT", fk+" store cache."+sub, p.InsPos(ins), "a single field of the cache is overwritten outside a late callback: code and result can get out of step")
					return
				}
				checkGetConsistent(p, r, fn, st, highlightFn)
				return
			}
			// late callbacks (closures)
			nLate++
			construct := fk + " late store cache." + sub
			if sub == "code" || sub == "" {
				r.Bad("STALE-GUARD", construct, p.InsPos(ins), "a late callback replaces the cached code")
				return
			}
			guard, why := staleGuard(fn, st, cacheSub, spec, highlightFn)
			if guard {
				r.OK("STALE-GUARD", construct, p.InsPos(ins), "store executes only on the equal edge of cache.code == captured code, in the same critical section; the captured variable is the argument of highlight()")
			} else {
				r.Bad("STALE-GUARD", construct, p.InsPos(ins), why)
			}
		})
	}
	r.Count("STALE-GUARD late stores", nLate)
}

// cellOf returns the variable cell a value was loaded from (captured
// variables are heap cells), or the value itself for SSA registers.
func cellOf(v ssa.Value) ssa.Value {
	if addr, ok := core.IsLoad(v); ok {
		switch addr.(type) {
		case *ssa.Alloc, *ssa.FreeVar:
			return addr
		}
	}
	return v
}

func staleGuard(fn *ssa.Function, st *ssa.Store, cacheSub func(ssa.Value) (string, bool), spec guardSpec, highlightFn *ssa.Function) (bool, string) {
	for _, b := range fn.Blocks {
		if len(b.Instrs) == 0 {
			continue
		}
		iff, ok := b.Instrs[len(b.Instrs)-1].(*ssa.If)
		if !ok {
			continue
		}
		cmp, ok := iff.Cond.(*ssa.BinOp)
		if !ok || (cmp.Op != token.EQL && cmp.Op != token.NEQ) {
			continue
		}
		var other, codeLoad ssa.Value
		isCode := func(v ssa.Value) bool {
			addr, ok := core.IsLoad(v)
			if !ok {
				return false
			}
			sub, isCache := cacheSub(addr)
			return isCache && sub == "code"
		}
		switch {
		case isCode(cmp.X):
			other, codeLoad = cmp.Y, cmp.X
		case isCode(cmp.Y):
			other, codeLoad = cmp.X, cmp.Y
		default:
			continue
		}
		edge := core.EdgeTo(b, st.Block())
		want := 0
		if cmp.Op == token.NEQ {
			want = 1
		}
		if edge != want {
			continue
		}
		// same critical section: no unlock between the test and the store
		unlockBetween, _ := core.Reaches(codeLoad.(ssa.Instruction), func(x ssa.Instruction) bool {
			if c, ok := x.(ssa.CallInstruction); ok {
				if op := mutexOp(c, spec); op == "Unlock" {
					// only count unlocks that can still reach the store
					reach, _ := core.Reaches(x, func(y ssa.Instruction) bool { return y == ssa.Instruction(st) }, nil)
					return reach
				}
			}
			return false
		}, func(x ssa.Instruction) bool { return x == ssa.Instruction(st) })
		if unlockBetween {
			return false, "the cached code is compared, but the mutex is released between the comparison and the store: the code can change in between"
		}
		// the compared value is the code highlight() was asked to highlight:
		// a captured variable bound to its argument, or a parameter that every
		// call site fills with such a value
		if prm, isPrm := other.(*ssa.Parameter); isPrm && fn.Parent() == nil {
			if codeParamFromHighlight(fn, prm, highlightFn, 0) {
				return true, ""
			}
			return false, "the parameter compared with the cached code is not, at every call site, the code that highlight() was asked to highlight"
		}
		cell := cellOf(other)
		fv, ok := cell.(*ssa.FreeVar)
		if !ok {
			return false, "the cached code is compared with something that is not the code captured when the callback was created"
		}
		idx := -1
		for i, x := range fn.FreeVars {
			if x == fv {
				idx = i
			}
		}
		parent := fn.Parent()
		okBind := false
		core.Instrs(parent, func(ins ssa.Instruction) {
			mc, ok := ins.(*ssa.MakeClosure)
			if !ok || mc.Fn != fn || idx < 0 {
				return
			}
			bound := mc.Bindings[idx]
			for _, ref := range *mc.Referrers() {
				if c, ok := ref.(*ssa.Call); ok && c.Call.StaticCallee() == highlightFn && len(c.Call.Args) > 0 {
					if cellOf(c.Call.Args[0]) == bound || c.Call.Args[0] == bound {
						okBind = true
					}
				}
			}
		})
		if !okBind {
			return false, "the captured variable compared with the cached code is not the code that highlight() was asked to highlight"
		}
		return true, ""
	}
	return false, "the late result is stored without checking (under the lock) that the cached code is still the code the result was computed for: a stale highlighting can be shown for different code"
}

func checkGetConsistent(p *core.Program, r *core.Report, fn *ssa.Function, st *ssa.Store, highlightFn *ssa.Function) {
	construct := core.FnKey(fn) + " store cache"
	if c, isConst := st.Val.(*ssa.Const); isConst && c.Value == nil {
		r.OK("GET-CONSISTENT", construct+" (zero value)", p.InsPos(st), "the cache is reset to its zero value: empty code, no result")
		return
	}
	ld, ok := st.Val.(*ssa.UnOp)
	if !ok {
		r.Bad("GET-CONSISTENT", construct, p.InsPos(st), "cannot resolve the value stored into the cache")
		return
	}
	lit, ok := ld.X.(*ssa.Alloc)
	if !ok {
		r.Bad("GET-CONSISTENT", construct, p.InsPos(st), "the cache is not assigned from a literal built in place")
		return
	}
	fields := map[int]ssa.Value{}
	for _, ref := range *lit.Referrers() {
		if fa, ok := ref.(*ssa.FieldAddr); ok {
			for _, r2 := range *fa.Referrers() {
				if s2, ok := r2.(*ssa.Store); ok && s2.Addr == fa {
					fields[fa.Field] = s2.Val
				}
			}
		}
	}
	if len(fields) == 0 {
		r.OK("GET-CONSISTENT", construct+" (zero value)", p.InsPos(st), "the cache is reset to its zero value: empty code, no result")
		return
	}
	// find the highlight call
	var hcall *ssa.Call
	core.Instrs(fn, func(ins ssa.Instruction) {
		if c, ok := ins.(*ssa.Call); ok && c.Call.StaticCallee() == highlightFn {
			hcall = c
		}
	})
	if hcall == nil {
		r.Bad("GET-CONSISTENT", construct, p.InsPos(st), "a non-empty cache entry is stored by a function that does not call highlight()")
		return
	}
	codeOK := fields[0] != nil && cellOf(fields[0]) == cellOf(hcall.Call.Args[0])
	resOK := false
	if ex, ok := fields[1].(*ssa.Extract); ok && ex.Tuple == hcall && ex.Index == 0 {
		resOK = true
	}
	if codeOK && resOK {
		r.OK("GET-CONSISTENT", construct, p.InsPos(st), "cache{code, result}: code is the variable passed to highlight() and result is its first result")
	} else if !codeOK {
		r.Bad("GET-CONSISTENT", construct, p.InsPos(st), "the code stored in the cache is not the code passed to highlight(): later lookups and late results would be matched against the wrong code")
	} else {
		r.Bad("GET-CONSISTENT", construct, p.InsPos(st), "the styled text stored in the cache is not the result of highlight() for that code")
	}
}

// codeParamFromHighlight: at every static call site of fn (an unexported
// function of the highlight package) the argument for prm is the code that
// highlight() was called with - a variable captured by the callback closure
// that is passed to that very highlight() call, or again such a parameter.
func codeParamFromHighlight(fn *ssa.Function, prm *ssa.Parameter, highlightFn *ssa.Function, depth int) bool {
	if depth > 3 || fn.Pkg == nil {
		return false
	}
	if obj := fn.Object(); obj == nil || obj.Exported() {
		return false
	}
	idx := -1
	for i, q := range fn.Params {
		if q == prm {
			idx = i
		}
	}
	if idx < 0 {
		return false
	}
	var callers []*ssa.Function
	var add func(f *ssa.Function)
	add = func(f *ssa.Function) {
		callers = append(callers, f)
		for _, a := range f.AnonFuncs {
			add(a)
		}
	}
	for _, m := range fn.Pkg.Members {
		switch x := m.(type) {
		case *ssa.Function:
			add(x)
		case *ssa.Type:
			for _, t := range []types.Type{x.Type(), types.NewPointer(x.Type())} {
				ms := fn.Prog.MethodSets.MethodSet(t)
				for i := 0; i < ms.Len(); i++ {
					if f := fn.Prog.MethodValue(ms.At(i)); f != nil && f.Pkg == fn.Pkg && f.Synthetic == "" {
						add(f)
					}
				}
			}
		}
	}
	n, ok := 0, true
	seen := map[ssa.Instruction]bool{}
	for _, caller := range callers {
		core.Instrs(caller, func(ins ssa.Instruction) {
			c, isCall := ins.(ssa.CallInstruction)
			if !isCall || c.Common().StaticCallee() != fn || seen[ins] {
				return
			}
			seen[ins] = true
			n++
			arg := c.Common().Args[idx]
			switch a := cellOf(arg).(type) {
			case *ssa.Parameter:
				if !codeParamFromHighlight(caller, a, highlightFn, depth+1) {
					ok = false
				}
			case *ssa.FreeVar:
				// caller is a closure: the free variable must be bound to
				// the first argument of the highlight() call the closure is
				// passed to
				fvIdx := -1
				for i, x := range caller.FreeVars {
					if x == a {
						fvIdx = i
					}
				}
				bound := false
				if parent := caller.Parent(); parent != nil && fvIdx >= 0 {
					core.Instrs(parent, func(x ssa.Instruction) {
						mc, isMC := x.(*ssa.MakeClosure)
						if !isMC || mc.Fn != ssa.Value(caller) {
							return
						}
						b := mc.Bindings[fvIdx]
						for _, ref := range *mc.Referrers() {
							if hc, isCall := ref.(*ssa.Call); isCall && hc.Call.StaticCallee() == highlightFn && len(hc.Call.Args) > 0 {
								if cellOf(hc.Call.Args[0]) == b || hc.Call.Args[0] == b {
									bound = true
								}
							}
						}
					})
				}
				if !bound {
					ok = false
				}
			default:
				ok = false
			}
		})
	}
	return ok && n > 0
}
