package rules

import (
	"strings"

	"golang.org/x/tools/go/ssa"

	"verif/sa/internal/core"
)

// runCheckModeInert (C16 CHECK-AGREE, clause "mode input is inert"): besides
// the two static namespaces, compile() takes the list of known module names,
// which only the static check (Evaler.Check / CheckTree, the editor,
// -compileonly) supplies - evaluation passes nil. For the check and the
// evaluation to report the same errors, that list may feed nothing but the
// autofix suggestions: a function that reads compiler.modules writes only
// compiler.autofixes and its own locals, and calls only functions that write
// nothing outside their locals.
func runCheckModeInert(p *core.Program, r *core.Report) {
	const rule = "CHECK-AGREE"
	isCompilerField := func(v ssa.Value, field string) bool {
		fa, ok := v.(*ssa.FieldAddr)
		if !ok {
			return false
		}
		n, f := core.FieldName(fa)
		return n != nil && n.Obj().Pkg() != nil && n.Obj().Pkg().Path() == pkgEval && n.Obj().Name() == "compiler" && f == field
	}
	localRoot := func(addr ssa.Value) bool {
		for i := 0; i < 8; i++ {
			switch a := addr.(type) {
			case *ssa.FieldAddr:
				addr = a.X
			case *ssa.IndexAddr:
				addr = a.X
			case *ssa.Alloc:
				return true
			default:
				return false
			}
		}
		return false
	}
	pure := map[*ssa.Function]int{} // 0 unknown, 1 pure, 2 impure, 3 in progress
	var isPure func(f *ssa.Function, depth int) bool
	isPure = func(f *ssa.Function, depth int) bool {
		if f == nil {
			return false
		}
		pp := core.PkgPathOf(f)
		if !strings.HasPrefix(pp, core.ModPath+"/") && pp != core.ModPath {
			// standard library string/unicode helpers: no access to the compiler
			return pp == "strings" || pp == "unicode/utf8" || pp == "unicode" || pp == "strconv" || pp == "slices" || pp == "sort"
		}
		switch pure[f] {
		case 1:
			return true
		case 2:
			return false
		case 3:
			return true // recursion: decided by the rest of the body
		}
		if f.Blocks == nil || depth > 4 {
			return false
		}
		pure[f] = 3
		ok := true
		core.Instrs(f, func(ins ssa.Instruction) {
			switch x := ins.(type) {
			case *ssa.Store:
				if !localRoot(x.Addr) {
					ok = false
				}
			case *ssa.MapUpdate, *ssa.Send, *ssa.Go, *ssa.Defer:
				ok = false
			case *ssa.Call:
				if _, isB := x.Call.Value.(*ssa.Builtin); isB {
					return
				}
				if !isPure(x.Call.StaticCallee(), depth+1) {
					ok = false
				}
			}
		})
		if ok {
			pure[f] = 1
		} else {
			pure[f] = 2
		}
		return ok
	}
	n := 0
	for _, fn := range p.FnsInPkg(pkgEval) {
		reads := false
		core.Instrs(fn, func(ins ssa.Instruction) {
			if addr, ok := core.IsLoad(valueOf(ins)); ok && isCompilerField(addr, "modules") {
				reads = true
			}
		})
		if !reads {
			continue
		}
		n++
		construct := core.FnKey(fn) + " uses the check-only module list for autofix suggestions only"
		var offending ssa.Instruction
		why := ""
		core.Instrs(fn, func(ins ssa.Instruction) {
			if offending != nil {
				return
			}
			switch x := ins.(type) {
			case *ssa.Store:
				if localRoot(x.Addr) || isCompilerField(x.Addr, "autofixes") {
					return
				}
				offending, why = ins, "writes "+addrDesc(x.Addr)
			case *ssa.MapUpdate:
				offending, why = ins, "updates a map"
			case *ssa.Call:
				if _, isB := x.Call.Value.(*ssa.Builtin); isB {
					return
				}
				callee := x.Call.StaticCallee()
				if !isPure(callee, 0) {
					name := "a function value"
					if callee != nil {
						name = core.FnKey(callee)
					}
					offending, why = ins, "calls "+name+", which writes outside its own locals"
				}
			}
		})
		if offending == nil {
			r.OK(rule, construct, p.Pos(fn.Pos()), "the function writes only compiler.autofixes and locals and calls only side-effect-free helpers")
		} else {
			r.Bad(rule, construct, p.InsPos(offending), "a function that depends on the module list given only to the static check "+why+": the check can now accept or reject code differently from evaluation, which compiles with an empty list")
		}
	}
	r.Anchor(rule, "a reader of compiler.modules", n >= 1)
}

func valueOf(ins ssa.Instruction) ssa.Value {
	if v, ok := ins.(ssa.Value); ok {
		return v
	}
	return nil
}
