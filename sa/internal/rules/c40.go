package rules

import (
	"go/constant"
	"go/token"
	"go/types"
	"sort"
	"strings"

	"golang.org/x/tools/go/ssa"

	"verif/sa/internal/core"
)

func init() {
	register(&core.Spec{
		ID:          "C40",
		Explanation: "Decides structural necessary conditions of C40: (OPEN-OWNED) every file descriptor the evaluator itself opens (os.Pipe in pipelines and PipePort, os.OpenFile in redirections) is, on the success path, recorded as owned by the form (formOwnedPort.File) so that the per-form epilogue closes it, or closed/handed to a cleanup function in the same function; (CLEANUP-CALLED) every cleanup/collect function returned by PipePort, CapturePort, ValueCapturePort, StringCapturePort, FilePort and PortsFromFiles is called (directly or deferred) on every path of its caller after the success edge, or returned to that caller's caller; (REPLACE-CLOSES) in a redirection the port previously in the destination slot is closed (if owned) before the slot is overwritten; (JOINED) every goroutine started by the evaluator is joined, on every path from its go statement to a return of the spawner (shared with C19; this includes the path on which os.Pipe fails in the middle of a pipeline); (OWN-PAIR) ownership records are reset after closing, and the redirection code and the form's epilogue work on one ownership table. Descriptor counts are not decided.",
		NotCovered:  "descriptor counts; files opened explicitly by scripts (excluded by the property)",
		Rules:       []string{"OPEN-OWNED", "CLEANUP-CALLED", "REPLACE-CLOSES", "OWN-PAIR: an ownership record is reset after its port is closed, and cleared only after closing through the same slot", "JOINED"},
		Patterns:    []string{"./pkg/eval/...", "./pkg/mods/...", "./pkg/edit/...", "./pkg/shell/..."},
		Run: func(p *core.Program, r *core.Report) {
			runOpenOwned(p, r)
			runCleanupCalled(p, r)
			runReplaceCloses(p, r, "REPLACE-CLOSES")
			runStableRecords(p, r, "OWN-PAIR")
			runOwnPair(p, r, "OWN-PAIR")
			runOwnTableShared(p, r, "OWN-PAIR")
			runJoined(p, r, "JOINED")
		},
		MinCounts: map[string]int{"OPEN-OWNED": 3, "CLEANUP-CALLED": 6, "REPLACE-CLOSES": 2, "JOINED": 8},
		Trusted:   trustedBase,
		Controls: []core.Control{
			{Name: "redir-file-not-owned", Rule: "OPEN-OWNED", File: "pkg/eval/compile_effect.go", Old: "\t\t*dstPort = fileRedirPort(op.mode, f)\n\t\tdstFop.File = true", New: "\t\t*dstPort = fileRedirPort(op.mode, f)", Fire: true, Quick: true, Patterns: []string{"./pkg/eval"}},
			{Name: "pipe-writer-not-owned", Rule: "OPEN-OWNED", File: "pkg/eval/compile_effect.go", Old: "*growAccess(&fops, 1) = formOwnedPort{File: true, Chan: true}", New: "*growAccess(&fops, 1) = formOwnedPort{File: false, Chan: true}", Fire: true, Patterns: []string{"./pkg/eval"}},
			{Name: "pipeport-reader-not-closed", Rule: "OPEN-OWNED", File: "pkg/eval/port.go", Old: "\t\tdefer wg.Done()\n\t\tdefer r.Close()\n\t\tbCb(r)", New: "\t\tdefer wg.Done()\n\t\tbCb(r)", Fire: true, Patterns: []string{"./pkg/eval"}},
			{Name: "capture-collect-skipped-on-exception", Rule: "CLEANUP-CALLED", File: "pkg/eval/compile_value.go", Old: "\texc := op.subop.exec(fm.forkWithOutput(outPort))\n\treturn collect(), exc", New: "\texc := op.subop.exec(fm.forkWithOutput(outPort))\n\tif exc != nil {\n\t\treturn nil, exc\n\t}\n\treturn collect(), exc", Fire: true, Quick: true, Patterns: []string{"./pkg/eval"}},
			{Name: "pipeoutput-done-skipped", Rule: "CLEANUP-CALLED", File: "pkg/eval/frame.go", Old: "\terr = f(fm.forkWithOutput(outPort))\n\tdone()\n\treturn err", New: "\terr = f(fm.forkWithOutput(outPort))\n\tif err == nil {\n\t\tdone()\n\t}\n\treturn err", Fire: true, Patterns: []string{"./pkg/eval"}},
			{Name: "redir-overwrites-without-close", Rule: "REPLACE-CLOSES", File: "pkg/eval/compile_effect.go", Old: "\tcloseOldDst()\n\tsrc, err := evalForValue(fm, op.srcOp, \"redirection source\")", New: "\tsrc, err := evalForValue(fm, op.srcOp, \"redirection source\")", Fire: true, Patterns: []string{"./pkg/eval"}},
			{Name: "ownership-not-reset-after-close", Rule: "OWN-PAIR", File: "pkg/eval/compile_effect.go", Old: "\t\t\tdstFop.close(*dstPort)\n\t\t\t*dstFop = formOwnedPort{File: false, Chan: false}", New: "\t\t\tdstFop.close(*dstPort)", Fire: true, Patterns: []string{"./pkg/eval"}},
			{Name: "benign-defer-done", Rule: "CLEANUP-CALLED", File: "pkg/eval/frame.go", Old: "\terr = f(fm.forkWithOutput(outPort))\n\tdone()\n\treturn err", New: "\tdefer done()\n\treturn f(fm.forkWithOutput(outPort))", Fire: false, Patterns: []string{"./pkg/eval"}},
		},
	})
	register(&core.Spec{
		ID:          "C42",
		Explanation: "Decides structural necessary conditions of C42: (FLAGS) the open(2) flags compiled for each redirection mode are exactly what the mode means - < is O_RDONLY; > has O_WRONLY|O_CREATE|O_TRUNC and not O_APPEND; >> has O_WRONLY|O_CREATE|O_APPEND and not O_TRUNC; <> has O_RDWR|O_CREATE and neither O_TRUNC nor O_APPEND - and every mode of the parser's enumeration has a case; (FD-RANGE) every index into the port table with an fd evaluated from the program is guarded on both sides, and the table is never grown by an unbounded fd; (DUP-SELF) the port duplicated by n>&m is never one that the same redirection has just closed (m = n is a no-op); (OPEN-OWNED) a file opened by a redirection is recorded as owned by the form, which closes it when the form finishes; (REPLACE-CLOSES) the old destination port is closed before being replaced; (SENDERR-NONNIL) the port installed by n>&- raises an exception on value output; (PORT-TOTAL) value I/O on whatever port a redirection installs is total: every Port literal of pkg/eval has a non-nil value channel (a nil channel blocks `each ... <&-` forever), and every send on a port's value channel is dominated by the edge that excludes each closed placeholder channel (`put x >&0` turns an input port into the output; a send on its closed channel panics), the sending select is reached only after a non-blocking check of sendStop, and the reading end of a pipe is a stopped port; (FD-VALID) whether a redirection raises \"invalid fd\" depends on the number and on whether the port table has an entry there, never on a field of the port found (a port closed with >&- is a valid source of m>&n). That bytes actually reach the file is not decided.",
		NotCovered:  "actual data routing at run time; OS-level semantics of the flags",
		Rules:       []string{"FLAGS", "FD-RANGE", "DUP-SELF", "OPEN-OWNED", "REPLACE-CLOSES", "OWN-PAIR", "SENDERR-NONNIL", "PORT-TOTAL", "FD-VALID", "FD-POSITIONAL: the file table of an external command has one slot per port, filled by position"},
		Patterns:    []string{"./pkg/eval/...", "./pkg/mods/..."},
		Run: func(p *core.Program, r *core.Report) {
			runRedirFlags(p, r)
			e := newPanicEngine(p)
			e.run(r, "FD-RANGE", func(s sink) bool {
				fk := core.FnKey(s.ins.Parent())
				return strings.Contains(fk, "redirOp") || strings.Contains(fk, "growAccess") || strings.Contains(fk, "(*eval.Frame).Port")
			})
			runDupSelf(p, r)
			runOpenOwnedRedir(p, r, "OPEN-OWNED")
			runReplaceCloses(p, r, "REPLACE-CLOSES")
			runStableRecords(p, r, "OWN-PAIR")
			runOwnPair(p, r, "OWN-PAIR")
			runOwnTableShared(p, r, "OWN-PAIR")
			runSendErrNonNil(p, r)
			runPortTotal(p, r)
			runFDValidity(p, r)
			runFDPositional(p, r)
		},
		MinCounts: map[string]int{"FLAGS": 5, "FD-RANGE": 3, "DUP-SELF": 1, "OPEN-OWNED": 1, "REPLACE-CLOSES": 2, "SENDERR-NONNIL": 2, "PORT-TOTAL": 6, "FD-VALID": 2, "FD-POSITIONAL": 1},
		Trusted:   trustedBase,
		Controls: []core.Control{
			{Name: "child-file-table-built-with-append", Rule: "FD-POSITIONAL", File: "pkg/eval/external_cmd.go", Old: "\tfiles := make([]*os.File, len(fm.ports))\n\tfor i, port := range fm.ports {\n\t\tif port != nil {\n\t\t\tfiles[i] = port.File", New: "\tfiles := make([]*os.File, 0, len(fm.ports))\n\tfor _, port := range fm.ports {\n\t\tif port != nil {\n\t\t\tfiles = append(files, port.File)", Fire: true, Want: "one file slot per port", Patterns: []string{"./pkg/eval"}},
			{Name: "revert-fix-shared-port-closed-on-re-redirection", Rule: "OWN-PAIR", File: "pkg/eval/compile_effect.go", Old: "\t\t\tfor i, port := range fm.ports {\n\t\t\t\tif i != dst && port == *dstPort {\n\t\t\t\t\t// Only an owner has something to hand over; if this fd\n\t\t\t\t\t// merely shares the port, the record of the fd that owns\n\t\t\t\t\t// it must stay as it is.\n\t\t\t\t\tif dstFop.File || dstFop.Chan {\n\t\t\t\t\t\t*growAccess(fops, i) = *dstFop\n\t\t\t\t\t\t*dstFop = formOwnedPort{File: false, Chan: false}\n\t\t\t\t\t}\n\t\t\t\t\treturn\n\t\t\t\t}\n\t\t\t}\n", New: "", Fire: true, Want: "shares it", Patterns: []string{"./pkg/eval"}},
			{Name: "ownership-table-not-grown-before-taking-a-record", Rule: "OWN-PAIR", File: "pkg/eval/compile_effect.go", Old: "\tfor len(*fops) < len(fm.ports) {\n\t\t*fops = append(*fops, formOwnedPort{})\n\t}\n", New: "", Fire: true, Want: "stays valid", Patterns: []string{"./pkg/eval"}},
			{Name: "revert-fix-hand-over-without-owning", Rule: "OWN-PAIR", File: "pkg/eval/compile_effect.go", Old: "\t\t\t\t\tif dstFop.File || dstFop.Chan {\n\t\t\t\t\t\t*growAccess(fops, i) = *dstFop\n\t\t\t\t\t\t*dstFop = formOwnedPort{File: false, Chan: false}\n\t\t\t\t\t}\n", New: "\t\t\t\t\t*growAccess(fops, i) = *dstFop\n\t\t\t\t\t*dstFop = formOwnedPort{File: false, Chan: false}\n", Fire: true, Want: "owns anything", Patterns: []string{"./pkg/eval"}},
			{Name: "revert-fix-put-panics-on-channel-closed-by-owner", Rule: "PORT-TOTAL", File: "pkg/eval/port.go", Old: "\tdefer func() {\n\t\tif recover() != nil {\n\t\t\terr = errs.ReaderGone{}\n\t\t}\n\t}()\n", New: "", Fire: true, Want: "survives", Patterns: []string{"./pkg/eval"}},
			{Name: "dup-of-closed-port-is-invalid-fd", Rule: "FD-VALID", File: "pkg/eval/compile_effect.go", Old: "case src < 0 || src >= len(fm.ports) || fm.ports[src] == nil:", New: "case src < 0 || src >= len(fm.ports) || fm.ports[src] == nil || fm.ports[src].File == nil:", Fire: true, Want: "invalid fd"},
			{Name: "benign-src-check-in-helper", Rule: "FD-VALID", File: "pkg/eval/compile_effect.go", Old: "case src < 0 || src >= len(fm.ports) || fm.ports[src] == nil:", New: "case !hasPort(fm.ports, src):", Edits: [][2]string{{"type InvalidFD struct{ FD int }\n", "type InvalidFD struct{ FD int }\n\nfunc hasPort(ports []*Port, i int) bool { return i >= 0 && i < len(ports) && ports[i] != nil }\n"}}, Fire: false},
			{Name: "revert-fix-put-on-closed-placeholder", Rule: "PORT-TOTAL", File: "pkg/eval/port.go", Old: "\tif vo.data == ClosedChan {", New: "\tif false {", Fire: true, Want: "ClosedChan", Quick: true, Patterns: []string{"./pkg/eval"}},
			{Name: "form-updates-a-private-copy-of-the-ownership-table", Rule: "OWN-PAIR", File: "pkg/eval/compile_effect.go", Old: "\t\texc := redirOp.exec(fm, fops)\n", New: "\t\tprivate := *fops\n\t\texc := redirOp.exec(fm, &private)\n", Fire: true, Want: "ownership table", Patterns: []string{"./pkg/eval"}},
			{Name: "revert-fix-put-does-not-check-stop-first", Rule: "PORT-TOTAL", File: "pkg/eval/port.go", Old: "\tselect {\n\tcase <-vo.sendStop:\n\t\t// No value may be sent any more, even if the channel has room. In\n\t\t// particular the reading end of a pipe is never sent on.\n\t\treturn *vo.sendError\n\tdefault:\n\t}\n", New: "", Fire: true, Want: "checks sendStop before", Patterns: []string{"./pkg/eval"}},
			{Name: "revert-fix-pipe-reading-end-accepts-values", Rule: "PORT-TOTAL", File: "pkg/eval/compile_effect.go", Old: "\t\t\t\tsendStop: closedSendStop, sendError: &ErrPortDoesNotSupportValueOutput}\n\t\t}", New: "\t\t\t\tsendStop: sendStop, sendError: sendError, readerGone: readerGone}\n\t\t}", Fire: true, Want: "reading end of a pipe", Patterns: []string{"./pkg/eval"}},
			{Name: "revert-fix-closed-port-nil-channel", Rule: "PORT-TOTAL", File: "pkg/eval/compile_effect.go", Old: "\t\t\t\tChan: ClosedChan,\n\t\t\t\t// Ensure that writing to value output throws an exception", New: "\t\t\t\t// Ensure that writing to value output throws an exception", Fire: true, Want: "Port literal", Patterns: []string{"./pkg/eval"}},
			{Name: "revert-fix-write-mode-file-port-nil-channel", Rule: "PORT-TOTAL", File: "pkg/eval/compile_effect.go", Old: "\t\tChan: ClosedChan, sendStop: closedSendStop,", New: "\t\tChan: nil, sendStop: closedSendStop,", Fire: true, Want: "Port literal", Patterns: []string{"./pkg/eval"}},
			{Name: "benign-placeholder-check-inverted", Rule: "PORT-TOTAL", File: "pkg/eval/port.go", Old: "\tif vo.data == ClosedChan {\n\t\t// An input-only or closed port redirected to an output, like in\n\t\t// \"put x >&0\". Sending on the closed channel would panic.\n\t\treturn ErrPortDoesNotSupportValueOutput\n\t}\n\tselect {\n\tcase <-vo.sendStop:", New: "\tif ClosedChan != vo.data {\n\t\treturn vo.put(v)\n\t}\n\treturn ErrPortDoesNotSupportValueOutput\n}\n\nfunc (vo valueOutput) put(v any) error {\n\tselect {\n\tcase <-vo.sendStop:", Fire: false, Patterns: []string{"./pkg/eval"}},
			{Name: "readwrite-truncates", Rule: "FLAGS", File: "pkg/eval/compile_effect.go", Old: "return os.O_RDWR | os.O_CREATE\n", New: "return os.O_RDWR | os.O_CREATE | os.O_TRUNC\n", Fire: true, Quick: true, Patterns: []string{"./pkg/eval"}},
			{Name: "append-without-append-flag", Rule: "FLAGS", File: "pkg/eval/compile_effect.go", Old: "return os.O_WRONLY | os.O_CREATE | os.O_APPEND", New: "return os.O_WRONLY | os.O_CREATE", Fire: true, Patterns: []string{"./pkg/eval"}},
			{Name: "write-without-trunc", Rule: "FLAGS", File: "pkg/eval/compile_effect.go", Old: "return os.O_WRONLY | os.O_CREATE | os.O_TRUNC", New: "return os.O_WRONLY | os.O_CREATE", Fire: true, Patterns: []string{"./pkg/eval"}},
			{Name: "revert-fix-self-redirect", Rule: "DUP-SELF", File: "pkg/eval/compile_effect.go", Old: "\t\tif src == dst && *dstPort != nil {\n\t\t\t// Redirecting a port to itself is a no-op. In particular, the\n\t\t\t// port must not be closed and then reused.\n\t\t\treturn nil\n\t\t}\n", New: "", Fire: true, Quick: true, Patterns: []string{"./pkg/eval"}},
			{Name: "revert-fix-negative-fd", Rule: "FD-RANGE", File: "pkg/eval/compile_effect.go", Old: "if dst < 0 || dst > maxRedirFD {", New: "if dst > maxRedirFD {", Fire: true, Patterns: []string{"./pkg/eval"}},
			{Name: "benign-dst-captured-by-closure", Rule: "FD-RANGE", File: "pkg/eval/compile_effect.go", Old: "\tdstPort := growAccess(&fm.ports, dst)\n", New: "\tdefer func() { _ = dst }()\n\tdstPort := growAccess(&fm.ports, dst)\n", Fire: false, Patterns: []string{"./pkg/eval"}},
			{Name: "benign-flags-through-named-constant", Rule: "FLAGS", File: "pkg/eval/compile_effect.go", Old: "\t\treturn os.O_WRONLY | os.O_CREATE | os.O_TRUNC", New: "\t\tconst writeFlags = os.O_WRONLY | os.O_CREATE | os.O_TRUNC\n\t\treturn writeFlags", Fire: false, Patterns: []string{"./pkg/eval"}},
		},
	})
}

// fopFileTrueStores finds stores that mark a formOwnedPort's File as owned:
// either field store `x.File = true` or a whole-struct store of a literal
// with File: true. Returns the instructions.
func fopFileTrueStores(fn *ssa.Function) []ssa.Instruction {
	var out []ssa.Instruction
	core.Instrs(fn, func(ins ssa.Instruction) {
		st, ok := ins.(*ssa.Store)
		if !ok {
			return
		}
		if fa, ok := st.Addr.(*ssa.FieldAddr); ok {
			n, f := core.FieldName(fa)
			if n != nil && n.Obj().Name() == "formOwnedPort" && f == "File" {
				if c, ok := st.Val.(*ssa.Const); ok && c.Value != nil && c.Value.Kind() == constant.Bool && constant.BoolVal(c.Value) {
					// exclude the initialisation of a literal that is not stored anywhere
					out = append(out, ins)
				}
			}
		}
	})
	return out
}

func runOpenOwned(p *core.Program, r *core.Report) {
	n := 0
	for _, fn := range p.FnsInPkg(pkgEval) {
		core.Instrs(fn, func(ins ssa.Instruction) {
			c, ok := ins.(*ssa.Call)
			if !ok {
				return
			}
			callee := c.Call.StaticCallee()
			if callee == nil {
				return
			}
			name := callee.String()
			if name != "os.Pipe" && name != "os.OpenFile" && name != "os.Open" && name != "os.Create" {
				return
			}
			n++
			fk := core.FnKey(fn)
			construct := fk + " " + name
			switch {
			case fk == "eval.getDevNull":
				r.Audit("OPEN-OWNED", construct, p.InsPos(ins), "process-lifetime handle to the null device, opened once at package initialisation")
			case name == "os.OpenFile":
				// the redirection case: handled in detail by runOpenOwnedRedir
				checkOpenFileOwned(p, r, "OPEN-OWNED", fn, c)
			case name == "os.Pipe":
				// both ends must be closed here (incl. closures), or stored into Ports with ownership recorded
				// the pipe may be made by a helper extracted from the function
				// that records the ownership (newPipelinePipe): look at the
				// helper and at the functions all its call sites lie in
				chain := uniqueCallerChain(p, fn)
				var owned []ssa.Instruction
				for _, cf := range chain {
					owned = append(owned, fopFileTrueStores(cf)...)
				}
				var closes int
				var scan func(f *ssa.Function)
				scan = func(f *ssa.Function) {
					core.Instrs(f, func(x ssa.Instruction) {
						if cc, ok := x.(ssa.CallInstruction); ok {
							if ce := cc.Common().StaticCallee(); ce != nil && ce.String() == "(*os.File).Close" {
								closes++
							}
						}
					})
					for _, a := range f.AnonFuncs {
						scan(a)
					}
				}
				for _, cf := range chain {
					scan(cf)
				}
				switch {
				case closes >= 2:
					r.OK("OPEN-OWNED", construct, p.InsPos(ins), "both pipe ends are closed by this function, its goroutines or the cleanup function it returns")
				case len(owned) >= 2:
					r.OK("OPEN-OWNED", construct, p.InsPos(ins), "both pipe ends are stored in ports whose formOwnedPort.File is set, so the per-form epilogue closes them")
				default:
					r.Bad("OPEN-OWNED", construct, p.InsPos(ins), "a pipe end opened here is neither closed nor recorded as owned by a form: its descriptor leaks")
				}
			default:
				r.Bad("OPEN-OWNED", construct, p.InsPos(ins), "the evaluator opens a file that is not covered by an ownership idiom")
			}
		})
	}
	r.Count("OPEN-OWNED file-opening call sites in pkg/eval", n)
}

// checkOpenFileOwned: on every path from the success edge of OpenFile to a
// normal return, a store formOwnedPort.File = true occurs.
func checkOpenFileOwned(p *core.Program, r *core.Report, rule string, fn *ssa.Function, c *ssa.Call) {
	construct := core.FnKey(fn) + " os.OpenFile result owned by the form"
	owned := fopFileTrueStores(fn)
	isOwn := func(x ssa.Instruction) bool {
		for _, o := range owned {
			if o == x {
				return true
			}
		}
		return false
	}
	// failure blocks: dominated by err != nil
	stop := func(x ssa.Instruction) bool {
		return inErrBranch(fn, c, 1, x.Block())
	}
	ok, exit := core.MustPass(c, isOwn, stop)
	if ok && len(owned) > 0 {
		r.OK(rule, construct, p.InsPos(c), "every successful path sets the slot's formOwnedPort.File, so the form's epilogue closes the file")
	} else {
		where := p.InsPos(c)
		if exit != nil {
			where = p.InsPos(exit)
		}
		r.Bad(rule, construct, where, "a file opened for a redirection is not recorded as owned by the form on some successful path: it is never closed when the form finishes (descriptor leak; data may stay unflushed to readers)")
	}
}

// inErrBranch: blk is dominated by the `err != nil` edge of call's error result.
func inErrBranch(fn *ssa.Function, call *ssa.Call, errIdx int, blk *ssa.BasicBlock) bool {
	for _, b := range fn.Blocks {
		if len(b.Instrs) == 0 {
			continue
		}
		iff, ok := b.Instrs[len(b.Instrs)-1].(*ssa.If)
		if !ok {
			continue
		}
		cmp, ok := iff.Cond.(*ssa.BinOp)
		if !ok || (cmp.Op != token.NEQ && cmp.Op != token.EQL) {
			continue
		}
		ex, ok := throughCell(cmp.X).(*ssa.Extract)
		if !ok || ex.Tuple != ssa.Value(call) || ex.Index != errIdx {
			continue
		}
		edge := core.EdgeTo(b, blk)
		if (cmp.Op == token.NEQ && edge == 0) || (cmp.Op == token.EQL && edge == 1) {
			return true
		}
	}
	return false
}

func runOpenOwnedRedir(p *core.Program, r *core.Report, rule string) {
	exec := p.Method(pkgEval, "redirOp", "exec")
	if !r.Anchor(rule, "(*eval.redirOp).exec", exec != nil) {
		return
	}
	found := false
	for _, fn := range redirFamily(p) {
		fn := fn
		core.Instrs(fn, func(ins ssa.Instruction) {
			if c, ok := ins.(*ssa.Call); ok {
				if callee := c.Call.StaticCallee(); callee != nil && callee.String() == "os.OpenFile" {
					found = true
					checkOpenFileOwned(p, r, rule, fn, c)
				}
			}
		})
	}
	r.Anchor(rule, "os.OpenFile in redirOp.exec", found)
}

var cleanupReturning = map[string]int{ // function -> index of the cleanup result
	"PipePort": 1, "CapturePort": 1, "ValueCapturePort": 1, "StringCapturePort": 1, "FilePort": 1, "PortsFromFiles": 1, "PortsFromStdFiles": 1,
}

func runCleanupCalled(p *core.Program, r *core.Report) {
	n := 0
	for _, fn := range p.RepoFns {
		core.Instrs(fn, func(ins ssa.Instruction) {
			c, ok := ins.(*ssa.Call)
			if !ok {
				return
			}
			callee := c.Call.StaticCallee()
			if callee == nil || core.PkgPathOf(callee) != pkgEval || callee.Signature.Recv() != nil {
				return
			}
			idx, ok := cleanupReturning[callee.Name()]
			if !ok {
				return
			}
			n++
			construct := core.FnKey(fn) + " cleanup returned by " + callee.Name()
			// the cleanup value
			var cleanup ssa.Value
			for _, ref := range *c.Referrers() {
				if ex, ok := ref.(*ssa.Extract); ok && ex.Index == idx {
					cleanup = ex
				}
			}
			if cleanup == nil {
				r.Bad("CLEANUP-CALLED", construct, p.InsPos(ins), "the cleanup function is discarded: the port's goroutines/descriptors are never released")
				return
			}
			// aliases through a local cell (captured by a closure)
			vals := map[ssa.Value]bool{cleanup: true}
			var cells []*ssa.Alloc
			for _, ref := range *cleanup.Referrers() {
				if st, ok := ref.(*ssa.Store); ok && st.Val == cleanup {
					if cell, ok := st.Addr.(*ssa.Alloc); ok {
						cells = append(cells, cell)
					}
				}
			}
			isCleanupVal := func(v ssa.Value) bool {
				if vals[v] {
					return true
				}
				if addr, ok := core.IsLoad(v); ok {
					for _, cell := range cells {
						if addr == ssa.Value(cell) {
							return true
						}
					}
				}
				return false
			}
			returned := false
			deferred := false
			var calls []ssa.Instruction
			var scan func(f *ssa.Function, top bool)
			scan = func(f *ssa.Function, top bool) {
				core.Instrs(f, func(x ssa.Instruction) {
					switch y := x.(type) {
					case *ssa.Return:
						for _, res := range y.Results {
							if isCleanupVal(res) {
								returned = true
							}
						}
					case *ssa.Defer:
						if isCleanupVal(y.Call.Value) && top {
							deferred = true
							calls = append(calls, x)
						}
					case *ssa.Call:
						if isCleanupVal(y.Call.Value) && top {
							calls = append(calls, x)
						}
					case *ssa.MakeClosure:
						// handed to a closure that is returned (cleanup wrapper)
						for _, b := range y.Bindings {
							if isCleanupVal(b) || isCellOf(b, cells) {
								if closureCallsFree(y.Fn.(*ssa.Function)) {
									for _, ref := range *y.Referrers() {
										if _, isRet := ref.(*ssa.Return); isRet {
											returned = true
										}
										if d, isDef := ref.(*ssa.Defer); isDef && d.Call.Value == ssa.Value(y) {
											deferred = true
											calls = append(calls, ref)
										}
										if st, isSt := ref.(*ssa.Store); isSt {
											_ = st
											returned = true // stored for a later call by the owner (e.g. a field of a returned struct)
										}
									}
								}
							}
						}
					}
				})
			}
			scan(fn, true)
			if returned {
				r.OK("CLEANUP-CALLED", construct, p.InsPos(ins), "the cleanup function is handed on to this function's caller")
				return
			}
			if len(calls) == 0 {
				r.Bad("CLEANUP-CALLED", construct, p.InsPos(ins), "the cleanup function is never called: the capture goroutines and pipe descriptors outlive the evaluation")
				return
			}
			isCall := func(x ssa.Instruction) bool {
				for _, k := range calls {
					if k == x {
						return true
					}
				}
				return false
			}
			hasErr := callee.Signature.Results().Len() == 3
			stop := func(x ssa.Instruction) bool { return hasErr && inErrBranch(fn, c, 2, x.Block()) }
			ok2, exit := core.MustPass(c, isCall, stop)
			_ = deferred
			if ok2 {
				r.OK("CLEANUP-CALLED", construct, p.InsPos(ins), "called (or deferred) on every path from the success edge to a return")
			} else {
				r.Bad("CLEANUP-CALLED", construct, p.InsPos(exit), "a path returns without calling the cleanup function: the goroutines and descriptors of the capture port are left behind")
			}
		})
	}
	r.Count("CLEANUP-CALLED call sites of cleanup-returning constructors", n)
}

func isCellOf(v ssa.Value, cells []*ssa.Alloc) bool {
	for _, c := range cells {
		if v == ssa.Value(c) {
			return true
		}
	}
	return false
}

// closureCallsFree: the closure calls one of its free variables (or a load of one).
func closureCallsFree(f *ssa.Function) bool {
	found := false
	core.Instrs(f, func(x ssa.Instruction) {
		if c, ok := x.(ssa.CallInstruction); ok {
			v := c.Common().Value
			if _, ok := v.(*ssa.FreeVar); ok {
				found = true
			}
			if addr, ok := core.IsLoad(v); ok {
				if _, ok := addr.(*ssa.FreeVar); ok {
					found = true
				}
			}
		}
	})
	return found
}

// runReplaceCloses: in redirOp.exec every store into the destination slot is
// preceded by the closing of the old port.
func runReplaceCloses(p *core.Program, r *core.Report, rule string) {
	fam := redirFamily(p)
	if !r.Anchor(rule, "(*eval.redirOp).exec", len(fam) > 0) {
		return
	}
	n := 0
	nslot := 0
	for _, fn := range fam {
		// the destination slot in this function: the result of
		// growAccess(&fm.ports, dst), or a **Port parameter handed down
		var slots []ssa.Value
		isSlotType := func(t types.Type) bool {
			pp, ok := t.(*types.Pointer)
			if !ok {
				return false
			}
			ptr, ok := pp.Elem().(*types.Pointer)
			return ok && core.IsNamed(ptr.Elem(), pkgEval, "Port")
		}
		core.Instrs(fn, func(ins ssa.Instruction) {
			if c, ok := ins.(*ssa.Call); ok {
				if callee := c.Call.StaticCallee(); callee != nil && core.Origin(callee).Name() == "growAccess" && isSlotType(c.Type()) {
					slots = append(slots, c)
				}
			}
			// the slot kept in a field of a struct that describes the
			// destination (handed down by value or by pointer)
			if v, ok := ins.(ssa.Value); ok && isSlotType(v.Type()) {
				switch x := ins.(type) {
				case *ssa.Field:
					slots = append(slots, v)
				case *ssa.UnOp:
					if _, isFA := x.X.(*ssa.FieldAddr); isFA && x.Op == token.MUL {
						slots = append(slots, v)
					}
				}
			}
		})
		for _, prm := range fn.Params {
			if isSlotType(prm.Type()) {
				slots = append(slots, prm)
			}
		}
		for _, fv := range fn.FreeVars {
			if pt, ok := fv.Type().(*types.Pointer); ok && isSlotType(pt.Elem()) {
				// a closure over the slot variable: its stores go through a load of the cell
				slots = append(slots, fv)
			}
		}
		if len(slots) == 0 {
			continue
		}
		nslot++
		// closing instructions: direct fop.close calls, or calls of a closure
		// or helper that does it
		var closers []ssa.Instruction
		core.Instrs(fn, func(ins ssa.Instruction) {
			c, ok := ins.(ssa.CallInstruction)
			if !ok {
				return
			}
			if callee := c.Common().StaticCallee(); callee != nil {
				if core.IsFunc(callee, pkgEval, "formOwnedPort", "close") || (core.PkgPathOf(callee) == pkgEval && closesOwnedPort(callee)) {
					closers = append(closers, ins)
				}
				return
			}
			if cf, ok := closureOf(c.Common().Value); ok && closesOwnedPort(cf) {
				closers = append(closers, ins)
			}
		})
		isSlot := func(addr ssa.Value) bool {
			addr = throughCellAddr(addr)
			for _, s := range slots {
				if addr == s {
					return true
				}
			}
			return false
		}
		core.Instrs(fn, func(ins ssa.Instruction) {
			st, ok := ins.(*ssa.Store)
			if !ok || !isSlot(st.Addr) {
				return
			}
			n++
			construct := core.FnKey(fn) + " old destination port closed before it is replaced"
			okPre := false
			for _, cl := range closers {
				if core.Precedes(cl, st) {
					okPre = true
				}
			}
			// the old port may have been released by the caller just before
			// it called this function (target.releaseOldDst(...); return
			// op.execValueSource(fm, target))
			if !okPre {
				nsites, covered := 0, 0
				for _, g := range fam {
					var gClosers, gSites []ssa.Instruction
					core.Instrs(g, func(x ssa.Instruction) {
						c, ok := x.(ssa.CallInstruction)
						if !ok {
							return
						}
						callee := c.Common().StaticCallee()
						if callee == nil {
							return
						}
						if callee == fn {
							gSites = append(gSites, x)
						}
						if core.IsFunc(callee, pkgEval, "formOwnedPort", "close") || (core.PkgPathOf(callee) == pkgEval && closesOwnedPort(callee)) {
							gClosers = append(gClosers, x)
						}
					})
					for _, site := range gSites {
						nsites++
						for _, cl := range gClosers {
							if core.Precedes(cl, site) {
								covered++
								break
							}
						}
					}
				}
				if nsites > 0 && covered == nsites {
					okPre = true
				}
			}
			if okPre {
				r.OK(rule, construct+" #"+itoa(n), p.InsPos(ins), "a close of the old port dominates this store")
			} else {
				r.Bad(rule, construct+" #"+itoa(n), p.InsPos(ins), "the destination slot is overwritten on a path where the port it held was not closed first: a file or pipe end owned by the form leaks (and a downstream reader never sees end of input)")
			}
		})
	}
	if !r.Anchor(rule, "growAccess(&fm.ports, dst) in redirOp.exec", nslot > 0) {
		return
	}
	r.Anchor(rule, "stores into the destination slot", n >= 2)
}

// throughCellAddr resolves an address that is a load of a captured cell
// holding a pointer (dstPort captured by the closeOldDst closure).
func throughCellAddr(v ssa.Value) ssa.Value {
	return throughCell(v)
}

// runDupSelf: `*dstPort = fm.ports[src]` must be guarded by src != dst.
func runDupSelf(p *core.Program, r *core.Report) {
	exec := p.Method(pkgEval, "redirOp", "exec")
	if !r.Anchor("DUP-SELF", "(*eval.redirOp).exec", exec != nil) {
		return
	}
	found := false
	for _, famFn := range redirFamily(p) {
		exec := famFn
		core.Instrs(exec, func(ins ssa.Instruction) {
			st, ok := ins.(*ssa.Store)
			if !ok {
				return
			}
			ld, ok := st.Val.(*ssa.UnOp)
			if !ok || ld.Op != token.MUL {
				return
			}
			ia, ok := ld.X.(*ssa.IndexAddr)
			if !ok || !strings.HasSuffix(exprKey(ia.X), ".ports") {
				return
			}
			found = true
			src := ia.Index
			// a dominating test `src == dst` (false edge) or `src != dst` (true edge), dst being the redirection's destination fd
			okGuard := false
			for _, b := range exec.Blocks {
				if len(b.Instrs) == 0 {
					continue
				}
				iff, ok := b.Instrs[len(b.Instrs)-1].(*ssa.If)
				if !ok {
					continue
				}
				conds := []ssa.Value{iff.Cond}
				if phi, ok := iff.Cond.(*ssa.Phi); ok {
					// `src == dst && *dstPort != nil` evaluated as a value
					conds = append(conds, phi.Edges...)
				}
				edge := core.EdgeTo(b, st.Block())
				for _, cnd := range conds {
					cmp, ok := cnd.(*ssa.BinOp)
					if !ok || (cmp.Op != token.EQL && cmp.Op != token.NEQ) {
						continue
					}
					if !(cmp.X == src || cmp.Y == src) {
						continue
					}
					other := cmp.X
					if other == src {
						other = cmp.Y
					}
					if !isIntType(other.Type()) {
						continue
					}
					if _, isConst := other.(*ssa.Const); isConst {
						continue
					}
					if (cmp.Op == token.EQL && edge == 1) || (cmp.Op == token.NEQ && edge == 0) {
						okGuard = true
					}
				}
			}
			// threaded `if src == dst && p != nil { return }`
			for _, m := range exec.Blocks {
				if m.Dominates(st.Block()) {
					if a, _, ok := threadedAndFalse(m); ok {
						if cmp, ok := a.(*ssa.BinOp); ok && cmp.Op == token.EQL && (cmp.X == src || cmp.Y == src) {
							okGuard = true
						}
					}
				}
			}
			construct := "(*eval.redirOp).exec n>&m duplicates a port other than the one just closed"
			if okGuard {
				r.OK("DUP-SELF", construct, p.InsPos(ins), "the duplication is reached only when the source fd differs from the destination fd (or the destination slot was empty)")
			} else {
				r.Bad("DUP-SELF", construct, p.InsPos(ins), "n>&n closes port n and then installs that same closed port: later value output panics with 'send on closed channel' and byte output fails with 'file already closed'")
			}
		})
	}
	r.Anchor("DUP-SELF", "store of fm.ports[src] into the destination slot", found)
}

// runRedirFlags evaluates makeFlag's constant table.
func runRedirFlags(p *core.Program, r *core.Report) {
	mk := p.Func(pkgEval, "makeFlag")
	if !r.Anchor("FLAGS", "eval.makeFlag", mk != nil) {
		return
	}
	osPkg := p.SSA.ImportedPackage("os")
	if !r.Anchor("FLAGS", "package os", osPkg != nil) {
		return
	}
	oc := func(name string) int64 {
		if c, ok := osPkg.Members[name].(*ssa.NamedConst); ok {
			n, _ := constant.Int64Val(c.Value.Value)
			return n
		}
		return -1
	}
	RD, WR, RW, AP, CR, TR := oc("O_RDONLY"), oc("O_WRONLY"), oc("O_RDWR"), oc("O_APPEND"), oc("O_CREATE"), oc("O_TRUNC")
	acc := RD | WR | RW
	// mode constants of the parser
	modes := map[int64]string{}
	pp := p.ByPath[pkgParse]
	if pp != nil {
		for _, name := range pp.Types.Scope().Names() {
			if c, ok := pp.Types.Scope().Lookup(name).(*types.Const); ok {
				if n, ok := c.Type().(*types.Named); ok && n.Obj().Name() == "RedirMode" {
					v, _ := constant.Int64Val(c.Val())
					modes[v] = name
				}
			}
		}
	}
	if !r.Anchor("FLAGS", "parse.RedirMode constants", len(modes) >= 4) {
		return
	}
	// table: mode value -> returned flag, read from the CFG
	table := map[int64]int64{}
	for _, b := range mk.Blocks {
		if len(b.Instrs) == 0 {
			continue
		}
		iff, ok := b.Instrs[len(b.Instrs)-1].(*ssa.If)
		if !ok {
			continue
		}
		cmp, ok := iff.Cond.(*ssa.BinOp)
		if !ok || cmp.Op != token.EQL {
			continue
		}
		mv, ok := constInt(cmp.Y)
		if !ok {
			continue
		}
		for _, x := range b.Succs[0].Instrs {
			if ret, ok := x.(*ssa.Return); ok && len(ret.Results) == 1 {
				if fv, ok := constInt(ret.Results[0]); ok {
					table[mv] = fv
				}
			}
		}
	}
	var keys []int64
	for k := range modes {
		keys = append(keys, k)
	}
	sort.Slice(keys, func(i, j int) bool { return keys[i] < keys[j] })
	for _, mv := range keys {
		name := modes[mv]
		construct := "eval.makeFlag flags for parse." + name
		fl, has := table[mv]
		if name == "BadRedirMode" {
			continue
		}
		if !has {
			r.Bad("FLAGS", construct, p.Pos(mk.Pos()), "the redirection mode has no case in makeFlag")
			continue
		}
		need, forbid := int64(0), int64(0)
		wantAcc := int64(0)
		switch name {
		case "Read":
			wantAcc, forbid = RD, CR|TR|AP
		case "Write":
			wantAcc, need, forbid = WR, CR|TR, AP
		case "Append":
			wantAcc, need, forbid = WR, CR|AP, TR
		case "ReadWrite":
			wantAcc, need, forbid = RW, CR, TR|AP
		default:
			r.Bad("FLAGS", construct, p.Pos(mk.Pos()), "unknown redirection mode in the parser's enumeration: the flag specification must be extended")
			continue
		}
		switch {
		case fl&acc != wantAcc:
			r.Bad("FLAGS", construct, p.Pos(mk.Pos()), "wrong access mode in the open flags")
		case fl&need != need:
			r.Bad("FLAGS", construct, p.Pos(mk.Pos()), "a required open flag is missing (O_CREATE/O_TRUNC/O_APPEND as the mode demands)")
		case fl&forbid != 0:
			r.Bad("FLAGS", construct, p.Pos(mk.Pos()), "a forbidden open flag is set (truncating where the mode must not truncate, or appending where it must overwrite)")
		default:
			r.OK("FLAGS", construct, p.Pos(mk.Pos()), "constant evaluated from the source matches the specification of the mode")
		}
	}
	r.OK("FLAGS", "eval.makeFlag covers every RedirMode", p.Pos(mk.Pos()), "checked "+itoa(len(keys))+" enumeration constants")
}
