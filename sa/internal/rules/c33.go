package rules

import (
	"go/token"
	"go/types"
	"strings"

	"golang.org/x/tools/go/ssa"

	"verif/sa/internal/core"
)

func init() {
	register(&core.Spec{
		ID: "C33",
		Explanation: "Decides the normal-form clause of C33 as a constructor discipline inside pkg/ui: (NF-BUILDER) a styled Text may be assembled by hand (composite literal, make, append, slice conversion) only inside the normalising API - TextBuilder's methods, TextFromSegment and the variadic Concat - or as a single-segment literal whose text is known non-empty from a dominating check; every other hand-assembly site is either audited with the reason why it preserves normal form, or reported. Today's tree has one reported site, StyleText (restyling can make neighbouring segments equal; the existing unit test pins that output, so it is recorded as a known finding rather than repaired). Content equalities (partitions/splits concatenate back) and the styledown round trip are not decided.",
		NotCovered:  "plain content of the results; styledown render/parse round trip (a text with a zero-width character is derendered to styledown that the renderer rejects - observed, outside the reach of these rules); Text values assembled outside pkg/ui other than by element stores",
		Rules:       []string{"NF-BUILDER: who may assemble a ui.Text by hand", "BUILDER-FRESH: TextBuilder.Text returns nil or freshly allocated storage, never the builder's own array", "SLICE-NONEMPTY: a two-bound slice of a styled text is returned only when its bounds differ (an empty text is nil)", "TEXT-ELEM-STORE: outside pkg/ui no segment of a styled text is replaced in place"},
		Patterns:    []string{"./pkg/ui/...", "./pkg/eval"},
		Run:         func(p *core.Program, r *core.Report) { runC33(p, r); runBuilderFresh(p, r); runSliceNonEmpty(p, r); runTextElemStore(p, r) },
		MinCounts:   map[string]int{"NF-BUILDER": 6, "BUILDER-FRESH": 1, "SLICE-NONEMPTY": 1, "TEXT-ELEM-STORE": 1},
		Trusted:     append([]string{"the normalising API itself (TextBuilder, TextFromSegment, Concat) is the trusted base of this rule"}, trustedBase...),
		Controls: []core.Control{
			{Name: "revert-fix-styled-function-stores-segments", Rule: "TEXT-ELEM-STORE", File: "pkg/eval/builtin_fn_styled.go", Old: "\t\t\t\t\ttb.WriteText(ui.TextFromSegment(styledSegment))\n", New: "\t\t\t\t\ttb.WriteText(ui.TextFromSegment(styledSegment))\n\t\t\t\t\ttext[0] = styledSegment\n", Fire: true, Want: "styled", Quick: true},
			{Name: "revert-fix-empty-slice-of-text", Rule: "SLICE-NONEMPTY", File: "pkg/ui/text.go", Old: "\t\tif index.Lower == index.Upper {\n\t\t\t// An empty text is always nil.\n\t\t\treturn Text(nil), nil\n\t\t}\n", New: "", Fire: true, Want: "Index"},
			{Name: "builder-hands-out-its-own-array", Rule: "BUILDER-FRESH", File: "pkg/ui/text_builder.go", Old: "\tt := append(Text(nil), tb.segs...)\n\treturn append(t, &Segment{tb.style, tb.text.String()})", New: "\treturn append(tb.segs, &Segment{tb.style, tb.text.String()})", Fire: true, Want: "TextBuilder"},
			{Name: "benign-builder-copies-with-make", Rule: "BUILDER-FRESH", File: "pkg/ui/text_builder.go", Old: "\tt := append(Text(nil), tb.segs...)\n\treturn append(t, &Segment{tb.style, tb.text.String()})", New: "\tt := make(Text, len(tb.segs), len(tb.segs)+1)\n\tcopy(t, tb.segs)\n\treturn append(t, &Segment{tb.style, tb.text.String()})", Fire: false},
			{Name: "revert-fix-segment-concat-by-hand", Rule: "NF-BUILDER", File: "pkg/ui/text_segment.go", Old: "\t\treturn Concat(TextFromSegment(s), T(rhs)), nil\n\tcase *Segment:", New: "\t\treturn Text{s, &Segment{Text: rhs}}, nil\n\tcase *Segment:", Fire: true, Want: "Concat", Quick: true},
			{Name: "revert-fix-trimwcwidth-empty-segment", Rule: "NF-BUILDER", File: "pkg/ui/text.go", Old: "\t\t\tif trimmed := wcwidth.Trim(seg.Text, wmax); trimmed != \"\" {\n\t\t\t\tnewt = append(newt, &Segment{seg.Style, trimmed})\n\t\t\t}", New: "\t\t\tnewt = append(newt,\n\t\t\t\t&Segment{seg.Style, wcwidth.Trim(seg.Text, wmax)})", Fire: true, Want: "TrimWcwidth", Quick: true},
			{Name: "revert-fix-text-plus-segment", Rule: "NF-BUILDER", File: "pkg/ui/text.go", Old: "return Concat(t, TextFromSegment(rhs)), nil", New: "return Concat(t, Text{rhs}), nil", Fire: true, Want: "Concat"},
			{Name: "t-without-empty-check", Rule: "NF-BUILDER", File: "pkg/ui/text.go", Old: "\tif s == \"\" {\n\t\treturn nil\n\t}\n\treturn StyleText(Text{&Segment{Text: s}}, ts...)", New: "\treturn StyleText(Text{&Segment{Text: s}}, ts...)", Fire: true, Want: "ui.T"},
		},
	})
}

// nfAudit: hand-assembly sites that preserve normal form for a reason the
// rule cannot see. Key: function + kind of construction.
var nfAudit = map[string]string{
	"(ui.Text).Partition append":    "splits a normal text at byte offsets: consecutive pieces of one normal text, cut strictly inside a segment (toConsume > 0 and < len), so no piece is empty and neighbours keep distinct styles",
	"(ui.Text).Partition make":      "allocates the result slice of Texts' elements; filled by the appends audited above",
	"(ui.Text).Clone make":          "deep copy of a non-empty normal text, segment by segment (empty text returns nil first)",
	"(ui.Text).TrimWcwidth append":  "a prefix of a normal text; the last, trimmed segment is appended only when non-empty (checked by the rule below) and keeps its style, which differs from its predecessor's as in the input",
	"(ui.Text).SplitByRune append":  "appends whole Texts produced by TextBuilder/TextFromSegment to a []Text; no segment list is assembled",
}

func isUIText(t types.Type) bool {
	n, ok := t.(*types.Named)
	return ok && n.Obj().Name() == "Text" && n.Obj().Pkg() != nil && n.Obj().Pkg().Path() == pkgUI
}

func runC33(p *core.Program, r *core.Report) {
	normalising := func(fn *ssa.Function) bool {
		fk := core.FnKey(core.Outer(fn))
		return strings.HasPrefix(fk, "(*ui.TextBuilder).") || fk == "ui.TextFromSegment" || fk == "ui.Concat"
	}
	for _, fn := range p.FnsInPkg(pkgUI) {
		fk := core.FnKey(uniqueCallerRoot(p, fn, 0))
		core.Instrs(fn, func(ins ssa.Instruction) {
			kind := ""
			var nElems int = -1
			var val ssa.Value
			switch x := ins.(type) {
			case *ssa.MakeSlice:
				if isUIText(x.Type()) {
					kind, val = "make", x
				}
			case *ssa.Slice:
				// composite literal: slice of a fresh array, typed Text
				if isUIText(x.Type()) {
					if a, ok := x.X.(*ssa.Alloc); ok {
						if arr, ok := a.Type().Underlying().(*types.Pointer).Elem().Underlying().(*types.Array); ok {
							kind, nElems, val = "literal", int(arr.Len()), x
						}
					}
				}
			case *ssa.ChangeType:
				if isUIText(x.Type()) && !isUIText(x.X.Type()) {
					kind, val = "conversion", x
				}
			case *ssa.Call:
				if b, ok := x.Call.Value.(*ssa.Builtin); ok && b.Name() == "append" && isUIText(x.Type()) {
					// append(Text(nil), existing...) copies an existing Text wholesale
					kind, val = "append", x
				}
			}
			if kind == "" {
				return
			}
			_ = val
			construct := fk + " " + kind
			pos := p.InsPos(ins)
			if normalising(fn) {
				r.OK("NF-BUILDER", construct, pos, "inside the normalising API")
				return
			}
			if kind == "literal" && nElems == 1 {
				if why := singleNonEmpty(ins.(*ssa.Slice)); why != "" {
					r.OK("NF-BUILDER", construct+" (single segment)", pos, why)
					return
				}
				r.Bad("NF-BUILDER", construct+" (single segment)", pos, "a one-segment Text is built from a segment whose text is not known to be non-empty: an empty string produces a Text with an empty segment instead of nil")
				return
			}
			if kind == "literal" && nElems == 0 {
				r.Bad("NF-BUILDER", construct+" (empty)", pos, "an empty non-nil Text is built; the normal form of empty text is nil")
				return
			}
			if why, ok := nfAudit[construct]; ok {
				// TrimWcwidth: the appended fresh segment must be guarded non-empty
				if strings.Contains(construct, "TrimWcwidth") && !trimGuarded(fn) {
					r.Bad("NF-BUILDER", construct, pos, "the trimmed segment is appended without checking that it is non-empty: trimming to width 0 (or to less than the first wide character) yields a Text with an empty segment")
					return
				}
				r.Audit("NF-BUILDER", construct, pos, why)
				return
			}
			r.Bad("NF-BUILDER", construct, pos, "a Text is assembled by hand outside the normalising API (TextBuilder / TextFromSegment / Concat): nothing merges neighbouring segments of equal style or drops empty segments here")
		})
	}
}

// singleNonEmpty: the only element of the literal is a fresh Segment whose
// Text is a string dominated by a `s == ""` check (false edge), or an
// existing segment pointer guarded by `seg.Text == ""`.
func singleNonEmpty(sl *ssa.Slice) string {
	arr := sl.X.(*ssa.Alloc)
	var elem ssa.Value
	for _, ref := range *arr.Referrers() {
		if ia, ok := ref.(*ssa.IndexAddr); ok {
			for _, r2 := range *ia.Referrers() {
				if st, ok := r2.(*ssa.Store); ok && st.Addr == ia {
					elem = st.Val
				}
			}
		}
	}
	if elem == nil {
		return ""
	}
	fn := sl.Parent()
	guarded := func(isText func(v ssa.Value) bool) bool {
		for _, b := range fn.Blocks {
			if len(b.Instrs) == 0 {
				continue
			}
			iff, ok := b.Instrs[len(b.Instrs)-1].(*ssa.If)
			if !ok {
				continue
			}
			cmp, ok := iff.Cond.(*ssa.BinOp)
			if !ok || (cmp.Op != token.EQL && cmp.Op != token.NEQ) {
				continue
			}
			k, isC := cmp.Y.(*ssa.Const)
			if !isC || k.Value == nil || k.Value.ExactString() != `""` || !isText(cmp.X) {
				continue
			}
			edge := core.EdgeTo(b, sl.Block())
			if (cmp.Op == token.EQL && edge == 1) || (cmp.Op == token.NEQ && edge == 0) {
				return true
			}
		}
		return false
	}
	switch e := elem.(type) {
	case *ssa.Alloc:
		// &Segment{Text: s}: find the value stored into .Text
		var txt ssa.Value
		for _, ref := range *e.Referrers() {
			if fa, ok := ref.(*ssa.FieldAddr); ok {
				if _, f := core.FieldName(fa); f == "Text" {
					for _, r2 := range *fa.Referrers() {
						if st, ok := r2.(*ssa.Store); ok && st.Addr == fa {
							txt = st.Val
						}
					}
				}
			}
		}
		if txt != nil && guarded(func(v ssa.Value) bool { return v == txt }) {
			return "the segment's text is checked against \"\" on every path reaching the literal"
		}
	default:
		// an existing *Segment: guarded by seg.Text == ""
		if guarded(func(v ssa.Value) bool {
			if addr, ok := core.IsLoad(v); ok {
				if fa, ok := addr.(*ssa.FieldAddr); ok {
					_, f := core.FieldName(fa)
					return f == "Text" && fa.X == elem
				}
			}
			return false
		}) {
			return "the existing segment's Text is checked against \"\" on every path reaching the literal"
		}
	}
	return ""
}

// trimGuarded: in TrimWcwidth every append of a freshly built Segment is
// dominated by a non-empty check of the text stored in it.
func trimGuarded(fn *ssa.Function) bool {
	ok := true
	found := false
	core.Instrs(fn, func(ins ssa.Instruction) {
		a, isAlloc := ins.(*ssa.Alloc)
		if !isAlloc || !core.IsNamed(a.Type(), pkgUI, "Segment") {
			return
		}
		found = true
		var txt ssa.Value
		for _, ref := range *a.Referrers() {
			if fa, ok := ref.(*ssa.FieldAddr); ok {
				if _, f := core.FieldName(fa); f == "Text" {
					for _, r2 := range *fa.Referrers() {
						if st, ok := r2.(*ssa.Store); ok && st.Addr == fa {
							txt = st.Val
						}
					}
				}
			}
		}
		g := false
		for _, b := range fn.Blocks {
			if len(b.Instrs) == 0 {
				continue
			}
			iff, isIf := b.Instrs[len(b.Instrs)-1].(*ssa.If)
			if !isIf {
				continue
			}
			cmp, isCmp := iff.Cond.(*ssa.BinOp)
			if !isCmp || cmp.X != txt {
				continue
			}
			edge := core.EdgeTo(b, a.Block())
			if (cmp.Op == token.NEQ && edge == 0) || (cmp.Op == token.EQL && edge == 1) {
				g = true
			}
		}
		if !g {
			ok = false
		}
	})
	return ok || !found
}
