// Package rules instantiates the engines per property: anchors, accepted
// idioms, audit tables and controls.
package rules

import (
	"sort"

	"verif/sa/internal/core"
)

var specs = map[string]*core.Spec{}

func register(s *core.Spec) {
	if len(s.Patterns) == 0 {
		s.Patterns = []string{"./..."}
	}
	specs[s.ID] = s
}

// Get returns the spec of a property, or nil.
func Get(id string) *core.Spec { return specs[id] }

// IDs lists the properties that have a static check.
func IDs() []string {
	var ids []string
	for id := range specs {
		ids = append(ids, id)
	}
	sort.Strings(ids)
	return ids
}

const (
	pkgEval    = "src.elv.sh/pkg/eval"
	pkgVals    = "src.elv.sh/pkg/eval/vals"
	pkgVars    = "src.elv.sh/pkg/eval/vars"
	pkgParse   = "src.elv.sh/pkg/parse"
	pkgVector  = "src.elv.sh/pkg/persistent/vector"
	pkgHashmap = "src.elv.sh/pkg/persistent/hashmap"
	pkgUI      = "src.elv.sh/pkg/ui"
	pkgStore   = "src.elv.sh/pkg/store"
	pkgDaemon  = "src.elv.sh/pkg/daemon"
	pkgCLI     = "src.elv.sh/pkg/cli"
	pkgTerm    = "src.elv.sh/pkg/cli/term"
	pkgHL      = "src.elv.sh/pkg/edit/highlight"
	pkgEdit    = "src.elv.sh/pkg/edit"
	pkgDiag    = "src.elv.sh/pkg/diag"
	pkgMath    = "src.elv.sh/pkg/mods/math"
)

var trustedBase = []string{"go/packages + go/types (type-checked program)", "go/ssa builder and dominator tree (x/tools v0.29.0)"}
