package rules

import (
	"go/token"
	"go/types"
	"strings"

	"golang.org/x/tools/go/ssa"

	"verif/sa/internal/core"
)

const pkgElvRPC = "src.elv.sh/pkg/rpc"

// runReplyFresh (C26 REPLY-FRESH): requests of one daemon are served
// concurrently, each by its own goroutine. The argument and reply objects of
// a request therefore belong to that request alone: in the function of
// pkg/rpc that reads a request, the reflect.Value results handed on to the
// service call are made by reflect.New in that very call (or are the zero
// Value on error paths) - not taken from a pool, a field or a cache. Two
// in-flight requests that share a reply object answer each other's question:
// Cmd(9) returns the text of command 13, which no sequential order explains.
func runReplyFresh(p *core.Program, r *core.Report) {
	const rule = "REPLY-FRESH"
	read := p.Method(pkgElvRPC, "Server", "readRequest")
	if !r.Anchor(rule, "(*rpc.Server).readRequest", read != nil && read.Blocks != nil) {
		return
	}
	isReflectValue := func(t types.Type) bool {
		return core.IsNamed(t, "reflect", "Value")
	}
	// every reflect.Value result at every return: walk through phis to the
	// values that can arrive there
	n := 0
	seenLeaf := map[ssa.Value]bool{}
	var leaves func(v ssa.Value, idx int)
	leaves = func(v ssa.Value, idx int) {
		if seenLeaf[v] {
			return
		}
		seenLeaf[v] = true
		if phi, ok := v.(*ssa.Phi); ok {
			for _, e := range phi.Edges {
				leaves(e, idx)
			}
			return
		}
		if _, isZero := v.(*ssa.Const); isZero {
			return
		}
		n++
		construct := "(*rpc.Server).readRequest result #" + fmtInt(int64(idx)) + " " + addrDesc(v) + " is allocated for this request"
		pos := ""
		if ins, ok := v.(ssa.Instruction); ok {
			pos = p.InsPos(ins)
		}
		if why := freshReflectValue(v, 0); why != "" {
			r.OK(rule, construct, pos, why)
		} else {
			r.Bad(rule, construct, pos, "the value handed to the service call is not made by reflect.New in this call: concurrent requests can be given the same object and overwrite each other's arguments or replies")
		}
	}
	core.Instrs(read, func(ins ssa.Instruction) {
		ret, ok := ins.(*ssa.Return)
		if !ok {
			return
		}
		for i, res := range ret.Results {
			if isReflectValue(res.Type()) {
				leaves(res, i)
			}
		}
	})
	r.Count(rule+" argument/reply values returned by readRequest", n)
	r.Anchor(rule, "reflect.Value results of readRequest", n >= 2)
}

// freshReflectValue: v is reflect.New(...), its Elem(), or the zero Value.
func freshReflectValue(v ssa.Value, depth int) string {
	if depth > 3 {
		return ""
	}
	switch x := v.(type) {
	case *ssa.Call:
		callee := x.Call.StaticCallee()
		if callee == nil {
			return ""
		}
		switch callee.String() {
		case "reflect.New":
			return "reflect.New in this call"
		case "(reflect.Value).Elem":
			if w := freshReflectValue(x.Call.Args[0], depth+1); w != "" {
				return "Elem of " + w
			}
		default:
			// a helper of the repository all of whose returns are fresh
			if callee.Blocks != nil && strings.HasPrefix(core.PkgPathOf(callee), core.ModPath) && callee.Signature.Results().Len() == 1 {
				all, any := true, false
				core.Instrs(callee, func(ins ssa.Instruction) {
					if ret, ok := ins.(*ssa.Return); ok && len(ret.Results) == 1 {
						any = true
						if freshReflectValue(ret.Results[0], depth+1) == "" {
							all = false
						}
					}
				})
				if any && all {
					return "made by reflect.New in the helper " + callee.Name()
				}
			}
		}
	case *ssa.Phi:
		for _, e := range x.Edges {
			if freshReflectValue(e, depth+1) == "" {
				return ""
			}
		}
		return "reflect.New in this call on every incoming path"
	case *ssa.Const:
		return "zero Value"
	case *ssa.UnOp:
		if x.Op == token.MUL {
			if a, ok := x.X.(*ssa.Alloc); ok {
				// a local Value variable: every store into it must be fresh
				all, any := true, false
				for _, ref := range *a.Referrers() {
					if st, ok := ref.(*ssa.Store); ok && st.Addr == ssa.Value(a) {
						// v = v.Elem() keeps whatever v was
						if c, ok := st.Val.(*ssa.Call); ok && c.Call.StaticCallee() != nil && c.Call.StaticCallee().String() == "(reflect.Value).Elem" {
							if ld, ok := c.Call.Args[0].(*ssa.UnOp); ok && ld.Op == token.MUL && ld.X == ssa.Value(a) {
								continue
							}
						}
						any = true
						if freshReflectValue(st.Val, depth+1) == "" {
							all = false
						}
					}
				}
				if any && all {
					return "local holding reflect.New results"
				}
				if !any {
					return "zero Value"
				}
			}
		}
	}
	return ""
}
