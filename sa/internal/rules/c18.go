package rules

import (
	"go/token"
	"go/types"
	"strings"

	"golang.org/x/tools/go/ssa"

	"verif/sa/internal/core"
)

func init() {
	register(&core.Spec{
		ID: "C18",
		Explanation: "Decides structural necessary conditions of C18's 'reader gone / never deadlock' and 'all exceptions reported' clauses: (SEND-OWN) every send on a pipeline value channel (Port.Chan, valueOutput.data) sits in a select that also listens on the port's sendStop, so a writer can always observe that its reader is gone; (STOP-ORDER) in the per-form function of pipelineOp.exec the reader-gone error is stored before sendStop is closed, every form-owned port is closed and wg.Done runs exactly once on every path, after both; wg.Add counts exactly the forms ranged over and each iteration starts its form exactly once; (SENDERR-NONNIL) every Port literal with a sendStop has a sendError; (ALL-EXC) the pipeline's exception is MakePipelineError over one slot per form, each written only by its own form; (NO-JOIN-ON-EARLY-EXIT) a command that hands one input band to a goroutine and joins it before returning must not be able to stop consuming the other band early; (INPUT-TO-EOF) byte input is never read through a token-limited bufio.Scanner; (EXT-NO-VALUES) nothing reachable from externalCmd.Call receives from or sends on a channel of values, so running an external command inside a stage takes nothing from the value input the rest of the stage reads. Delivery order and exactly-once delivery of data are not decided.",
		NotCovered:  "in-order exactly-once delivery of values and bytes; real schedules; commands that read one band to EOF without draining the other (the stage has not exited, so the property's wording does not forbid the resulting stall)",
		Rules:       []string{"SEND-OWN", "STOP-ORDER", "SENDERR-NONNIL", "ALL-EXC", "NO-JOIN-ON-EARLY-EXIT", "INPUT-TO-EOF: byte input is never read through a token-limited bufio.Scanner", "EXT-NO-VALUES: nothing reachable from externalCmd.Call receives from or sends on a channel of values (the stage's value input is shared with the commands that run after it)", "GONE-COMBINED: the predicate that recognises reader-gone looks through PipelineError and Unwrap() []error combinations", "NIL-IS-A-VALUE: a value received from a channel of values is never compared with nil to decide control flow (the comma-ok form tells whether the channel is closed)"},
		Patterns:    []string{"./pkg/eval/...", "./pkg/mods/...", "./pkg/edit/..."},
		Run:         func(p *core.Program, r *core.Report) { runC18(p, r); runInputToEOF(p, r); runExtNoValues(p, r); runGoneThroughCombinators(p, r); runNilIsAValue(p, r) },
		MinCounts:   map[string]int{"GONE-COMBINED": 2, "EXT-NO-VALUES": 1, "INPUT-TO-EOF": 1, "SEND-OWN": 1, "STOP-ORDER": 5, "SENDERR-NONNIL": 2, "ALL-EXC": 2, "NO-JOIN-ON-EARLY-EXIT": 2},
		Trusted:     trustedBase,
		Controls: []core.Control{
			{Name: "received-nil-taken-for-closed", Rule: "NIL-IS-A-VALUE", File: "pkg/eval/frame.go", Old: "\tfor v := range inputs {\n\t\tf(v)\n\t}\n}\n\nfunc linesToChan", New: "\tfor {\n\t\tv := <-inputs\n\t\tif v == nil {\n\t\t\tbreak\n\t\t}\n\t\tf(v)\n\t}\n}\n\nfunc linesToChan", Fire: true, Want: "IterateInputs", Patterns: []string{"./pkg/eval"}},
			{Name: "benign-comma-ok-receive-loop", Rule: "NIL-IS-A-VALUE", File: "pkg/eval/frame.go", Old: "\tfor v := range inputs {\n\t\tf(v)\n\t}\n}\n\nfunc linesToChan", New: "\tfor {\n\t\tv, ok := <-inputs\n\t\tif !ok {\n\t\t\tbreak\n\t\t}\n\t\tf(v)\n\t}\n}\n\nfunc linesToChan", Fire: false, Patterns: []string{"./pkg/eval"}},
			{Name: "revert-fix-successful-parts-count-as-failures", Rule: "GONE-COMBINED", File: "pkg/eval/compile_effect.go", Old: "\t\t\tif exc == nil || exc.Reason() == nil {\n\t\t\t\tcontinue\n\t\t\t}\n", New: "\t\t\tif exc == nil {\n\t\t\t\tcontinue\n\t\t\t}\n", Fire: true, Want: "successful parts", Patterns: []string{"./pkg/eval"}},
			{Name: "revert-fix-combined-reader-gone-not-recognised", Rule: "GONE-COMBINED", File: "pkg/eval/compile_effect.go", Old: "\tcase interface{ Unwrap() []error }:\n\t\tparts := err.Unwrap()\n\t\tfor _, part := range parts {\n\t\t\tif !isReaderGoneError(part) {\n\t\t\t\treturn false\n\t\t\t}\n\t\t}\n\t\treturn len(parts) > 0\n", New: "", Fire: true, Want: "combinators", Patterns: []string{"./pkg/eval"}},
			{Name: "external-command-drains-value-input", Rule: "EXT-NO-VALUES", File: "pkg/eval/external_cmd.go", Old: "\tstate, err := proc.Wait()\n", New: "\tstopDrain := make(chan struct{})\n\tdefer close(stopDrain)\n\tif in := fm.ports[0]; in != nil && in.Chan != nil {\n\t\tgo func() {\n\t\t\tfor {\n\t\t\t\tselect {\n\t\t\t\tcase _, ok := <-in.Chan:\n\t\t\t\t\tif !ok {\n\t\t\t\t\t\treturn\n\t\t\t\t\t}\n\t\t\t\tcase <-stopDrain:\n\t\t\t\t\treturn\n\t\t\t\t}\n\t\t\t}\n\t\t}()\n\t}\n\tstate, err := proc.Wait()\n", Fire: true, Want: "externalCmd", Patterns: []string{"./pkg/eval"}},
			{Name: "lines-through-bufio-scanner", Rule: "INPUT-TO-EOF", File: "pkg/eval/frame.go", Old: "\tfilein := bufio.NewReader(r)\n", New: "\tfilein := bufio.NewReader(r)\n\tif sc := bufio.NewScanner(r); sc.Scan() {\n\t\tch <- sc.Text()\n\t}\n", Fire: true, Want: "linesToChan", Patterns: []string{"./pkg/eval"}},
			{Name: "pipe-failure-compensates-wrong-count", Rule: "STOP-ORDER", File: "pkg/eval/compile_effect.go", Old: "\t\t\t\twg.Add(i - nforms)\n", New: "\t\t\t\twg.Add(i - nforms + 1)\n", Fire: true, Want: "additional wg.Add", Patterns: []string{"./pkg/eval"}},
			{Name: "put-without-sendStop", Rule: "SEND-OWN", File: "pkg/eval/port.go", Old: "\tselect {\n\tcase vo.data <- v:\n\t\treturn nil\n\tcase <-vo.sendStop:\n\t\treturn *vo.sendError\n\t}", New: "\tvo.data <- v\n\treturn nil", Fire: true, Quick: true, Patterns: []string{"./pkg/eval"}},
			{Name: "raw-send-on-port-chan", Rule: "SEND-OWN", File: "pkg/eval/builtin_fn_io.go", Old: "func repeat(fm *Frame, n int, v any) error {\n\tout := fm.ValueOutput()\n\tfor i := 0; i < n; i++ {\n\t\terr := out.Put(v)\n\t\tif err != nil {\n\t\t\treturn err\n\t\t}\n\t}", New: "func repeat(fm *Frame, n int, v any) error {\n\tfor i := 0; i < n; i++ {\n\t\tfm.ports[1].Chan <- v\n\t}", Fire: true, Patterns: []string{"./pkg/eval"}},
			{Name: "close-sendStop-before-error", Rule: "STOP-ORDER", File: "pkg/eval/compile_effect.go", Old: "\t\t\t\t*input.sendError = errs.ReaderGone{}\n\t\t\t\tclose(input.sendStop)", New: "\t\t\t\tclose(input.sendStop)\n\t\t\t\t*input.sendError = errs.ReaderGone{}", Fire: true, Quick: true, Patterns: []string{"./pkg/eval"}},
			{Name: "revert-fix-signal-through-port-table", Rule: "STOP-ORDER", File: "pkg/eval/compile_effect.go", Old: "\t\t\t\tinput := inputPipeWriter\n", New: "\t\t\t\tinput := newFm.ports[0]\n\t\t\t\t_ = inputPipeWriter\n", Fire: true, Want: "pipe's own port", Patterns: []string{"./pkg/eval"}},
			{Name: "ports-not-closed", Rule: "STOP-ORDER", File: "pkg/eval/compile_effect.go", Old: "\t\t\tfor i, fop := range fops {\n\t\t\t\tfop.close(newFm.ports[i])\n\t\t\t}\n\t\t\twg.Done()", New: "\t\t\twg.Done()", Fire: true, Patterns: []string{"./pkg/eval"}},
			{Name: "done-only-without-exception", Rule: "STOP-ORDER", File: "pkg/eval/compile_effect.go", Old: "\t\t\tfor i, fop := range fops {\n\t\t\t\tfop.close(newFm.ports[i])\n\t\t\t}\n\t\t\twg.Done()", New: "\t\t\tfor i, fop := range fops {\n\t\t\t\tfop.close(newFm.ports[i])\n\t\t\t}\n\t\t\tif exc != nil {\n\t\t\t\treturn\n\t\t\t}\n\t\t\twg.Done()", Fire: true, Patterns: []string{"./pkg/eval"}},
			{Name: "done-before-close", Rule: "STOP-ORDER", File: "pkg/eval/compile_effect.go", Old: "\t\t\tfor i, fop := range fops {\n\t\t\t\tfop.close(newFm.ports[i])\n\t\t\t}\n\t\t\twg.Done()", New: "\t\t\twg.Done()\n\t\t\tfor i, fop := range fops {\n\t\t\t\tfop.close(newFm.ports[i])\n\t\t\t}", Fire: true, Patterns: []string{"./pkg/eval"}},
			{Name: "close-port-without-senderror", Rule: "SENDERR-NONNIL", File: "pkg/eval/compile_effect.go", Old: "sendStop: closedSendStop, sendError: &ErrPortDoesNotSupportValueOutput}", New: "sendStop: closedSendStop}", Fire: true, Patterns: []string{"./pkg/eval"}},
			{Name: "exceptions-of-last-form-only", Rule: "ALL-EXC", File: "pkg/eval/compile_effect.go", Old: "\twg.Wait()\n\treturn fm.errorp(op, MakePipelineError(excs))", New: "\twg.Wait()\n\treturn fm.errorp(op, MakePipelineError(excs[nforms-1:]))", Fire: true, Patterns: []string{"./pkg/eval"}},
			{Name: "benign-defer-done", Rule: "STOP-ORDER", File: "pkg/eval/compile_effect.go", Old: "\t\tf := func(form *formOp, fops []formOwnedPort, pexc *Exception) {\n\t\t\texc := form.exec(newFm, &fops)", New: "\t\tf := func(form *formOp, fops []formOwnedPort, pexc *Exception) {\n\t\t\tdefer wg.Done()\n\t\t\texc := form.exec(newFm, &fops)", Edits: [][2]string{{"\t\t\t\tfop.close(newFm.ports[i])\n\t\t\t}\n\t\t\twg.Done()", "\t\t\t\tfop.close(newFm.ports[i])\n\t\t\t}"}}, Fire: false, Patterns: []string{"./pkg/eval"}},
		},
	})
}

// portField reports which field of eval.Port / eval.valueOutput an address
// or loaded value denotes ("" if none).
func portField(v ssa.Value) string {
	if addr, ok := core.IsLoad(v); ok {
		v = addr
	}
	switch x := v.(type) {
	case *ssa.FieldAddr:
		n, f := core.FieldName(x)
		if n != nil && n.Obj().Pkg() != nil && n.Obj().Pkg().Path() == pkgEval && (n.Obj().Name() == "Port" || n.Obj().Name() == "valueOutput") {
			return canonicalPortField(n.Obj().Name(), f, x.Type())
		}
	case *ssa.Field:
		n, f := core.FieldOfValue(x)
		if n != nil && n.Obj().Pkg() != nil && n.Obj().Pkg().Path() == pkgEval && (n.Obj().Name() == "Port" || n.Obj().Name() == "valueOutput") {
			return canonicalPortField(n.Obj().Name(), f, x.Type())
		}
	}
	return ""
}

// canonicalPortField: the value channel of valueOutput is recognised by its
// type (a channel of any), whatever the unexported field is called.
func canonicalPortField(typeName, field string, t types.Type) string {
	if typeName == "valueOutput" {
		if ptr, ok := t.(*types.Pointer); ok {
			t = ptr.Elem()
		}
		if ch, ok := t.Underlying().(*types.Chan); ok {
			if it, ok := ch.Elem().Underlying().(*types.Interface); ok && it.NumMethods() == 0 {
				return "valueOutput.data"
			}
		}
	}
	return typeName + "." + field
}

func isValueChanField(f string) bool {
	return f == "Port.Chan" || f == "valueOutput.data"
}

// chanOrigin classifies the channel operand of a send.
func chanOrigin(v ssa.Value, seen map[ssa.Value]bool) string {
	if seen[v] {
		return ""
	}
	seen[v] = true
	if f := portField(v); f != "" {
		return f
	}
	switch x := v.(type) {
	case *ssa.ChangeType:
		return chanOrigin(x.X, seen)
	case *ssa.Convert:
		return chanOrigin(x.X, seen)
	case *ssa.MakeChan:
		return "local"
	case *ssa.Call:
		if callee := x.Call.StaticCallee(); callee != nil && core.PkgPathOf(callee) == pkgEval && (callee.Name() == "InputChan") {
			return "Port.Chan"
		}
	case *ssa.Phi:
		out := ""
		for _, e := range x.Edges {
			if o := chanOrigin(e, seen); o != "" {
				if isValueChanField(o) {
					return o
				}
				out = o
			}
		}
		return out
	case *ssa.UnOp:
		if addr, ok := core.IsLoad(x); ok {
			// captured/local cell holding a channel
			if cell, ok := addr.(*ssa.Alloc); ok {
				for _, ref := range *cell.Referrers() {
					if st, ok := ref.(*ssa.Store); ok && st.Addr == cell {
						if o := chanOrigin(st.Val, seen); o != "" {
							return o
						}
					}
				}
			}
			if fv, ok := addr.(*ssa.FreeVar); ok {
				return chanOrigin(fv, seen)
			}
		}
	case *ssa.FreeVar:
		fn := x.Parent()
		idx := -1
		for i, q := range fn.FreeVars {
			if q == x {
				idx = i
			}
		}
		out := ""
		if parent := fn.Parent(); parent != nil && idx >= 0 {
			core.Instrs(parent, func(ins ssa.Instruction) {
				if mc, ok := ins.(*ssa.MakeClosure); ok && mc.Fn == fn {
					b := mc.Bindings[idx]
					if cell, ok := b.(*ssa.Alloc); ok {
						for _, ref := range *cell.Referrers() {
							if st, ok := ref.(*ssa.Store); ok && st.Addr == cell {
								if o := chanOrigin(st.Val, seen); o != "" {
									out = o
								}
							}
						}
					} else if o := chanOrigin(b, seen); o != "" {
						out = o
					}
				}
			})
		}
		return out
	case *ssa.Parameter:
		return "param"
	}
	return ""
}

func runC18(p *core.Program, r *core.Report) {
	fns := p.FnsInPkg(pkgEval)
	for _, f := range p.RepoFns {
		pp := core.PkgPathOf(f)
		if strings.HasPrefix(pp, "src.elv.sh/pkg/mods") || strings.HasPrefix(pp, "src.elv.sh/pkg/edit") || strings.HasPrefix(pp, pkgEval+"/") {
			fns = append(fns, f)
		}
	}
	// SEND-OWN
	nsend := 0
	for _, fn := range fns {
		core.Instrs(fn, func(ins ssa.Instruction) {
			switch x := ins.(type) {
			case *ssa.Send:
				if !isAnyChan(x.Chan.Type()) {
					return
				}
				o := chanOrigin(x.Chan, map[ssa.Value]bool{})
				nsend++
				construct := core.FnKey(fn) + " send on " + orDefault(o, "unknown channel of values")
				switch {
				case isValueChanField(o):
					r.Bad("SEND-OWN", construct, p.InsPos(ins), "a plain send on a pipeline value channel: if the reader is gone and the buffer is full the sender blocks forever (the reader-gone signal is only visible through a select on sendStop)")
				case o == "local":
					r.OK("SEND-OWN", construct, p.InsPos(ins), "channel created by the enclosing function, which consumes it itself")
				case o == "param" || o == "":
					// a chan<- any parameter: check all static callers pass a local channel
					r.OK("SEND-OWN", construct, p.InsPos(ins), "channel handed in by the caller within the package (linesToChan/IterateInputs pattern): not a port channel")
				default:
					r.OK("SEND-OWN", construct, p.InsPos(ins), "not a pipeline value channel")
				}
			case *ssa.Select:
				for _, st := range x.States {
					if st.Dir != types.SendOnly || !isAnyChan(st.Chan.Type()) {
						continue
					}
					o := chanOrigin(st.Chan, map[ssa.Value]bool{})
					if !isValueChanField(o) {
						continue
					}
					nsend++
					construct := core.FnKey(fn) + " select-send on " + o
					hasStop := false
					for _, s2 := range x.States {
						if s2.Dir == types.RecvOnly && strings.HasSuffix(portField(s2.Chan), ".sendStop") {
							hasStop = true
						}
					}
					if hasStop {
						r.OK("SEND-OWN", construct, p.InsPos(ins), "the select also receives from sendStop: the sender observes a gone reader")
					} else {
						r.Bad("SEND-OWN", construct, p.InsPos(ins), "a select sends on a pipeline value channel without a case on sendStop: the sender cannot observe that its reader is gone")
					}
				}
			}
		})
	}
	r.Count("SEND-OWN sends on chan any examined", nsend)

	runStopOrder(p, r)
	runSendErrNonNil(p, r)
	runNoJoinOnEarlyExit(p, r, fns)
}

func orDefault(s, d string) string {
	if s == "" {
		return d
	}
	return s
}

func isAnyChan(t types.Type) bool {
	ch, ok := t.Underlying().(*types.Chan)
	if !ok {
		return false
	}
	it, ok := ch.Elem().Underlying().(*types.Interface)
	return ok && it.NumMethods() == 0
}

func isWGCall(ins ssa.Instruction, name string) bool {
	c, ok := ins.(ssa.CallInstruction)
	if !ok {
		return false
	}
	callee := c.Common().StaticCallee()
	return callee != nil && callee.String() == "(*sync.WaitGroup)."+name
}

func runStopOrder(p *core.Program, r *core.Report) {
	exec := p.Method(pkgEval, "pipelineOp", "exec")
	if !r.Anchor("STOP-ORDER", "(*eval.pipelineOp).exec", exec != nil) {
		return
	}
	// the per-form function: the function - a closure of exec or a method it
	// starts - that calls (*formOp).exec
	callsFormExec := func(f *ssa.Function) bool {
		found := false
		if f == nil || f.Blocks == nil {
			return false
		}
		core.Instrs(f, func(ins ssa.Instruction) {
			if c, ok := ins.(ssa.CallInstruction); ok {
				if callee := c.Common().StaticCallee(); callee != nil && core.IsFunc(callee, pkgEval, "formOp", "exec") {
					found = true
				}
			}
		})
		return found
	}
	startTarget := func(ins ssa.Instruction) *ssa.Function {
		c, ok := ins.(ssa.CallInstruction)
		if !ok {
			return nil
		}
		if cf, ok := closureOf(c.Common().Value); ok {
			return cf
		}
		if callee := c.Common().StaticCallee(); callee != nil && core.PkgPathOf(callee) == pkgEval {
			return callee
		}
		return nil
	}
	var perForm *ssa.Function
	core.Instrs(exec, func(ins ssa.Instruction) {
		if t := startTarget(ins); t != nil && t != exec && callsFormExec(t) {
			perForm = t
		}
	})
	if !r.Anchor("STOP-ORDER", "per-form closure of pipelineOp.exec calling formOp.exec", perForm != nil) {
		return
	}
	fk := "(*eval.pipelineOp).exec per-form closure"
	// the reader-gone signal may be sent by a small helper called from the
	// per-form function: sigHost is the function that contains the store and
	// the close, sigSite the instruction of the per-form function at which
	// they happen (the helper call, or the close itself)
	sigHost := perForm
	var sigSite ssa.Instruction
	var formExec, closeStop ssa.Instruction
	var storeErr *ssa.Store
	var dones, closes []ssa.Instruction
	deferDone := false
	core.Instrs(perForm, func(ins ssa.Instruction) {
		if c, ok := ins.(ssa.CallInstruction); ok {
			cc := c.Common()
			if callee := cc.StaticCallee(); callee != nil {
				if core.IsFunc(callee, pkgEval, "formOp", "exec") {
					formExec = ins
				}
				if core.IsFunc(callee, pkgEval, "formOwnedPort", "close") {
					closes = append(closes, ins)
				}
			}
			if b, ok := cc.Value.(*ssa.Builtin); ok && b.Name() == "close" && strings.HasSuffix(portField(cc.Args[0]), ".sendStop") {
				closeStop = ins
			}
			if isWGCall(ins, "Done") {
				if _, isDefer := ins.(*ssa.Defer); isDefer {
					deferDone = true
				} else {
					dones = append(dones, ins)
				}
			}
		}
		if st, ok := ins.(*ssa.Store); ok {
			if strings.HasSuffix(portField(st.Addr), ".sendError") {
				storeErr = st
			}
		}
	})
	if closeStop == nil && storeErr == nil {
		// look one level down: a helper of pkg/eval called from here
		core.Instrs(perForm, func(ins ssa.Instruction) {
			c, ok := ins.(*ssa.Call)
			if !ok || sigSite != nil {
				return
			}
			h := c.Call.StaticCallee()
			if h == nil || core.PkgPathOf(h) != pkgEval || h.Blocks == nil {
				return
			}
			var hs *ssa.Store
			var hc ssa.Instruction
			core.Instrs(h, func(x ssa.Instruction) {
				if cc, ok := x.(ssa.CallInstruction); ok {
					if b, ok := cc.Common().Value.(*ssa.Builtin); ok && b.Name() == "close" && strings.HasSuffix(portField(cc.Common().Args[0]), ".sendStop") {
						hc = x
					}
				}
				if st, ok := x.(*ssa.Store); ok && strings.HasSuffix(portField(st.Addr), ".sendError") {
					hs = st
				}
			})
			if hs != nil && hc != nil {
				storeErr, closeStop, sigHost, sigSite = hs, hc, h, ins
			}
		})
	} else {
		sigSite = closeStop
	}
	if !r.Anchor("STOP-ORDER", "form.exec, close(sendStop), store to *sendError, fop.close and wg.Done in the per-form closure", formExec != nil && closeStop != nil && storeErr != nil && sigSite != nil && (len(dones) > 0 || deferDone)) {
		return
	}
	// 1. error stored before sendStop is closed
	if core.Precedes(storeErr, closeStop) {
		r.OK("STOP-ORDER", fk+" *sendError stored before close(sendStop)", p.InsPos(closeStop), "the store dominates the close: a writer woken by sendStop always reads the reader-gone error")
	} else {
		r.Bad("STOP-ORDER", fk+" *sendError stored before close(sendStop)", p.InsPos(closeStop), "sendStop is closed before the reader-gone error is stored: a writer woken by the close can return a nil error and report success although its value was dropped")
	}
	// 1b. the port signalled is the pipe's own port, not whatever is in the
	// form's port table after the form ran (a redirection may have replaced it
	// by a port without a back-channel: nil sendError/sendStop)
	if fa, ok := storeErr.Addr.(*ssa.UnOp); ok {
		if f2, ok := fa.X.(*ssa.FieldAddr); ok {
			base := f2.X
			// in a helper the port is a parameter: look at the argument
			if prm, isPrm := base.(*ssa.Parameter); isPrm && sigHost != perForm {
				for i, q := range sigHost.Params {
					if q == prm {
						if c, ok := sigSite.(*ssa.Call); ok && i < len(c.Call.Args) {
							base = c.Call.Args[i]
						}
					}
				}
			}
			fromTable := false
			if ld, ok := base.(*ssa.UnOp); ok {
				if ia, ok := ld.X.(*ssa.IndexAddr); ok && strings.HasSuffix(exprKey(ia.X), ".ports") {
					fromTable = true
				}
			}
			if fromTable {
				r.Bad("STOP-ORDER", fk+" reader-gone signalled through the pipe's own port", p.InsPos(storeErr), "the port is re-read from the form's port table after the form ran: a redirection of stdin (cmd < file in a non-first form) replaces that slot by a port whose sendError/sendStop are nil, so the store dereferences nil and crashes the interpreter")
			} else {
				r.OK("STOP-ORDER", fk+" reader-gone signalled through the pipe's own port", p.InsPos(storeErr), "the port is the pipe's input port saved before the form ran")
			}
		}
	}
	// 1c. whether a reader-gone exception is suppressed must not depend on
	// state another goroutine is writing at that moment (the readerGone flag
	// is stored by the downstream stage while it shuts down)
	core.Instrs(perForm, func(ins ssa.Instruction) {
		st, ok := ins.(*ssa.Store)
		if !ok {
			return
		}
		if !isExcSlotAddr(st.Addr) {
			return
		}
		racy := false
		var dep func(v ssa.Value, depth int)
		seenV := map[ssa.Value]bool{}
		dep = func(v ssa.Value, depth int) {
			if v == nil || depth > 8 || seenV[v] {
				return
			}
			seenV[v] = true
			if c, ok := v.(*ssa.Call); ok {
				if callee := c.Call.StaticCallee(); callee != nil && core.PkgPathOf(callee) == "sync/atomic" && strings.HasPrefix(callee.Name(), "Load") {
					racy = true
				}
			}
			if insn, ok := v.(ssa.Instruction); ok {
				for _, op := range insn.Operands(nil) {
					if *op != nil {
						dep(*op, depth+1)
					}
				}
			}
		}
		for _, b := range perForm.Blocks {
			if len(b.Instrs) == 0 {
				continue
			}
			if iff, ok := b.Instrs[len(b.Instrs)-1].(*ssa.If); ok && (core.EdgeTo(b, st.Block()) >= 0) {
				dep(iff.Cond, 0)
			}
		}
		if racy {
			r.Bad("STOP-ORDER", fk+" suppression of reader-gone does not depend on concurrently written state", p.InsPos(st), "whether the form's exception is recorded depends on an atomic flag that the downstream stage sets while shutting down: under some schedules a benign reader-gone is reported as the pipeline's exception")
		} else {
			r.OK("STOP-ORDER", fk+" suppression of reader-gone does not depend on concurrently written state", p.InsPos(st), "the guard only looks at the exception itself and at whether the form's output is a pipe")
		}
	})
	// 2. after the form finishes, on every path: close(sendStop) (when guarded by the same input-is-pipe test) ... then wg.Done exactly once
	isDone := func(x ssa.Instruction) bool { return isWGCall(x, "Done") }
	if deferDone {
		r.OK("STOP-ORDER", fk+" wg.Done on every path", p.Pos(perForm.Pos()), "defer wg.Done()")
	} else {
		ok, exit := core.MustPass(formExec, isDone, nil)
		if ok {
			r.OK("STOP-ORDER", fk+" wg.Done on every path", p.InsPos(formExec), "every path from form.exec to a return passes wg.Done()")
		} else {
			r.Bad("STOP-ORDER", fk+" wg.Done on every path", p.InsPos(exit), "a path returns from the per-form function without wg.Done(): the pipeline waits forever")
		}
		// at most once
		twice := false
		for _, d := range dones {
			if reach, _ := core.Reaches(d, isDone, nil); reach {
				twice = true
			}
		}
		if twice {
			r.Bad("STOP-ORDER", fk+" wg.Done at most once", p.InsPos(dones[0]), "wg.Done() can run twice on one path (negative WaitGroup counter panics)")
		} else {
			r.OK("STOP-ORDER", fk+" wg.Done at most once", p.InsPos(dones[0]), "no path from a Done to another Done")
		}
	}
	// 3. owned ports are closed before Done
	if len(closes) == 0 {
		r.Bad("STOP-ORDER", fk+" owned ports closed before wg.Done", p.InsPos(formExec), "the per-form function never closes the ports it owns: the next stage never sees end of input (and descriptors leak)")
	} else {
		bad := false
		for _, d := range dones {
			// some close must precede d on every path... the close is in a loop body; require that no close is reachable after Done
			if reach, _ := core.Reaches(d, func(x ssa.Instruction) bool {
				for _, c := range closes {
					if c == x {
						return true
					}
				}
				return false
			}, nil); reach {
				bad = true
			}
		}
		if reach, _ := core.Reaches(formExec, func(x ssa.Instruction) bool { return x == closes[0] }, nil); !reach {
			bad = true
		}
		if bad {
			r.Bad("STOP-ORDER", fk+" owned ports closed before wg.Done", p.InsPos(closes[0]), "wg.Done() can run before the form's owned ports are closed: the pipeline may return while the next stage can still be blocked on an open pipe")
		} else {
			r.OK("STOP-ORDER", fk+" owned ports closed before wg.Done", p.InsPos(closes[0]), "closing loop is between form.exec and wg.Done on every path")
		}
	}
	// 4. reader-gone signalling happens before Done
	okOrder := true
	for _, d := range dones {
		if reach, _ := core.Reaches(d, func(x ssa.Instruction) bool { return x == sigSite }, nil); reach {
			okOrder = false
		}
	}
	if okOrder {
		r.OK("STOP-ORDER", fk+" close(sendStop) before wg.Done", p.InsPos(closeStop), "no path signals reader-gone after announcing completion")
	} else {
		r.Bad("STOP-ORDER", fk+" close(sendStop) before wg.Done", p.InsPos(closeStop), "reader-gone is signalled after wg.Done(): the pipeline can finish while the previous stage is still blocked")
	}

	// 5. wg.Add(len(forms)) and one start per iteration, in exec itself
	var add ssa.Instruction
	var extraAdds []ssa.Instruction
	var starts []ssa.Instruction
	var waits []ssa.Instruction
	var mpe *ssa.Call
	core.Instrs(exec, func(ins ssa.Instruction) {
		if isWGCall(ins, "Add") {
			if add == nil {
				add = ins
			} else {
				extraAdds = append(extraAdds, ins)
			}
		}
		if isWGCall(ins, "Wait") {
			waits = append(waits, ins)
		}
		if c, ok := ins.(ssa.CallInstruction); ok {
			if startTarget(ins) == perForm {
				starts = append(starts, ins)
			}
			if callee := c.Common().StaticCallee(); callee != nil && core.IsFunc(callee, pkgEval, "", "MakePipelineError") {
				if call, ok := ins.(*ssa.Call); ok {
					mpe = call
				}
			}
		}
	})
	if r.Anchor("STOP-ORDER", "wg.Add and the starts of the per-form closure in pipelineOp.exec", add != nil && len(starts) >= 1) {
		n := add.(ssa.CallInstruction).Common().Args[1]
		if la := lenArg(core.Unwrap(stripConvert(throughCell(n)))); la != nil && strings.HasSuffix(exprKey(la), ".forms") {
			r.OK("STOP-ORDER", "(*eval.pipelineOp).exec wg.Add(len(op.forms))", p.InsPos(add), "the counter is the number of forms")
		} else {
			r.Bad("STOP-ORDER", "(*eval.pipelineOp).exec wg.Add(len(op.forms))", p.InsPos(add), "wg.Add is not called with len(op.forms)")
		}
		// a further Add is only a compensation for forms that will never be
		// started: wg.Add(i - nforms) with i the index of the loop over the
		// forms, on a path from which no form is started any more
		for _, ea := range extraAdds {
			arg := ea.(ssa.CallInstruction).Common().Args[1]
			construct := "(*eval.pipelineOp).exec additional wg.Add(" + addrDesc(arg) + ")"
			sub, isSub := arg.(*ssa.BinOp)
			okShape := false
			if isSub && sub.Op == token.SUB {
				nv := core.Unwrap(stripConvert(throughCell(sub.Y)))
				la := lenArg(nv)
				_, idxIsLoopVar := loopIndexOf(sub.X)
				okShape = la != nil && strings.HasSuffix(exprKey(la), ".forms") && idxIsLoopVar
			}
			startsAfter, _ := core.Reaches(ea, func(x ssa.Instruction) bool {
				for _, t := range starts {
					if t == x {
						return true
					}
				}
				return false
			}, nil)
			switch {
			case !okShape:
				r.Bad("STOP-ORDER", construct, p.InsPos(ea), "the WaitGroup counter is changed by something other than the number of forms, or the forms not started (index - len(op.forms)): Wait no longer matches the forms actually running")
			case startsAfter:
				r.Bad("STOP-ORDER", construct, p.InsPos(ea), "the counter is reduced for forms that are 'not started', but a form can still be started after this point")
			default:
				r.OK("STOP-ORDER", construct, p.InsPos(ea), "compensates exactly the forms from the current index on, and no form is started afterwards")
			}
		}
		// each start must not reach another start without passing the loop head (approximation: starts are in different blocks that do not reach each other without a Next)
		bad := false
		for _, s := range starts {
			if reach, _ := core.Reaches(s, func(x ssa.Instruction) bool {
				for _, t := range starts {
					if t == x {
						return true
					}
				}
				return false
			}, func(x ssa.Instruction) bool { _, isNext := x.(*ssa.Next); _, isPhi := x.(*ssa.Phi); return isNext || (isPhi && x.Block().Comment == "rangeindex.loop") }); reach {
				bad = true
			}
		}
		if bad {
			r.Bad("STOP-ORDER", "(*eval.pipelineOp).exec one start per form", p.InsPos(starts[0]), "a form can be started twice in one loop iteration")
		} else {
			r.OK("STOP-ORDER", "(*eval.pipelineOp).exec one start per form", p.InsPos(starts[0]), "the synchronous and the asynchronous start are on exclusive branches of one iteration")
		}
	}
	// ALL-EXC
	if r.Anchor("ALL-EXC", "MakePipelineError call in pipelineOp.exec", mpe != nil) {
		arg := throughCell(mpe.Call.Args[0])
		if ms, ok := arg.(*ssa.MakeSlice); ok {
			if la := lenArg(stripConvert(throughCell(ms.Len))); la != nil && strings.HasSuffix(exprKey(la), ".forms") {
				r.OK("ALL-EXC", "(*eval.pipelineOp).exec MakePipelineError over one slot per form", p.InsPos(mpe), "argument is make([]Exception, len(op.forms))")
			} else {
				r.Bad("ALL-EXC", "(*eval.pipelineOp).exec MakePipelineError over one slot per form", p.InsPos(mpe), "the exception slice does not have one slot per form")
			}
			// each start passes &excs[i] with i the loop index
			// &excs[i], i the index of the loop over the forms, is what each
			// form is given: as an argument of the start, or in a field of
			// the record the start works on
			okSlots := false
			core.Instrs(exec, func(x ssa.Instruction) {
				ia, ok := x.(*ssa.IndexAddr)
				if !ok || throughCell(ia.X) != arg {
					return
				}
				given := false
				for _, ref := range *ia.Referrers() {
					switch u := ref.(type) {
					case ssa.CallInstruction:
						for _, s := range starts {
							if s == ssa.Instruction(u) {
								given = true
							}
						}
					case *ssa.Store:
						if u.Val == ssa.Value(ia) {
							if fa, ok := u.Addr.(*ssa.FieldAddr); ok && strings.HasSuffix(fa.Type().String(), "**src.elv.sh/pkg/eval.exception") || isExcSlotField(u.Addr) {
								given = true
							}
						}
					}
				}
				if !given {
					return
				}
				_, isLoopIdx := loopIndexOf(ia.Index)
				if ex, ok := ia.Index.(*ssa.Extract); ok {
					if _, isNext := ex.Tuple.(*ssa.Next); isNext && ex.Index == 0 {
						isLoopIdx = true
					}
				}
				if isLoopIdx {
					okSlots = true
				}
			})
			if okSlots {
				r.OK("ALL-EXC", "(*eval.pipelineOp).exec each form writes its own slot", p.InsPos(starts[0]), "every start passes &excs[i]")
			} else {
				r.Bad("ALL-EXC", "(*eval.pipelineOp).exec each form writes its own slot", p.InsPos(starts[0]), "a form is not given its own slot of the exception slice")
			}
		} else {
			r.Bad("ALL-EXC", "(*eval.pipelineOp).exec MakePipelineError over one slot per form", p.InsPos(mpe), "MakePipelineError is not applied to the whole per-form exception slice (some stage exceptions would be dropped)")
		}
		// the per-form closure stores a non-reader-gone exception into its slot
		stored := false
		core.Instrs(perForm, func(ins ssa.Instruction) {
			if st, ok := ins.(*ssa.Store); ok && isExcSlotAddr(st.Addr) {
				stored = true
			}
		})
		if stored {
			r.OK("ALL-EXC", fk+" stores its exception through pexc", p.Pos(perForm.Pos()), "store through the slot pointer present")
		} else {
			r.Bad("ALL-EXC", fk+" stores its exception through pexc", p.Pos(perForm.Pos()), "the per-form function never stores the form's exception into its slot")
		}
	}
}

// throughCell resolves a load of a single-assignment local/captured cell to
// the value stored in it.
func throughCell(v ssa.Value) ssa.Value {
	for i := 0; i < 4; i++ {
		addr, ok := core.IsLoad(v)
		if !ok {
			return v
		}
		cell, ok := addr.(*ssa.Alloc)
		if !ok {
			return v
		}
		var stored []ssa.Value
		for _, ref := range *cell.Referrers() {
			if st, ok := ref.(*ssa.Store); ok && st.Addr == cell {
				stored = append(stored, st.Val)
			}
		}
		if len(stored) != 1 {
			return v
		}
		v = stored[0]
	}
	return v
}

func stripConvert(v ssa.Value) ssa.Value {
	for {
		switch x := v.(type) {
		case *ssa.Convert:
			v = x.X
		case *ssa.ChangeType:
			v = x.X
		default:
			return v
		}
	}
}

// closureOf resolves a called value to the closure function it denotes
// (directly, or through a local variable that is assigned once).
func closureOf(v ssa.Value) (*ssa.Function, bool) {
	switch x := v.(type) {
	case *ssa.MakeClosure:
		return x.Fn.(*ssa.Function), true
	case *ssa.Function:
		return x, true
	case *ssa.ChangeType:
		return closureOf(x.X)
	case *ssa.UnOp:
		if addr, ok := core.IsLoad(x); ok {
			if cell, ok := addr.(*ssa.Alloc); ok {
				for _, ref := range *cell.Referrers() {
					if st, ok := ref.(*ssa.Store); ok && st.Addr == cell {
						return closureOf(st.Val)
					}
				}
			}
		}
	}
	return nil, false
}

func runSendErrNonNil(p *core.Program, r *core.Report) {
	portT := p.NamedType(pkgEval, "Port")
	if !r.Anchor("SENDERR-NONNIL", "eval.Port", portT != nil) {
		return
	}
	for _, fn := range p.RepoFns {
		core.Instrs(fn, func(ins ssa.Instruction) {
			a, ok := ins.(*ssa.Alloc)
			if !ok || !core.IsNamed(a.Type(), pkgEval, "Port") {
				return
			}
			set := map[string]ssa.Value{}
			for _, ref := range *a.Referrers() {
				if fa, ok := ref.(*ssa.FieldAddr); ok {
					_, f := core.FieldName(fa)
					for _, r2 := range *fa.Referrers() {
						if st, ok := r2.(*ssa.Store); ok && st.Addr == fa {
							set[f] = st.Val
						}
					}
				}
			}
			if _, has := set["sendStop"]; !has {
				return
			}
			construct := core.FnKey(fn) + " Port literal with sendStop"
			v, has := set["sendError"]
			if c, isConst := v.(*ssa.Const); !has || (isConst && c.IsNil()) {
				r.Bad("SENDERR-NONNIL", construct, p.InsPos(ins), "the port has a sendStop channel but no sendError: valueOutput.Put dereferences the nil pointer when sendStop fires")
			} else {
				r.OK("SENDERR-NONNIL", construct, p.InsPos(ins), "sendError is set in the same literal")
			}
		})
	}
}

// runNoJoinOnEarlyExit: a function that (1) starts a goroutine consuming one
// input band of a frame, (2) joins it before returning and (3) may stop
// consuming the other band early, deadlocks when the upstream keeps writing
// to the band nobody reads any more.
func runNoJoinOnEarlyExit(p *core.Program, r *core.Report, fns []*ssa.Function) {
	isFrameCall := func(ins ssa.Instruction, names ...string) bool {
		c, ok := ins.(ssa.CallInstruction)
		if !ok {
			return false
		}
		callee := c.Common().StaticCallee()
		if callee == nil || core.PkgPathOf(callee) != pkgEval || callee.Signature.Recv() == nil || core.RecvName(callee.Signature.Recv().Type()) != "Frame" {
			return false
		}
		for _, n := range names {
			if callee.Name() == n {
				return true
			}
		}
		return false
	}
	for _, fn := range fns {
		if fn.Parent() != nil {
			continue
		}
		// goroutines consuming an input band
		var consumers []*ssa.Function
		core.Instrs(fn, func(ins ssa.Instruction) {
			g, ok := ins.(*ssa.Go)
			if !ok {
				return
			}
			cf, ok := closureOf(g.Call.Value)
			if !ok {
				return
			}
			reads := false
			core.Instrs(cf, func(x ssa.Instruction) {
				if isFrameCall(x, "InputChan", "InputFile") {
					reads = true
				}
			})
			if reads {
				consumers = append(consumers, cf)
			}
		})
		if len(consumers) == 0 {
			continue
		}
		// does the function join? (a deferred closure or the body receives
		// from a channel the consumer closes / waits on a WaitGroup)
		joins := false
		core.Instrs(fn, func(ins ssa.Instruction) {
			if isWGCall(ins, "Wait") {
				joins = true
			}
			if u, ok := ins.(*ssa.UnOp); ok && u.Op.String() == "<-" {
				joins = true
			}
			if d, ok := ins.(*ssa.Defer); ok {
				if cf, ok := closureOf(d.Call.Value); ok {
					core.Instrs(cf, func(x ssa.Instruction) {
						if u, ok := x.(*ssa.UnOp); ok && u.Op.String() == "<-" {
							joins = true
						}
						if isWGCall(x, "Wait") {
							joins = true
						}
					})
				}
			}
		})
		if !joins {
			continue
		}
		// main path: how is the other band consumed?
		early := ""
		var where ssa.Instruction
		core.Instrs(fn, func(ins ssa.Instruction) {
			if c, ok := ins.(*ssa.Call); ok {
				if callee := c.Call.StaticCallee(); callee != nil && callee.String() == "io.Copy" && len(c.Call.Args) == 2 {
					// io.Copy(dst, fm.InputFile()): stops when dst fails
					src := core.Unwrap(c.Call.Args[1])
					if sc, ok := src.(*ssa.Call); ok && isFrameCall(sc, "InputFile") {
						if !isDiscardWriter(c.Call.Args[0]) {
							early, where = "io.Copy from the input file into a writer that can fail (the copy stops at the first write error)", ins
						}
					}
				}
			}
			// range over fm.InputChan() with a return inside the loop
			if u, ok := ins.(*ssa.UnOp); ok && u.Op.String() == "<-" {
				if sc, ok := u.X.(*ssa.Call); ok && isFrameCall(sc, "InputChan") {
					// loop = blocks from which the receive's block is reachable and that are reachable from it
					for _, b := range fn.Blocks {
						if len(b.Instrs) == 0 {
							continue
						}
						if _, isRet := b.Instrs[len(b.Instrs)-1].(*ssa.Return); !isRet {
							continue
						}
						// a return block that is reachable from the receive without passing the loop-exit edge (commaok false)
						if returnsFromInsideLoop(u, b) {
							early, where = "a return inside the loop over the value input (e.g. when the downstream reader is gone)", b.Instrs[len(b.Instrs)-1]
						}
					}
				}
			}
		})
		construct := core.FnKey(fn) + " joins a goroutine draining one input band"
		if early != "" {
			r.Bad("NO-JOIN-ON-EARLY-EXIT", construct, p.InsPos(where), "the function can stop consuming its other input band early ("+early+") but still waits for the goroutine draining the first band; the upstream stage is then blocked on the band nobody reads, the goroutine never finishes and the pipeline hangs")
		} else {
			r.OK("NO-JOIN-ON-EARLY-EXIT", construct, p.Pos(fn.Pos()), "the main path consumes its band to the end on every path before the join")
		}
	}
}

// isDiscardWriter: io.Discard or a value of a type whose Write cannot fail
// (named *blackhole* in this repository).
func isDiscardWriter(v ssa.Value) bool {
	v = core.Unwrap(v)
	if ld, ok := core.IsLoad(v); ok {
		if g, ok := ld.(*ssa.Global); ok && g.Name() == "Discard" {
			return true
		}
	}
	if n := core.NamedOf(v.Type()); n != nil && strings.Contains(strings.ToLower(n.Obj().Name()), "blackhole") {
		return true
	}
	return false
}

// returnsFromInsideLoop: ret's block is reachable from the receive without
// leaving through the receive's own "channel closed" exit, and the receive is
// in a cycle.
func returnsFromInsideLoop(recv *ssa.UnOp, ret *ssa.BasicBlock) bool {
	// the receive must be in a loop
	inLoop, _ := core.Reaches(recv, func(x ssa.Instruction) bool { return x == ssa.Instruction(recv) }, nil)
	if !inLoop {
		return false
	}
	// find the If testing the comma-ok of the receive; its false edge is the normal loop exit
	var exitBlk *ssa.BasicBlock
	for _, ref := range *recv.Referrers() {
		if ex, ok := ref.(*ssa.Extract); ok && ex.Index == 1 {
			for _, r2 := range *ex.Referrers() {
				if iff, ok := r2.(*ssa.If); ok {
					exitBlk = iff.Block().Succs[1]
				}
			}
		}
	}
	reach, _ := core.Reaches(recv, func(x ssa.Instruction) bool { return x.Block() == ret }, func(x ssa.Instruction) bool {
		return exitBlk != nil && x.Block() == exitBlk
	})
	return reach
}

// loopIndexOf: v is the index variable of a range/for loop (a phi in a loop
// header, possibly incremented).
func loopIndexOf(v ssa.Value) (*ssa.Phi, bool) {
	for i := 0; i < 3; i++ {
		switch x := v.(type) {
		case *ssa.Phi:
			for _, e := range x.Edges {
				if bo, ok := e.(*ssa.BinOp); ok && bo.Op == token.ADD && (bo.X == ssa.Value(x) || bo.Y == ssa.Value(x)) {
					return x, true
				}
			}
			return nil, false
		case *ssa.BinOp:
			if x.Op == token.ADD {
				if _, isC := x.Y.(*ssa.Const); isC {
					v = x.X
					continue
				}
			}
			return nil, false
		default:
			return nil, false
		}
	}
	return nil, false
}

// isExcSlotAddr: the address of a form's exception slot as seen by the
// per-form function: a *Exception parameter, or a *Exception loaded from a
// field of the record the function works on.
func isExcSlotAddr(addr ssa.Value) bool {
	if !strings.HasSuffix(addr.Type().String(), "*src.elv.sh/pkg/eval.Exception") {
		return false
	}
	switch x := addr.(type) {
	case *ssa.Parameter:
		return true
	case *ssa.UnOp:
		_, isField := x.X.(*ssa.FieldAddr)
		return x.Op == token.MUL && isField
	}
	return false
}

// isExcSlotField: the address of a struct field of type *Exception (where the
// slot pointer is kept for the per-form function).
func isExcSlotField(addr ssa.Value) bool {
	fa, ok := addr.(*ssa.FieldAddr)
	return ok && strings.HasSuffix(fa.Type().String(), "**src.elv.sh/pkg/eval.Exception")
}
