package rules

import (
	"strings"

	"golang.org/x/tools/go/ssa"

	"verif/sa/internal/core"
)

// cellOnlyStoredHere: every store into the cell is in the function that
// declares it; closures capturing it only read it.
func cellOnlyStoredHere(cell *ssa.Alloc) bool {
	fn := cell.Parent()
	for _, ref := range *cell.Referrers() {
		mc, ok := ref.(*ssa.MakeClosure)
		if !ok {
			continue
		}
		cf := mc.Fn.(*ssa.Function)
		for i, b := range mc.Bindings {
			if b != ssa.Value(cell) || i >= len(cf.FreeVars) {
				continue
			}
			fv := cf.FreeVars[i]
			for _, r2 := range *fv.Referrers() {
				switch u := r2.(type) {
				case *ssa.Store:
					if u.Addr == ssa.Value(fv) {
						return false
					}
				case *ssa.UnOp, *ssa.DebugRef:
				default:
					return false // passed on: give up
				}
			}
		}
	}
	_ = fn
	return true
}

// cellFacts computes facts for a load of a multi-store cell.
func (e *factEngine) cellFacts(cell *ssa.Alloc, load *ssa.UnOp, depth int) factSet {
	fn := cell.Parent()
	var stores []*ssa.Store
	var loads []*ssa.UnOp
	for _, ref := range *cell.Referrers() {
		switch u := ref.(type) {
		case *ssa.Store:
			if u.Addr == ssa.Value(cell) {
				stores = append(stores, u)
			}
		case *ssa.UnOp:
			loads = append(loads, u)
		}
	}
	isStore := func(x ssa.Instruction) bool {
		for _, s := range stores {
			if ssa.Instruction(s) == x {
				return true
			}
		}
		return false
	}
	var acc factSet
	for _, s := range stores {
		// can s reach the load without another store in between?
		reach, _ := core.Reaches(s, func(x ssa.Instruction) bool { return x == ssa.Instruction(load) }, isStore)
		if !reach {
			continue
		}
		fs := e.at(s.Val, s, depth+1)
		// guards on loads of the cell, after s, that every path s -> load passes
		for _, b := range fn.Blocks {
			if len(b.Instrs) == 0 {
				continue
			}
			iff, ok := b.Instrs[len(b.Instrs)-1].(*ssa.If)
			if !ok {
				continue
			}
			// the condition must mention a load of the cell
			var guardLoad *ssa.UnOp
			for _, l := range loads {
				if condMentions(iff.Cond, l, 0) {
					guardLoad = l
				}
			}
			if guardLoad == nil {
				continue
			}
			// the guard is evaluated after s with no store in between
			if r2, _ := core.Reaches(s, func(x ssa.Instruction) bool { return x == ssa.Instruction(guardLoad) }, isStore); !r2 {
				continue
			}
			for si, succ := range b.Succs {
				if len(b.Succs) != 2 || b.Succs[0] == b.Succs[1] {
					continue
				}
				// every path from s to the load takes the edge b -> succ
				if s.Block() == load.Block() || edgeAvoidable(s.Block(), load.Block(), b, succ, stores) || !reachesBlock(succ, load) {
					continue
				}
				e.fromCond(iff.Cond, si == 0, guardLoad, fs)
			}
		}
		fs = fs.normalise()
		if acc == nil {
			acc = fs
		} else {
			acc = meet(acc, fs)
		}
	}
	return acc
}

// edgeAvoidable: can control get from block `from` to block `to` without
// taking the edge eb -> es and without passing a block (other than `from`)
// that stores into the cell again?
func edgeAvoidable(from, to, eb, es *ssa.BasicBlock, stores []*ssa.Store) bool {
	storeBlk := map[*ssa.BasicBlock]bool{}
	for _, s := range stores {
		storeBlk[s.Block()] = true
	}
	seen := map[*ssa.BasicBlock]bool{from: true}
	work := []*ssa.BasicBlock{from}
	for len(work) > 0 {
		b := work[len(work)-1]
		work = work[:len(work)-1]
		for _, s := range b.Succs {
			if b == eb && s == es {
				continue
			}
			if s == to {
				return true
			}
			if seen[s] || storeBlk[s] {
				continue
			}
			seen[s] = true
			work = append(work, s)
		}
	}
	return false
}

func reachesBlock(from *ssa.BasicBlock, target ssa.Instruction) bool {
	if from == target.Block() {
		return true
	}
	if len(from.Instrs) == 0 {
		return false
	}
	ok, _ := core.Reaches(from.Instrs[0], func(x ssa.Instruction) bool { return x == target }, nil)
	return ok || from.Instrs[0] == target
}

// condMentions: the condition (through comparisons, negations and
// short-circuit phis) has v as an operand.
func condMentions(c ssa.Value, v ssa.Value, depth int) bool {
	if c == v {
		return true
	}
	if depth > 4 {
		return false
	}
	switch x := c.(type) {
	case *ssa.BinOp:
		return condMentions(x.X, v, depth+1) || condMentions(x.Y, v, depth+1)
	case *ssa.UnOp:
		return condMentions(x.X, v, depth+1)
	case *ssa.Phi:
		for _, e := range x.Edges {
			if condMentions(e, v, depth+1) {
				return true
			}
		}
	case *ssa.Convert:
		return condMentions(x.X, v, depth+1)
	}
	return false
}

// returnFacts: the facts that hold for result #idx of a static call to a
// function of this repository, i.e. the meet over all its returns of the
// facts of the returned value there. Only facts that do not mention the
// callee's own expressions survive.
func (e *factEngine) returnFacts(call *ssa.Call, idx int, depth int) factSet {
	callee := call.Call.StaticCallee()
	if callee == nil || callee.Blocks == nil || !strings.HasPrefix(core.PkgPathOf(callee), core.ModPath) {
		return factSet{}
	}
	var acc factSet
	n := 0
	core.Instrs(callee, func(ins ssa.Instruction) {
		ret, ok := ins.(*ssa.Return)
		if !ok || idx >= len(ret.Results) {
			return
		}
		n++
		f := e.at(ret.Results[idx], ret, depth+2)
		g := factSet{}
		for k := range f {
			if strings.HasPrefix(k, "ltlen:") || strings.HasPrefix(k, "lelen:") {
				continue
			}
			g[k] = true
		}
		if acc == nil {
			acc = g
		} else {
			acc = meet(acc, g)
		}
	})
	if n == 0 || acc == nil {
		return factSet{}
	}
	return acc
}
