package rules

import (
	"go/constant"
	"go/token"
	"go/types"
	"strings"

	"golang.org/x/tools/go/ssa"

	"verif/sa/internal/core"
)

// siteIn maps an instruction that runs somewhere below fn (in a closure of
// fn, or in a helper of the package that is called at exactly one place) to
// the instruction of fn itself that makes it run: the call/defer of the
// closure, the call of the helper. nil when there is no such unique place.
func siteIn(p *core.Program, fn *ssa.Function, ins ssa.Instruction) ssa.Instruction {
	for depth := 0; depth < 5 && ins != nil; depth++ {
		cur := ins.Parent()
		if cur == fn {
			return ins
		}
		var next ssa.Instruction
		if cur.Parent() != nil {
			// a closure: where its parent calls, defers or starts it
			core.Instrs(cur.Parent(), func(x ssa.Instruction) {
				if c, ok := x.(ssa.CallInstruction); ok {
					if cf, ok := closureOf(c.Common().Value); ok && cf == cur {
						next = x
					}
				}
			})
		} else {
			n := 0
			for _, g := range p.FnsInPkg(core.PkgPathOf(cur)) {
				core.Instrs(g, func(x ssa.Instruction) {
					if c, ok := x.(ssa.CallInstruction); ok && c.Common().StaticCallee() == cur {
						n++
						next = x
					}
				})
			}
			if n != 1 {
				return nil
			}
		}
		ins = next
	}
	return nil
}

// syncCallees: fn and the functions of pkg it calls synchronously (plain
// calls, not go statements), transitively.
func syncCallees(fn *ssa.Function, pkg string) map[*ssa.Function]bool {
	out := map[*ssa.Function]bool{}
	var visit func(f *ssa.Function)
	visit = func(f *ssa.Function) {
		if f == nil || out[f] || f.Blocks == nil || core.PkgPathOf(f) != pkg {
			return
		}
		out[f] = true
		core.Instrs(f, func(ins ssa.Instruction) {
			if c, ok := ins.(*ssa.Call); ok {
				visit(c.Call.StaticCallee())
				if cf, ok := closureOf(c.Call.Value); ok {
					visit(cf)
				}
			}
			if d, ok := ins.(*ssa.Defer); ok {
				visit(d.Call.StaticCallee())
				if cf, ok := closureOf(d.Call.Value); ok {
					visit(cf)
				}
			}
		})
	}
	visit(fn)
	return out
}

// runC27v2: REMOVE-OWN, UNLINK-ONCE and SERVE-WHILE-CLIENTS located by what
// the code does (net.Listen on a unix path, os.Remove of that path, the
// blocking select that receives signals), wherever in pkg/daemon the pieces
// live: in Serve itself, in closures, or in helpers called from it.
func runC27v2(p *core.Program, r *core.Report) {
	var listen *ssa.Call
	for _, fn := range p.FnsInPkg(pkgDaemon) {
		core.Instrs(fn, func(ins ssa.Instruction) {
			c, ok := ins.(*ssa.Call)
			if !ok || c.Call.StaticCallee() == nil || c.Call.StaticCallee().String() != "net.Listen" {
				return
			}
			if k, ok := c.Call.Args[0].(*ssa.Const); ok && k.Value != nil && k.Value.Kind() == constant.String && constant.StringVal(k.Value) == "unix" {
				listen = c
			}
		})
	}
	if !r.Anchor("REMOVE-OWN", "net.Listen(\"unix\", path) in pkg/daemon", listen != nil) {
		return
	}
	serve := core.Outer(listen.Parent())
	fk := core.FnKey(serve)
	below := reachableInPkg([]*ssa.Function{serve}, pkgDaemon)
	var removes []*ssa.Call
	setUnlinkFalse := false
	var sel *ssa.Select
	for f := range below {
		core.Instrs(f, func(ins ssa.Instruction) {
			switch x := ins.(type) {
			case *ssa.Call:
				callee := x.Call.StaticCallee()
				if callee == nil {
					return
				}
				switch callee.String() {
				case "os.Remove", "os.RemoveAll":
					removes = append(removes, x)
				case "(*net.UnixListener).SetUnlinkOnClose":
					if k, ok := x.Call.Args[1].(*ssa.Const); ok && k.Value != nil && k.Value.Kind() == constant.Bool && !constant.BoolVal(k.Value) {
						setUnlinkFalse = true
					}
				}
			case *ssa.Select:
				if !x.Blocking {
					return
				}
				for _, st := range x.States {
					if ch, ok := st.Chan.Type().Underlying().(*types.Chan); ok && strings.HasSuffix(ch.Elem().String(), "os.Signal") {
						sel = x
					}
				}
			}
		})
	}
	sortCalls(p, removes)
	if !r.Anchor("REMOVE-OWN", "an os.Remove below the function that listens", len(removes) >= 1) {
		return
	}
	pathKey := originKey(listen.Call.Args[1])
	nOwn := 0
	for i, rm := range removes {
		construct := fk + " removes only the socket it listened on #" + itoa(i+1)
		isSock := originKey(rm.Call.Args[0]) == pathKey
		site := siteIn(p, listen.Parent(), rm)
		okEdge := site != nil && !inErrBranch(listen.Parent(), listen, 1, site.Block()) && core.Precedes(listen, site) && listenOKDominates(listen.Parent(), listen, site.Block())
		switch {
		case !isSock:
			r.Bad("REMOVE-OWN", construct, p.InsPos(rm), "the daemon removes a path other than the socket path it was given")
		case !okEdge:
			r.Bad("REMOVE-OWN", construct, p.InsPos(rm), "the socket file is removed on a path where this daemon's own net.Listen did not succeed: it deletes the socket of the daemon that is actually serving, cutting it off from new clients")
		default:
			nOwn++
			r.OK("REMOVE-OWN", construct, p.InsPos(rm), "dominated by the success edge of net.Listen(\"unix\", sockpath)")
		}
	}
	// UNLINK-ONCE
	if nOwn >= 1 {
		construct := fk + " removes the path of the unix socket it listens on"
		if setUnlinkFalse {
			r.OK("UNLINK-ONCE", construct, p.InsPos(removes[0]), "the listener is told not to unlink on Close (SetUnlinkOnClose(false))")
		} else {
			r.Bad("UNLINK-ONCE", construct, p.InsPos(removes[0]), "the path is removed here and again by the listener's Close (UnixListener.Close unlinks the path it was created with): a daemon that bound the path in between loses its socket file")
		}
	}

	// SERVE-WHILE-CLIENTS
	if !r.Anchor("SERVE-WHILE-CLIENTS", "blocking select of the serve loop (receives os.Signal)", sel != nil) {
		return
	}
	loopFn := sel.Parent()
	lk := core.FnKey(core.Outer(loopFn))
	inLoop := map[*ssa.BasicBlock]bool{sel.Block(): true}
	for _, b := range loopFn.Blocks {
		if blockReaches(sel.Block(), b) && blockReaches(b, sel.Block()) && b != sel.Block() {
			inLoop[b] = true
		}
	}
	var exitPreds []*ssa.BasicBlock
	for _, b := range loopFn.Blocks {
		if !inLoop[b] {
			continue
		}
		for _, sc := range b.Succs {
			if !inLoop[sc] && !core.IsPanicBlock(sc) {
				if len(sc.Preds) == 1 {
					exitPreds = append(exitPreds, sc)
				} else {
					exitPreds = append(exitPreds, b)
				}
			}
		}
	}
	isNoClients := func(v ssa.Value) bool {
		cmp, ok := v.(*ssa.BinOp)
		if !ok || cmp.Op != token.EQL {
			return false
		}
		n, isC := constInt(cmp.Y)
		la := lenArg(cmp.X)
		if !isC || n != 0 || la == nil {
			return false
		}
		_, isMap := la.Type().Underlying().(*types.Map)
		return isMap
	}
	sigIdx := -1
	for i, st := range sel.States {
		if ch, ok := st.Chan.Type().Underlying().(*types.Chan); ok && strings.HasSuffix(ch.Elem().String(), "os.Signal") {
			sigIdx = i
		}
	}
	inSignalCase := func(b *ssa.BasicBlock) bool {
		for _, blk := range loopFn.Blocks {
			if len(blk.Instrs) == 0 {
				continue
			}
			iff, ok := blk.Instrs[len(blk.Instrs)-1].(*ssa.If)
			if !ok {
				continue
			}
			cmp, ok := iff.Cond.(*ssa.BinOp)
			if !ok || cmp.Op != token.EQL {
				continue
			}
			ex, ok := cmp.X.(*ssa.Extract)
			if !ok || ex.Tuple != ssa.Value(sel) || ex.Index != 0 {
				continue
			}
			if n, isC := constInt(cmp.Y); isC && int(n) == sigIdx && core.EdgeTo(blk, b) == 0 {
				return true
			}
		}
		return false
	}
	nexits := 0
	for _, pred := range exitPreds {
		nexits++
		construct := lk + " loop exit #" + itoa(nexits)
		last := pred.Instrs[len(pred.Instrs)-1]
		switch {
		case sigIdx >= 0 && inSignalCase(pred):
			r.OK("SERVE-WHILE-CLIENTS", construct+" (signal)", p.InsPos(last), "termination requested by a signal: connections are closed deliberately")
		case dominatedByCondEdge(loopFn, isNoClients, true, pred):
			r.OK("SERVE-WHILE-CLIENTS", construct, p.InsPos(last), "taken only when len(conns) == 0")
		default:
			r.Bad("SERVE-WHILE-CLIENTS", construct, p.InsPos(last), "the daemon can leave its serve loop (and remove its socket) while clients are still connected")
		}
	}
	r.Anchor("SERVE-WHILE-CLIENTS", "exits of the serve loop", nexits >= 2)
	// connections are accepted by another goroutine than the one that counts
	// them: a connection that Accept has returned but the loop has not yet
	// registered (it sits in the hand-over channel, or between Accept and the
	// send) is a connected client that len(conns) == 0 does not see
	var acceptIn *ssa.Function
	for _, f := range p.FnsInPkg(pkgDaemon) {
		core.Instrs(f, func(ins ssa.Instruction) {
			if c, ok := ins.(ssa.CallInstruction); ok && c.Common().IsInvoke() && c.Common().Method.Name() == "Accept" && strings.HasSuffix(c.Common().Value.Type().String(), "net.Listener") {
				acceptIn = f
			}
		})
	}
	if acceptIn != nil && core.Outer(acceptIn) == core.Outer(loopFn) {
		async := acceptIn != loopFn
		construct := lk + " the exit on no clients also sees connections accepted but not yet registered"
		// accepted: the loop stops accepting (closes the listener) and looks
		// at the hand-over channel before it decides
		closesFirst := false
		for _, pred := range exitPreds {
			if sigIdx >= 0 && inSignalCase(pred) {
				continue
			}
			for _, b := range loopFn.Blocks {
				if !b.Dominates(pred) {
					continue
				}
				for _, x := range b.Instrs {
					if c, ok := x.(ssa.CallInstruction); ok && c.Common().IsInvoke() && c.Common().Method.Name() == "Close" && strings.HasSuffix(c.Common().Value.Type().String(), "net.Listener") && inLoop[b] {
						closesFirst = true
					}
				}
			}
		}
		switch {
		case !async:
			r.OK("SERVE-WHILE-CLIENTS", construct, p.Pos(loopFn.Pos()), "the loop goroutine accepts the connections itself")
		case closesFirst:
			r.OK("SERVE-WHILE-CLIENTS", construct, p.Pos(loopFn.Pos()), "the listener is closed inside the loop before the decision to exit")
		default:
			r.Bad("SERVE-WHILE-CLIENTS", construct, p.Pos(acceptIn.Pos()), "connections are accepted by a separate goroutine and handed to the loop over a channel, and the loop exits when the last registered client leaves without stopping the acceptor first: a client accepted at that moment is connected but never served (the daemon removes its socket and exits while that client waits for a reply)")
		}
	}
	// the connection set is modified only by the loop goroutine: by the loop
	// function and what it calls synchronously
	byLoop := syncCallees(loopFn, pkgDaemon)
	var offender ssa.Instruction
	for f := range below {
		if byLoop[f] {
			continue
		}
		core.Instrs(f, func(ins ssa.Instruction) {
			switch x := ins.(type) {
			case *ssa.MapUpdate:
				if strings.Contains(x.Map.Type().String(), "net.Conn") {
					offender = ins
				}
			case ssa.CallInstruction:
				if b, ok := x.Common().Value.(*ssa.Builtin); ok && b.Name() == "delete" && strings.Contains(x.Common().Args[0].Type().String(), "net.Conn") {
					offender = ins
				}
			}
		})
	}
	construct := lk + " connection set modified only by the serve loop"
	if offender == nil {
		r.OK("SERVE-WHILE-CLIENTS", construct, p.Pos(loopFn.Pos()), "only the loop function and what it calls synchronously insert into or delete from the set")
	} else {
		r.Bad("SERVE-WHILE-CLIENTS", construct, p.InsPos(offender), "the set of live connections is modified outside the loop goroutine: the len(conns) == 0 tests race with it")
	}
}

func sortCalls(p *core.Program, cs []*ssa.Call) {
	for i := 1; i < len(cs); i++ {
		for j := i; j > 0 && p.InsPos(cs[j]) < p.InsPos(cs[j-1]); j-- {
			cs[j], cs[j-1] = cs[j-1], cs[j]
		}
	}
}
