package rules

import (
	"go/token"
	"fmt"
	"go/types"
	"strings"

	"golang.org/x/tools/go/ssa"

	"verif/sa/internal/core"
)

func init() {
	register(&core.Spec{
		ID: "C22",
		Explanation: "Decides structural necessary conditions of C22: (CACHE-KEY) every evaluation of module source is dominated by the miss edge of a lookup in the interpreter's module table with the very key under which the module is then installed (so a second import finds it and no second evaluation happens); (INSTALL-PAIR) the namespace is installed before its code runs (circular imports terminate), the namespace returned to the importer is the installed one (all importers share it), and on every path where execution fails the entry is deleted again with the same key (a failed module is not remembered); (RELATIVE-BASE) a relative spec is resolved against the directory of the importing file when the importing code comes from a file and against the working directory otherwise, and the working directory is read when the import runs: no call path from the compiler reaches os.Getwd. Path resolution details and plugin modules are not decided.",
		NotCovered:  "file-system path normalisation, plugin (.so) modules, concurrent imports (see C39)",
		Rules:       []string{"CACHE-KEY", "INSTALL-PAIR", "RELATIVE-BASE", "KEY-IS-PATH: a module read from a file is looked up and installed under the path it is read from", "OP-READONLY: a compiled form (the use form included) keeps no state between executions: its exec method writes no field of the op, not even through sync/atomic, so every execution asks the module table"},
		Patterns:    []string{"./pkg/eval"},
		Run:         func(p *core.Program, r *core.Report) { runC22(p, r); runOpReadonly(p, r, "OP-READONLY") },
		MinCounts:   map[string]int{"CACHE-KEY": 2, "INSTALL-PAIR": 3, "RELATIVE-BASE": 1, "KEY-IS-PATH": 1, "OP-READONLY": 20},
		Trusted:     trustedBase,
		Controls: []core.Control{
			{Name: "failed-module-stays-installed", Rule: "INSTALL-PAIR", File: "pkg/eval/builtin_special.go", Old: "\t\tfm.Evaler.deleteModule(key)\n\t\treturn nil, err", New: "\t\treturn nil, err", Fire: true, Quick: true},
			{Name: "install-after-exec", Rule: "INSTALL-PAIR", File: "pkg/eval/builtin_special.go", Old: "\tfm.Evaler.AddModule(key, ns)\n\terr = exec()\n\tif err != nil {\n\t\t// Unload the namespace.\n\t\tfm.Evaler.deleteModule(key)\n\t\treturn nil, err\n\t}\n\treturn ns, nil", New: "\terr = exec()\n\tif err != nil {\n\t\treturn nil, err\n\t}\n\tfm.Evaler.AddModule(key, ns)\n\treturn ns, nil", Fire: true},
			{Name: "lookup-by-spec-install-by-path", Rule: "CACHE-KEY", File: "pkg/eval/builtin_special.go", Old: "\tif ns, ok := fm.Evaler.getModule(path); ok {\n\t\treturn ns, nil\n\t}\n\t_, err := os.Stat(path + \".so\")", New: "\tif ns, ok := fm.Evaler.getModule(spec); ok {\n\t\treturn ns, nil\n\t}\n\t_, err := os.Stat(path + \".so\")", Fire: true, Quick: true},
			{Name: "bundled-module-without-lookup", Rule: "CACHE-KEY", File: "pkg/eval/builtin_special.go", Old: "\tif ns, ok := fm.Evaler.getModule(spec); ok {\n\t\treturn ns, nil\n\t}\n\tif code, ok := fm.Evaler.BundledModules[spec]; ok {", New: "\tif code, ok := fm.Evaler.BundledModules[spec]; ok {", Edits: [][2]string{{"\treturn nil, NoSuchModule{spec}\n}\n", "\tif ns, ok := fm.Evaler.getModule(spec); ok {\n\t\treturn ns, nil\n\t}\n\treturn nil, NoSuchModule{spec}\n}\n"}}, Fire: true},
			{Name: "relative-import-always-from-cwd", Rule: "RELATIVE-BASE", File: "pkg/eval/builtin_special.go", Old: "\t\tif fm.src.IsFile {\n\t\t\tdir = filepath.Dir(fm.src.Name)\n\t\t} else {", New: "\t\tif false {\n\t\t\tdir = filepath.Dir(fm.src.Name)\n\t\t} else {", Fire: true},
			{Name: "cwd-read-while-compiling-use", Rule: "RELATIVE-BASE", File: "pkg/eval/builtin_special.go", Old: "func compileUse(cp *compiler, fn *parse.Form) effectOp {\n", New: "func compileUse(cp *compiler, fn *parse.Form) effectOp {\n\tif wd, err := os.Getwd(); err == nil && !cp.src.IsFile {\n\t\tcp.src.Name = wd + \"/\" + cp.src.Name\n\t}\n", Fire: true, Want: "compileUse"},
		},
	})
	register(&core.Spec{
		ID: "C16",
		Explanation: "Decides structural necessary conditions of C16: (GATE) in every function that compiles and then runs code (Evaler.Eval, Frame.PrepareEval) the namespace preparation, the store to the interpreter's global namespace and the execution are dominated by the no-error edges of both parse.Parse and compile, so code with a static error never starts; (COMPILE-PURE) compile works on a clone of the static namespace it is given and touches its argument only to clone it, so a failed compilation leaves the namespace as it was; (CHECK-AGREE) every caller of compile (evaluation and the static check alike) passes the static view of the interpreter's builtin namespace and of the namespace the code would run in, the static check compiles the tree that parse.Parse returned, and what it returns is a constant, a parameter or derived from the compilation it has just done (not an answer remembered from an earlier state of the namespaces). That the two report the same set of errors for every program, and that compilation itself has no output side effects other than deprecation warnings, is not decided.",
		NotCovered:  "equality of the error sets for every program; side effects of deprecation warnings",
		Rules:       []string{"GATE", "COMPILE-PURE", "CHECK-AGREE", "NO-GLOBAL-CAPTURE: nothing the compiler reaches stores the address of a package-level variable (state written while compiling must not outlive the compilation)"},
		Patterns:    []string{"./pkg/eval"},
		Run:         func(p *core.Program, r *core.Report) { runC16(p, r); runCheckModeInert(p, r); runNoGlobalCapture(p, r) },
		MinCounts:   map[string]int{"GATE": 4, "COMPILE-PURE": 1, "CHECK-AGREE": 3, "NO-GLOBAL-CAPTURE": 1},
		Trusted:     trustedBase,
		Controls: []core.Control{
			{Name: "global-stored-before-compile-error-test", Rule: "GATE", File: "pkg/eval/eval.go", Old: "\top, _, err := compile(b.static(), cfg.Global.static(), nil, tree, errFile)\n\tif err != nil {", New: "\top, _, err := compile(b.static(), cfg.Global.static(), nil, tree, errFile)\n\tif defaultGlobal && op.template != nil {\n\t\tev.global = &Ns{ev.global.slots, op.template.infos}\n\t}\n\tif err != nil {", Fire: true, Quick: true},
			{Name: "exec-despite-parse-error", Rule: "GATE", File: "pkg/eval/frame.go", Old: "\ttree, err := parse.Parse(src, parse.Config{WarningWriter: fm.ErrorFile()})\n\tif err != nil {\n\t\treturn nil, nil, err\n\t}\n\tlocal := fm.local", New: "\ttree, _ := parse.Parse(src, parse.Config{WarningWriter: fm.ErrorFile()})\n\tlocal := fm.local", Fire: true},
			{Name: "compile-mutates-callers-namespace", Rule: "COMPILE-PURE", File: "pkg/eval/compiler.go", Old: "\tg = g.clone()\n", New: "", Fire: true, Quick: true},
			{Name: "check-compiles-against-empty-builtin", Rule: "CHECK-AGREE", File: "pkg/eval/eval.go", Old: "\t_, autofixes, compileErr := compile(b.static(), g.static(), modules, tree, w)", New: "\t_, autofixes, compileErr := compile(new(Ns).static(), g.static(), modules, tree, w)\n\t_ = b", Fire: true},
			{Name: "check-result-memoised-by-code", Rule: "CHECK-AGREE", File: "pkg/eval/eval.go", Old: "\t_, autofixes, compileErr := compile(b.static(), g.static(), modules, tree, w)\n\treturn autofixes, compileErr\n", New: "\tif r, ok := checkMemo[tree.Source.Code]; ok {\n\t\treturn r.fixes, r.err\n\t}\n\t_, autofixes, compileErr := compile(b.static(), g.static(), modules, tree, w)\n\tcheckMemo[tree.Source.Code] = checkMemoEntry{autofixes, compileErr}\n\treturn autofixes, compileErr\n}\n\ntype checkMemoEntry struct {\n\tfixes []string\n\terr   error\n}\n\nvar checkMemo = map[string]checkMemoEntry{}\n\nfunc unusedCheckMemo() {\n", Fire: true, Want: "CheckTree"},
			{Name: "benign-check-empty-tree-fast-path", Rule: "CHECK-AGREE", File: "pkg/eval/eval.go", Old: "\t_, autofixes, compileErr := compile(b.static(), g.static(), modules, tree, w)\n\treturn autofixes, compileErr\n", New: "\tif tree.Root == nil {\n\t\treturn nil, nil\n\t}\n\t_, autofixes, compileErr := compile(b.static(), g.static(), modules, tree, w)\n\treturn autofixes, compileErr\n", Fire: false},
			{Name: "autofix-also-declares-the-module", Rule: "CHECK-AGREE", File: "pkg/eval/compiler.go", Old: "\t\tcp.autofixes = append(cp.autofixes, \"use \"+mod)\n", New: "\t\tcp.autofixes = append(cp.autofixes, \"use \"+mod)\n\t\tcp.thisScope().add(mod + NsSuffix)\n", Fire: true, Want: "autofixUnresolvedVar"},
			{Name: "benign-autofix-deduplicated", Rule: "CHECK-AGREE", File: "pkg/eval/compiler.go", Old: "\t\tcp.autofixes = append(cp.autofixes, \"use \"+mod)\n", New: "\t\tif fix := \"use \" + mod; !sliceContains(cp.autofixes, fix) {\n\t\t\tcp.autofixes = append(cp.autofixes, fix)\n\t\t}\n", Fire: false},
			{Name: "benign-error-tests-swapped-order", Rule: "GATE", File: "pkg/eval/frame.go", Old: "\tif err != nil {\n\t\treturn nil, nil, err\n\t}\n\tnewLocal, exec := op.prepare(newFm)", New: "\tif err == nil {\n\t\tnewLocal, exec := op.prepare(newFm)\n\t\treturn newLocal, exec, nil\n\t}\n\treturn nil, nil, err\n}\n\nfunc unusedPrepare(op nsOp, newFm *Frame) (*Ns, func() Exception, error) {\n\tnewLocal, exec := op.prepare(newFm)", Fire: false},
		},
	})
}

func isEvalerMethodCall(ins ssa.Instruction, name string) *ssa.Call {
	c, ok := ins.(*ssa.Call)
	if !ok {
		return nil
	}
	if callee := c.Call.StaticCallee(); callee != nil && core.IsFunc(callee, pkgEval, "Evaler", name) {
		return c
	}
	return nil
}

func sameVar(a, b ssa.Value) bool {
	if a == b {
		return true
	}
	return cellOf(a) == cellOf(b) && cellOf(a) != a
}

func runC22(p *core.Program, r *core.Report) {
	evalModule := p.Func(pkgEval, "evalModule")
	use := p.Func(pkgEval, "use")
	if !r.Anchor("CACHE-KEY", "eval.evalModule and eval.use", evalModule != nil && use != nil) {
		return
	}
	// CACHE-KEY: every call of evalModule is dominated by the miss edge of getModule with the same key
	ncalls := 0
	for _, fn := range p.FnsInPkg(pkgEval) {
		core.Instrs(fn, func(ins ssa.Instruction) {
			c, ok := ins.(*ssa.Call)
			if !ok || c.Call.StaticCallee() != evalModule {
				return
			}
			ncalls++
			key := c.Call.Args[1]
			construct := core.FnKey(fn) + " evalModule(key=" + addrDesc(key) + ") after a miss for the same key"
			found := missDominated(p, ins, key, 0)
			if found {
				r.OK("CACHE-KEY", construct, p.InsPos(ins), "dominated by the not-found edge of getModule(k) with the same k that evalModule installs")
			} else {
				r.Bad("CACHE-KEY", construct, p.InsPos(ins), "module source is evaluated without a preceding failed lookup of the same key in the module table: a module already imported under that key is evaluated again (and importers get different namespaces)")
			}
		})
	}
	r.Anchor("CACHE-KEY", "calls of evalModule", ncalls >= 2)

	// INSTALL-PAIR
	var add, del, exec *ssa.Call
	var prep *ssa.Call
	core.Instrs(evalModule, func(ins ssa.Instruction) {
		if c := isEvalerMethodCall(ins, "AddModule"); c != nil {
			add = c
		}
		if c := isEvalerMethodCall(ins, "deleteModule"); c != nil {
			del = c
		}
		if c, ok := ins.(*ssa.Call); ok {
			if callee := c.Call.StaticCallee(); callee != nil && core.IsFunc(callee, pkgEval, "Frame", "PrepareEval") {
				prep = c
			}
			if callee := c.Call.StaticCallee(); callee == nil && !c.Call.IsInvoke() {
				if ex, ok := c.Call.Value.(*ssa.Extract); ok && prep != nil && ex.Tuple == prep && ex.Index == 1 {
					exec = c
				}
			}
		}
	})
	if r.Anchor("INSTALL-PAIR", "PrepareEval, AddModule, exec() and deleteModule in evalModule", prep != nil && add != nil && exec != nil) {
		keyPrm := evalModule.Params[1]
		if core.Precedes(add, exec) && add.Call.Args[1] == ssa.Value(keyPrm) {
			r.OK("INSTALL-PAIR", "eval.evalModule installs the namespace under key before executing", p.InsPos(add), "AddModule(key, ns) dominates exec()")
		} else {
			r.Bad("INSTALL-PAIR", "eval.evalModule installs the namespace under key before executing", p.InsPos(add), "the module's namespace is not installed under its key before its code runs: a circular import evaluates the module again (unbounded recursion)")
		}
		// installed ns == returned ns == PrepareEval's ns
		nsOK := false
		if ex, ok := add.Call.Args[2].(*ssa.Extract); ok && ex.Tuple == prep && ex.Index == 0 {
			core.Instrs(evalModule, func(ins ssa.Instruction) {
				if ret, ok := ins.(*ssa.Return); ok && len(ret.Results) == 2 && ret.Results[0] == ssa.Value(ex) {
					nsOK = true
				}
			})
		}
		if nsOK {
			r.OK("INSTALL-PAIR", "eval.evalModule returns the installed namespace", p.InsPos(add), "the namespace handed to AddModule is the one returned to the importer")
		} else {
			r.Bad("INSTALL-PAIR", "eval.evalModule returns the installed namespace", p.InsPos(add), "the importer receives a different namespace from the one remembered for later imports")
		}
		// on failure: delete with same key on every path
		construct := "eval.evalModule deletes the entry on every failing path"
		if del == nil || del.Call.Args[1] != ssa.Value(keyPrm) {
			r.Bad("INSTALL-PAIR", construct, p.InsPos(exec), "the failing path does not remove exactly the module's own entry (no deleteModule(key) with the key it was installed under): either the failed module stays in the table and a later import silently gets the half-initialised namespace, or something other than that one entry is removed")
		} else {
			// failing edge of `exec() != nil`
			okAll := false
			for _, ref := range *exec.Referrers() {
				cmp, ok := ref.(*ssa.BinOp)
				if !ok {
					// exec result may be converted first
					continue
				}
				for _, r2 := range *cmp.Referrers() {
					iff, ok := r2.(*ssa.If)
					if !ok {
						continue
					}
					fail := iff.Block().Succs[0]
					if cmp.Op == token.EQL {
						fail = iff.Block().Succs[1]
					}
					if len(fail.Instrs) > 0 {
						isDel := func(x ssa.Instruction) bool { return x == ssa.Instruction(del) }
						if isDel(fail.Instrs[0]) {
							okAll = true
						} else if ok2, _ := core.MustPass(fail.Instrs[0], isDel, nil); ok2 {
							okAll = true
						}
					}
				}
			}
			if !okAll {
				// the error may pass through a conversion (Exception -> error)
				okAll = errPathPasses(exec, del)
			}
			if okAll {
				r.OK("INSTALL-PAIR", construct, p.InsPos(del), "every path on which exec() returned an exception passes deleteModule(key) before returning")
			} else {
				r.Bad("INSTALL-PAIR", construct, p.InsPos(del), "a failing path returns without deleting the module entry")
			}
		}
	}

	// TABLE-KEYED: after construction the module table changes one key at a
	// time (m[k] = ns, delete(m, k)); it is never replaced wholesale, which
	// would forget modules loaded in the meantime and evaluate them again
	ntab := 0
	for _, fn := range p.FnsInPkg(pkgEval) {
		core.Instrs(fn, func(ins ssa.Instruction) {
			var fa *ssa.FieldAddr
			kind := ""
			switch x := ins.(type) {
			case *ssa.Store:
				if f, ok := x.Addr.(*ssa.FieldAddr); ok {
					fa, kind = f, "replaces"
				}
			case *ssa.MapUpdate:
				if addr, ok := core.IsLoad(x.Map); ok {
					if f, ok := addr.(*ssa.FieldAddr); ok {
						fa, kind = f, "sets one key of"
					}
				}
			case *ssa.Call:
				if b, ok := x.Call.Value.(*ssa.Builtin); ok && b.Name() == "delete" {
					if addr, ok := core.IsLoad(x.Call.Args[0]); ok {
						if f, ok := addr.(*ssa.FieldAddr); ok {
							fa, kind = f, "deletes one key of"
						}
					}
				}
			}
			if fa == nil {
				return
			}
			n, f := core.FieldName(fa)
			if n == nil || n.Obj().Name() != "Evaler" || n.Obj().Pkg() == nil || n.Obj().Pkg().Path() != pkgEval || f != "modules" {
				return
			}
			ntab++
			construct := core.FnKey(fn) + " " + kind + " Evaler.modules"
			switch {
			case kind != "replaces":
				r.OK("INSTALL-PAIR", construct, p.InsPos(ins), "single-key update")
			case freshBase(fa.X):
				r.OK("INSTALL-PAIR", construct, p.InsPos(ins), "initialisation of a new Evaler")
			default:
				r.Bad("INSTALL-PAIR", construct, p.InsPos(ins), "the whole module table of a live Evaler is replaced: modules installed since the replaced table was built are forgotten, so their next import evaluates them a second time and importers hold different namespaces")
			}
		})
	}
	r.Anchor("INSTALL-PAIR", "writes to Evaler.modules", ntab >= 2)

	// KEY-IS-PATH: a module read from a file is cached under the path it was
	// read from, whatever spec led to it (two routes to one file must meet
	// in one cache entry)
	readFile := p.Func(pkgEval, "readFileUTF8")
	if r.Anchor("KEY-IS-PATH", "eval.readFileUTF8", readFile != nil) {
		nk := 0
		for _, fn := range p.FnsInPkg(pkgEval) {
			var reads []ssa.Value
			var evals []*ssa.Call
			var lookups []*ssa.Call
			core.Instrs(fn, func(ins ssa.Instruction) {
				c, ok := ins.(*ssa.Call)
				if !ok {
					return
				}
				switch {
				case c.Call.StaticCallee() == readFile:
					if b, ok := c.Call.Args[0].(*ssa.BinOp); ok && b.Op == token.ADD {
						reads = append(reads, b.X)
					} else {
						reads = append(reads, c.Call.Args[0])
					}
				case c.Call.StaticCallee() == evalModule:
					evals = append(evals, c)
				case isEvalerMethodCall(c, "getModule") != nil:
					lookups = append(lookups, c)
				}
			})
			if len(reads) == 0 || len(evals) == 0 {
				continue
			}
			for _, ev := range evals {
				nk++
				construct := core.FnKey(fn) + " file module cached under the path it is read from"
				okKey := false
				for _, rd := range reads {
					if sameVar(rd, ev.Call.Args[1]) {
						okKey = true
					}
				}
				okLookup := false
				for _, lk := range lookups {
					for _, rd := range reads {
						if sameVar(rd, lk.Call.Args[1]) {
							okLookup = true
						}
					}
				}
				if !okLookup {
					// the lookup may have been made by the (only) callers of
					// an extracted helper, with the argument that becomes
					// the path here
					for _, rd := range reads {
						if missDominated(p, ev, rd, 0) {
							okLookup = true
						}
					}
				}
				if okKey && okLookup {
					r.OK("KEY-IS-PATH", construct, p.InsPos(ev), "the cache key of both the lookup and the installation is the variable the file name is built from")
				} else {
					r.Bad("KEY-IS-PATH", construct, p.InsPos(ev), "a module file is looked up or installed under a key other than the path it is read from: the same file reached through two different specs (library spec and relative spec) is evaluated twice and its importers get different namespaces")
				}
			}
		}
		r.Anchor("KEY-IS-PATH", "function reading a module file and evaluating it", nk >= 1)
	}

	// RELATIVE-BASE
	useFromFile := p.Func(pkgEval, "useFromFile")
	if r.Anchor("RELATIVE-BASE", "eval.useFromFile", useFromFile != nil) {
		// the base directory is chosen in use itself or in a helper it calls
		var dirCall, wdCall *ssa.Call
		baseFn := use
		cands := []*ssa.Function{use}
		core.Instrs(use, func(ins ssa.Instruction) {
			if c, ok := ins.(*ssa.Call); ok {
				if callee := c.Call.StaticCallee(); callee != nil && core.PkgPathOf(callee) == pkgEval && callee.Blocks != nil {
					cands = append(cands, callee)
				}
			}
		})
		for _, cand := range cands {
			var d, w *ssa.Call
			core.Instrs(cand, func(ins ssa.Instruction) {
				if c, ok := ins.(*ssa.Call); ok {
					if callee := c.Call.StaticCallee(); callee != nil {
						switch callee.String() {
						case "path/filepath.Dir":
							d = c
						case "os.Getwd":
							w = c
						}
					}
				}
			})
			if d != nil && w != nil {
				dirCall, wdCall, baseFn = d, w, cand
				break
			}
		}
		isFileCond := func(v ssa.Value) bool {
			v = throughCell(v)
			switch x := v.(type) {
			case *ssa.UnOp:
				if fa, ok := x.X.(*ssa.FieldAddr); ok {
					_, f := core.FieldName(fa)
					return f == "IsFile"
				}
			case *ssa.Field:
				_, f := core.FieldOfValue(x)
				return f == "IsFile"
			}
			return false
		}
		// the working directory is consulted when the import runs, not when the
		// code is compiled: nothing the compiler calls reaches os.Getwd
		{
			var roots []*ssa.Function
			for _, fn := range p.FnsInPkg(pkgEval) {
				if fn.Parent() != nil {
					continue
				}
				isCompiler := func(t types.Type) bool {
					ptr, ok := t.(*types.Pointer)
					return ok && core.IsNamed(ptr.Elem(), pkgEval, "compiler")
				}
				if recv := fn.Signature.Recv(); recv != nil && isCompiler(recv.Type()) {
					roots = append(roots, fn)
				} else if fn.Signature.Params().Len() > 0 && isCompiler(fn.Signature.Params().At(0).Type()) {
					roots = append(roots, fn)
				}
			}
			if r.Anchor("RELATIVE-BASE", "functions of the compiler (receiver or first parameter *compiler)", len(roots) >= 10) {
				seen := map[*ssa.Function]bool{}
				var hit ssa.Instruction
				var via *ssa.Function
				var visit func(f, root *ssa.Function)
				visit = func(f, root *ssa.Function) {
					if f == nil || seen[f] || f.Blocks == nil || core.PkgPathOf(f) != pkgEval {
						return
					}
					seen[f] = true
					core.Instrs(f, func(ins ssa.Instruction) {
						c, ok := ins.(ssa.CallInstruction)
						if !ok {
							return
						}
						if callee := c.Common().StaticCallee(); callee != nil {
							if callee.String() == "os.Getwd" && hit == nil {
								hit, via = ins, root
							}
							visit(callee, root)
						}
						if cl, ok := closureOf(c.Common().Value); ok {
							visit(cl, root)
						}
					})
				}
				for _, f := range roots {
					visit(f, f)
				}
				construct := "the compiler does not read the working directory"
				if hit == nil {
					r.OK("RELATIVE-BASE", construct, p.Pos(use.Pos()), fmt.Sprintf("no call path from %d compiler functions reaches os.Getwd", len(roots)))
				} else {
					r.Bad("RELATIVE-BASE", construct, p.InsPos(hit), "os.Getwd is reached from "+core.FnKey(via)+" while the code is being compiled: the directory a relative import resolves against is then fixed before the code runs, so `cd sub; use ./m` in one chunk (or a function defined before a cd) imports from the old directory")
				}
			}
		}
		construct := "eval.use relative spec resolved against the importing file or the working directory"
		if dirCall != nil && wdCall != nil && dominatedByCondEdge(baseFn, isFileCond, true, dirCall.Block()) && dominatedByCondEdge(baseFn, isFileCond, false, wdCall.Block()) {
			// Dir's argument must be the source name
			r.OK("RELATIVE-BASE", construct, p.InsPos(dirCall), "filepath.Dir(source name) on the IsFile edge, os.Getwd() otherwise")
		} else {
			r.Bad("RELATIVE-BASE", construct, p.Pos(use.Pos()), "a relative import is not resolved against the importing file's directory for file sources / the working directory otherwise")
		}
	}
}

// errPathPasses: some comparison of (a conversion of) the call's result with
// nil has a failing edge on which every path passes del.
func errPathPasses(exec *ssa.Call, del *ssa.Call) bool {
	var vals []ssa.Value
	vals = append(vals, exec)
	for i := 0; i < len(vals); i++ {
		refs := vals[i].Referrers()
		if refs == nil {
			continue
		}
		for _, ref := range *refs {
			switch x := ref.(type) {
			case *ssa.ChangeInterface:
				vals = append(vals, x)
			case *ssa.MakeInterface:
				vals = append(vals, x)
			case *ssa.Phi:
				vals = append(vals, x)
			case *ssa.Store:
				if cell, ok := x.Addr.(*ssa.Alloc); ok {
					for _, r2 := range *cell.Referrers() {
						if ld, ok := r2.(*ssa.UnOp); ok && ld.Op == token.MUL {
							vals = append(vals, ld)
						}
					}
				}
			case *ssa.BinOp:
				for _, r2 := range *x.Referrers() {
					iff, ok := r2.(*ssa.If)
					if !ok {
						continue
					}
					fail := iff.Block().Succs[0]
					if x.Op == token.EQL {
						fail = iff.Block().Succs[1]
					}
					if len(fail.Instrs) == 0 {
						continue
					}
					isDel := func(y ssa.Instruction) bool { return y == ssa.Instruction(del) }
					if isDel(fail.Instrs[0]) {
						return true
					}
					if ok2, _ := core.MustPass(fail.Instrs[0], isDel, nil); ok2 {
						return true
					}
				}
			}
		}
		if len(vals) > 50 {
			break
		}
	}
	return false
}

func runC16(p *core.Program, r *core.Report) {
	compile := p.Func(pkgEval, "compile")
	prepare := p.Method(pkgEval, "nsOp", "prepare")
	parseFn := p.Func(pkgParse, "Parse")
	if !r.Anchor("GATE", "eval.compile, (eval.nsOp).prepare, parse.Parse", compile != nil && prepare != nil && parseFn != nil) {
		return
	}
	// errOK: blk is dominated by the no-error edge of the call's error result
	errOKEdge := func(fn *ssa.Function, call *ssa.Call, errIdx int, blk *ssa.BasicBlock) bool {
		isErrOf := func(v ssa.Value) bool {
			v = throughCell(v)
			ex, ok := v.(*ssa.Extract)
			return ok && ex.Tuple == ssa.Value(call) && ex.Index == errIdx
		}
		for _, b := range fn.Blocks {
			if len(b.Instrs) == 0 {
				continue
			}
			iff, ok := b.Instrs[len(b.Instrs)-1].(*ssa.If)
			if !ok {
				continue
			}
			cmp, ok := iff.Cond.(*ssa.BinOp)
			if !ok || (cmp.Op != token.NEQ && cmp.Op != token.EQL) {
				continue
			}
			k, isC := cmp.Y.(*ssa.Const)
			if !isC || !k.IsNil() || !isErrOf(cmp.X) {
				continue
			}
			edge := core.EdgeTo(b, blk)
			if (cmp.Op == token.NEQ && edge == 1) || (cmp.Op == token.EQL && edge == 0) {
				return true
			}
		}
		return false
	}
	// functions of pkg/eval that install something into the Evaler themselves
	// (a helper called after compilation counts like the store it performs)
	storesEvaler := map[*ssa.Function]string{}
	for _, fn := range p.FnsInPkg(pkgEval) {
		core.Instrs(fn, func(ins ssa.Instruction) {
			if st, ok := ins.(*ssa.Store); ok {
				if fa, ok := st.Addr.(*ssa.FieldAddr); ok {
					n, f := core.FieldName(fa)
					if n != nil && n.Obj().Name() == "Evaler" && n.Obj().Pkg().Path() == pkgEval && !freshBase(fa.X) {
						storesEvaler[fn] = f
					}
				}
			}
		})
	}
	nGate := 0
	for _, fn := range p.FnsInPkg(pkgEval) {
		if fn.Parent() != nil {
			continue
		}
		var compileCall, parseCall *ssa.Call
		var sensitive []ssa.Instruction
		var what []string
		core.Instrs(fn, func(ins ssa.Instruction) {
			if c, ok := ins.(*ssa.Call); ok {
				switch c.Call.StaticCallee() {
				case compile:
					compileCall = c
				case parseFn:
					parseCall = c
				case prepare:
					sensitive = append(sensitive, ins)
					what = append(what, "nsOp.prepare")
				default:
					if f, ok := storesEvaler[c.Call.StaticCallee()]; ok && c.Call.StaticCallee() != fn {
						sensitive = append(sensitive, ins)
						what = append(what, "store to Evaler."+f+" (through "+c.Call.StaticCallee().Name()+")")
					}
				}
			}
			if st, ok := ins.(*ssa.Store); ok {
				if fa, ok := st.Addr.(*ssa.FieldAddr); ok {
					n, f := core.FieldName(fa)
					if n != nil && n.Obj().Name() == "Evaler" && n.Obj().Pkg().Path() == pkgEval && !freshBase(fa.X) {
						sensitive = append(sensitive, ins)
						what = append(what, "store to Evaler."+f)
					}
				}
			}
		})
		if compileCall == nil {
			continue
		}
		hasPrepare := false
		for _, w := range what {
			if w == "nsOp.prepare" {
				hasPrepare = true
			}
		}
		if !hasPrepare {
			continue // static check only (CheckTree): nothing runs
		}
		// calls of the exec closure returned by prepare
		core.Instrs(fn, func(ins ssa.Instruction) {
			if c, ok := ins.(*ssa.Call); ok && c.Call.StaticCallee() == nil && !c.Call.IsInvoke() {
				if ex, ok := c.Call.Value.(*ssa.Extract); ok {
					if pc, ok := ex.Tuple.(*ssa.Call); ok && pc.Call.StaticCallee() == prepare {
						sensitive = append(sensitive, ins)
						what = append(what, "execution of the compiled code")
					}
				}
			}
		})
		for i, ins := range sensitive {
			nGate++
			construct := core.FnKey(fn) + " " + what[i] + " only after successful parse and compile"
			okCompile := errOKEdge(fn, compileCall, 2, ins.Block())
			okParse := parseCall == nil || errOKEdge(fn, parseCall, 1, ins.Block())
			switch {
			case okCompile && okParse:
				r.OK("GATE", construct, p.InsPos(ins), "dominated by the err == nil edges of parse.Parse and compile")
			case !okCompile:
				r.Bad("GATE", construct, p.InsPos(ins), what[i]+" can happen although compile reported an error: code with a compilation error has an effect")
			default:
				r.Bad("GATE", construct, p.InsPos(ins), what[i]+" can happen although parse.Parse reported an error: code with a parse error has an effect")
			}
		}
	}
	r.Anchor("GATE", "functions that compile and prepare/execute", nGate >= 3)

	// COMPILE-PURE: the namespace parameter g is used only to clone it
	g := compile.Params[1]
	onlyClone := true
	nref := 0
	for _, ref := range *g.Referrers() {
		if _, ok := ref.(*ssa.DebugRef); ok {
			continue
		}
		nref++
		c, ok := ref.(*ssa.Call)
		if !ok || c.Call.StaticCallee() == nil || c.Call.StaticCallee().Name() != "clone" {
			onlyClone = false
		}
	}
	if onlyClone && nref >= 1 {
		r.OK("COMPILE-PURE", "eval.compile uses its namespace argument only to clone it", p.Pos(compile.Pos()), "every use of the parameter is g.clone(); the compiler mutates the clone")
	} else {
		r.Bad("COMPILE-PURE", "eval.compile uses its namespace argument only to clone it", p.Pos(compile.Pos()), "compile hands the caller's static namespace to the compiler without cloning it: a failed compilation (or a static check) leaves new variable slots behind in the caller's namespace")
	}

	// CLONE-FRESH: staticNs.clone returns storage that shares nothing with its receiver
	clone := p.Method(pkgEval, "staticNs", "clone")
	if r.Anchor("COMPILE-PURE", "(*eval.staticNs).clone", clone != nil) {
		// (with the fresh-return fixpoint of pkg/eval, so that a copying
		// helper such as cloneInfos counts)
		fe := newFreshEngine(p, pkgEval)
		okClone, n := true, 0
		core.Instrs(clone, func(ins ssa.Instruction) {
			st, ok := ins.(*ssa.Store)
			if !ok {
				return
			}
			fa, ok := st.Addr.(*ssa.FieldAddr)
			if !ok {
				return
			}
			if _, isAlloc := fa.X.(*ssa.Alloc); !isAlloc {
				return
			}
			if _, isSlice := st.Val.Type().Underlying().(*types.Slice); !isSlice {
				return
			}
			n++
			if !fe.fresh(st.Val, map[ssa.Value]bool{}) {
				okClone = false
			}
		})
		if okClone && n >= 1 {
			r.OK("COMPILE-PURE", "(*eval.staticNs).clone copies the variable table", p.Pos(clone.Pos()), "the slice stored in the clone is freshly allocated (append(nil, ...)/make+copy)")
		} else {
			r.Bad("COMPILE-PURE", "(*eval.staticNs).clone copies the variable table", p.Pos(clone.Pos()), "the clone shares the backing array of the namespace it was cloned from: in-place updates made while compiling (marking a shadowed or deleted variable) leak into the live namespace even when compilation fails or the code is only checked")
		}
	}

	// CHECK-AGREE: arguments of every compile call
	for _, fn := range p.FnsInPkg(pkgEval) {
		core.Instrs(fn, func(ins ssa.Instruction) {
			c, ok := ins.(*ssa.Call)
			if !ok || c.Call.StaticCallee() != compile {
				return
			}
			fk := core.FnKey(fn)
			// arg0: X.static() with X from Evaler.builtin / Evaler.Builtin()
			okB := false
			if sc, ok := c.Call.Args[0].(*ssa.Call); ok && sc.Call.StaticCallee() != nil && sc.Call.StaticCallee().Name() == "static" {
				src := throughCell(sc.Call.Args[0])
				if isEvalerMethodCall(asIns(src), "Builtin") != nil {
					okB = true
				}
				if addr, isLd := core.IsLoad(src); isLd {
					if fa, ok := addr.(*ssa.FieldAddr); ok {
						n, f := core.FieldName(fa)
						okB = n != nil && n.Obj().Name() == "Evaler" && f == "builtin"
					}
				}
			}
			if !okB {
				if sc, ok := c.Call.Args[0].(*ssa.Call); ok && sc.Call.StaticCallee() != nil && sc.Call.StaticCallee().Name() == "static" {
					okB = helperReturnsEvalerField(throughCell(sc.Call.Args[0]), "builtin")
				}
			}
			if okB {
				r.OK("CHECK-AGREE", fk+" compiles against the interpreter's builtin namespace", p.InsPos(ins), "first argument is Evaler.builtin.static()")
			} else {
				r.Bad("CHECK-AGREE", fk+" compiles against the interpreter's builtin namespace", p.InsPos(ins), "compile is not given the static view of the interpreter's builtin namespace: the static check and evaluation resolve names differently")
			}
			okG := false
			if sc, ok := c.Call.Args[1].(*ssa.Call); ok && sc.Call.StaticCallee() != nil && sc.Call.StaticCallee().Name() == "static" && strings.HasSuffix(sc.Call.Args[0].Type().String(), "eval.Ns") {
				okG = true
			}
			if okG {
				r.OK("CHECK-AGREE", fk+" compiles against the static view of a real namespace", p.InsPos(ins), "second argument is ns.static()")
			} else {
				r.Bad("CHECK-AGREE", fk+" compiles against the static view of a real namespace", p.InsPos(ins), "compile is not given ns.static() of the namespace the code runs in")
			}
			// a function that compiles without running the result is a static
			// check: what it reports comes from this compilation, not from
			// something remembered from an earlier one (the namespaces may
			// have changed in between; nothing versions them)
			opUsed := false
			for _, ref := range *c.Referrers() {
				if ex, ok := ref.(*ssa.Extract); ok && ex.Index == 0 && ex.Referrers() != nil && len(*ex.Referrers()) > 0 {
					opUsed = true
				}
			}
			if opUsed {
				return
			}
			construct := fk + " reports the result of the compilation it has just done"
			var stale ssa.Instruction
			staleWhat := ""
			core.Instrs(fn, func(i2 ssa.Instruction) {
				ret, ok := i2.(*ssa.Return)
				if !ok {
					return
				}
				seen := map[ssa.Value]bool{}
				var walk func(v ssa.Value)
				walk = func(v ssa.Value) {
					if v == nil || seen[v] || stale != nil {
						return
					}
					seen[v] = true
					switch x := v.(type) {
					case *ssa.Const, *ssa.Parameter, *ssa.Function, *ssa.Alloc, *ssa.MakeSlice, *ssa.MakeMap:
					case *ssa.Extract:
						if x.Tuple == ssa.Value(c) {
							return
						}
						walk(x.Tuple)
					case *ssa.Phi:
						for _, e := range x.Edges {
							walk(e)
						}
					case *ssa.Call:
						if x == c {
							return
						}
						for _, a := range x.Call.Args {
							walk(a)
						}
					case *ssa.MakeInterface:
						walk(x.X)
					case *ssa.ChangeInterface:
						walk(x.X)
					case *ssa.ChangeType:
						walk(x.X)
					case *ssa.Convert:
						walk(x.X)
					case *ssa.Slice:
						walk(x.X)
					case *ssa.BinOp:
						walk(x.X)
						walk(x.Y)
					case *ssa.Lookup:
						if _, isMap := x.X.Type().Underlying().(*types.Map); isMap {
							stale, staleWhat = x, "a map lookup"
							return
						}
						walk(x.X)
					case *ssa.UnOp:
						if x.Op == token.MUL {
							if _, isLocal := x.X.(*ssa.Alloc); isLocal {
								return
							}
							stale, staleWhat = x, "a value loaded from "+addrDesc(x.X)
							return
						}
						walk(x.X)
					case *ssa.Field:
						walk(x.X)
					case *ssa.TypeAssert:
						walk(x.X)
					}
				}
				for _, res := range ret.Results {
					walk(res)
				}
			})
			if stale == nil {
				r.OK("CHECK-AGREE", construct, p.InsPos(ins), "every returned value is a constant, a parameter or derived from this call of compile")
			} else {
				r.Bad("CHECK-AGREE", construct, p.InsPos(stale), "the static check returns "+staleWhat+" instead of the outcome of compiling against the namespaces as they are now: after a variable is deleted or a module loaded, the remembered answer disagrees with what evaluation reports")
			}
		})
	}
}

func asIns(v ssa.Value) ssa.Instruction {
	if i, ok := v.(ssa.Instruction); ok {
		return i
	}
	return nil
}

// helperReturnsEvalerField: v is a result of a call to a function of pkg/eval
// all of whose returns give, at that position, the value of Evaler.<field>
// (a snapshot helper extracted from the caller).
func helperReturnsEvalerField(v ssa.Value, field string) bool {
	idx := 0
	var call *ssa.Call
	switch x := v.(type) {
	case *ssa.Extract:
		idx = x.Index
		call, _ = x.Tuple.(*ssa.Call)
	case *ssa.Call:
		call = x
	}
	if call == nil {
		return false
	}
	callee := call.Call.StaticCallee()
	if callee == nil || core.PkgPathOf(callee) != pkgEval || callee.Blocks == nil {
		return false
	}
	n, ok := 0, true
	core.Instrs(callee, func(ins ssa.Instruction) {
		ret, isRet := ins.(*ssa.Return)
		if !isRet {
			return
		}
		n++
		if idx >= len(ret.Results) {
			ok = false
			return
		}
		src := throughCell(ret.Results[idx])
		good := false
		if addr, isLd := core.IsLoad(src); isLd {
			if fa, isFA := addr.(*ssa.FieldAddr); isFA {
				nt, f := core.FieldName(fa)
				good = nt != nil && nt.Obj().Name() == "Evaler" && f == field
			}
		}
		if !good {
			ok = false
		}
	})
	return ok && n > 0
}

// missDominated: ins is reached only after a lookup of key in the module
// table failed - in its own function, or, when key is a parameter of an
// unexported helper, at every call site of that helper (for the argument
// that becomes the key).
func missDominated(p *core.Program, ins ssa.Instruction, key ssa.Value, depth int) bool {
	fn := ins.Parent()
	for _, b := range fn.Blocks {
		if len(b.Instrs) == 0 {
			continue
		}
		iff, ok := b.Instrs[len(b.Instrs)-1].(*ssa.If)
		if !ok {
			continue
		}
		ex, ok := iff.Cond.(*ssa.Extract)
		if !ok || ex.Index != 1 {
			continue
		}
		lookup, ok := ex.Tuple.(*ssa.Call)
		if !ok || isEvalerMethodCall(lookup, "getModule") == nil {
			continue
		}
		if core.EdgeTo(b, ins.Block()) != 1 {
			continue
		}
		if sameVar(lookup.Call.Args[1], key) {
			return true
		}
	}
	if depth >= 2 || fn.Parent() != nil {
		return false
	}
	if obj := fn.Object(); obj == nil || obj.Exported() {
		return false
	}
	// key must be (a single-assignment copy of) a parameter
	idx := -1
	kv := throughCell(key)
	for i, prm := range fn.Params {
		if kv == ssa.Value(prm) || sameVar(key, prm) {
			idx = i
		}
	}
	if idx < 0 {
		return false
	}
	n := 0
	ok := true
	for _, caller := range p.FnsInPkg(core.PkgPathOf(fn)) {
		core.Instrs(caller, func(x ssa.Instruction) {
			c, isCall := x.(ssa.CallInstruction)
			if !isCall {
				for _, op := range x.Operands(nil) {
					if *op == ssa.Value(fn) {
						ok = false // the helper escapes as a value
					}
				}
				return
			}
			if c.Common().StaticCallee() != fn {
				return
			}
			n++
			if idx >= len(c.Common().Args) || !missDominated(p, x, c.Common().Args[idx], depth+1) {
				ok = false
			}
		})
	}
	return ok && n > 0
}
