package rules

import (
	"golang.org/x/tools/go/ssa"

	"verif/sa/internal/core"
)

// builtinFn finds the Go function registered as the Elvish command
// "<module>:<name>" (e.g. "eval:peach") in a builtin table, so that renaming
// the unexported Go function does not lose the anchor; when the registration
// is not found (or is ambiguous) it falls back to the function called goName
// in pkg. (No cache: a cache keyed by program would keep every in-memory
// variant of the program alive.)
func builtinFn(p *core.Program, command, pkg, goName string) *ssa.Function {
	var found *ssa.Function
	n := 0
	for fn, name := range discoverEntries(p) {
		if name == command {
			found = fn
			n++
		}
	}
	if n == 1 {
		return found
	}
	return p.Func(pkg, goName)
}
