package rules

import (
	"go/token"
	"go/types"

	"golang.org/x/tools/go/ssa"

	"verif/sa/internal/core"
)

// runStringBytes (C09 STRING-BYTES): compare orders strings by bytes. In the
// comparison machinery (the functions of pkg/eval/vals reachable from
// vals.Cmp), two strings obtained by asserting the compared values are
// ordered only by Go's built-in string comparison - directly, through
// strings.Compare / cmp.Compare, or through a helper whose body does nothing
// with them but compare them with each other. Anything that looks inside the
// strings (indexing, slicing, len, decoding, ranging) on the way to the
// result is some other order; where it differs from byte order (invalid
// UTF-8, say) compare contradicts eq and may lose transitivity.
func runStringBytes(p *core.Program, r *core.Report, reach []*ssa.Function) {
	const rule = "STRING-BYTES"
	n := 0
	isStr := func(t types.Type) bool {
		b, ok := t.Underlying().(*types.Basic)
		return ok && b.Kind() == types.String
	}
	for _, fn := range reach {
		// strings asserted out of interface values
		strs := map[ssa.Value]bool{}
		core.Instrs(fn, func(ins ssa.Instruction) {
			ta, ok := ins.(*ssa.TypeAssert)
			if !ok || !isStr(ta.AssertedType) {
				return
			}
			if !ta.CommaOk {
				strs[ta] = true
				return
			}
			for _, ref := range *ta.Referrers() {
				if ex, ok := ref.(*ssa.Extract); ok && ex.Index == 0 {
					strs[ex] = true
				}
			}
		})
		if len(strs) < 2 {
			continue
		}
		for v := range strs {
			for _, ref := range *v.Referrers() {
				ins := ref
				construct := core.FnKey(fn) + " orders strings by the built-in comparison"
				bad := func(why string) {
					r.Bad(rule, construct, p.InsPos(ins), why+": strings are no longer ordered by bytes, so for some strings (invalid UTF-8, for one) compare contradicts eq - two different strings compare equal - or is not transitive, and order and the printed order of map keys follow")
				}
				switch x := ref.(type) {
				case *ssa.BinOp:
					other := x.X
					if other == v {
						other = x.Y
					}
					if strs[other] {
						switch x.Op {
						case token.LSS, token.GTR, token.LEQ, token.GEQ, token.EQL, token.NEQ:
							n++
							r.OK(rule, construct, p.InsPos(ins), "built-in "+x.Op.String()+" on the two strings")
						}
					}
				case *ssa.Call:
					if b, ok := x.Call.Value.(*ssa.Builtin); ok {
						if b.Name() == "len" {
							n++
							bad("the length of a compared string is taken in the comparison machinery")
						}
						continue
					}
					callee := x.Call.StaticCallee()
					var idxs []int
					for i, a := range x.Call.Args {
						if strs[a] {
							idxs = append(idxs, i)
						}
					}
					if callee == nil || len(idxs) < 2 {
						continue
					}
					// count each call once (it is a referrer of both strings)
					if x.Call.Args[idxs[0]] != v {
						continue
					}
					n++
					switch callee.String() {
					case "strings.Compare", "cmp.Compare[string]", "cmp.Compare", "cmp.Less[string]", "cmp.Less":
						r.OK(rule, construct, p.InsPos(ins), callee.String()+" on the two strings")
						continue
					}
					body := core.Origin(callee)
					if body.Blocks == nil {
						body = callee
					}
					if body.Blocks == nil || len(body.Params) != len(x.Call.Args) {
						bad("the two strings are handed to " + callee.String() + ", whose body is not available")
						continue
					}
					if why := onlyComparedWithEachOther(body, idxs); why != "" {
						bad("the two strings are handed to " + callee.Name() + ", which " + why)
					} else {
						r.OK(rule, construct, p.InsPos(ins), callee.Name()+" does nothing with its operands but compare them with the built-in operators")
					}
				case *ssa.Index, *ssa.Slice, *ssa.Lookup, *ssa.Range, *ssa.Convert:
					n++
					bad("a compared string is indexed, sliced, ranged over or converted in the comparison machinery")
				}
			}
		}
	}
	r.Count(rule+" comparisons of two strings in the comparison machinery", n)
}

// onlyComparedWithEachOther: the parameters at idxs of fn are used for
// nothing but built-in comparisons with each other; returns what else is done
// with them, or "".
func onlyComparedWithEachOther(fn *ssa.Function, idxs []int) string {
	prm := map[ssa.Value]bool{}
	for _, i := range idxs {
		prm[fn.Params[i]] = true
	}
	for v := range prm {
		refs := v.Referrers()
		if refs == nil {
			continue
		}
		for _, ref := range *refs {
			switch x := ref.(type) {
			case *ssa.BinOp:
				other := x.X
				if other == v {
					other = x.Y
				}
				if !prm[other] {
					return "compares an operand with something else than the other operand"
				}
				switch x.Op {
				case token.LSS, token.GTR, token.LEQ, token.GEQ, token.EQL, token.NEQ:
				default:
					return "combines its operands with " + x.Op.String()
				}
			case *ssa.DebugRef:
			default:
				return "looks inside its operands (" + describeInstr(ref) + ") instead of comparing them with the built-in operators"
			}
		}
	}
	return ""
}

func describeInstr(ins ssa.Instruction) string {
	switch x := ins.(type) {
	case *ssa.Call:
		if b, ok := x.Call.Value.(*ssa.Builtin); ok {
			return b.Name()
		}
		if callee := x.Call.StaticCallee(); callee != nil {
			return "call of " + callee.Name()
		}
		return "call"
	case *ssa.Index, *ssa.Lookup:
		return "indexing"
	case *ssa.Slice:
		return "slicing"
	case *ssa.Range:
		return "range"
	case *ssa.Store:
		return "store"
	case *ssa.Phi:
		return "phi"
	}
	return "other use"
}
