package rules

import (
	"go/token"
	"go/types"
	"strings"

	"golang.org/x/tools/go/ssa"

	"verif/sa/internal/core"
)

const pkgHistutil = "src.elv.sh/pkg/cli/histutil"

// runSliceOwnBounds (C06 SLICE-OWN-BOUNDS): a slice of a list rejects
// out-of-range requests against its own extent. Every method of the slice type
// (the struct that holds the underlying vector and a begin/end pair) that
// hands `begin + p` to the underlying vector, p being one of its integer
// parameters, first compares p with zero (or with another parameter that was
// compared with zero) and with the extent of the slice (its end field, its
// Len(), or end-begin), on a path that dominates the call.
func runSliceOwnBounds(p *core.Program, r *core.Report) {
	const rule = "SLICE-OWN-BOUNDS"
	n := 0
	for _, fn := range p.FnsInPkg(pkgVector) {
		if fn.Signature.Recv() == nil || fn.Parent() != nil || len(fn.Params) == 0 || len(fn.Blocks) == 0 {
			continue
		}
		recv := fn.Params[0]
		st := structOf(recv.Type())
		if st == nil || !hasIntFields(st, 2) {
			continue
		}
		isExtent := func(v ssa.Value) bool {
			var walk func(v ssa.Value, d int) bool
			walk = func(v ssa.Value, d int) bool {
				if d > 3 {
					return false
				}
				switch x := v.(type) {
				case *ssa.UnOp:
					if fa, ok := x.X.(*ssa.FieldAddr); ok && x.Op == token.MUL && fa.X == ssa.Value(recv) {
						return true
					}
				case *ssa.BinOp:
					return walk(x.X, d+1) && walk(x.Y, d+1)
				case *ssa.Call:
					if callee := x.Call.StaticCallee(); callee != nil && callee.Signature.Recv() != nil && len(x.Call.Args) == 1 && x.Call.Args[0] == ssa.Value(recv) && callee.Name() == "Len" {
						return true
					}
				}
				return false
			}
			return walk(v, 0)
		}
		// comparisons of a parameter in blocks dominating blk
		type cmpInfo struct{ zero, extent bool; against []*ssa.Parameter }
		infoAt := func(prm *ssa.Parameter, blk *ssa.BasicBlock) cmpInfo {
			var out cmpInfo
			core.Instrs(fn, func(ins ssa.Instruction) {
				b, ok := ins.(*ssa.BinOp)
				// the comparison decides whether the delegation is reached: its
				// block dominates it, or (a tagless switch case `a || b` is
				// evaluated as a value through a phi) at least lies before it
				if !ok || !(ins.Block().Dominates(blk) || (ins.Block() != blk && blockReaches(ins.Block(), blk))) {
					return
				}
				switch b.Op {
				case token.LSS, token.GTR, token.LEQ, token.GEQ:
				default:
					return
				}
				var other ssa.Value
				switch {
				case b.X == ssa.Value(prm):
					other = b.Y
				case b.Y == ssa.Value(prm):
					other = b.X
				default:
					return
				}
				if c, isC := constInt(other); isC && c == 0 {
					out.zero = true
				}
				if isExtent(other) {
					out.extent = true
				}
				if q, ok := other.(*ssa.Parameter); ok {
					out.against = append(out.against, q)
				}
			})
			return out
		}
		core.Instrs(fn, func(ins ssa.Instruction) {
			c, ok := ins.(*ssa.Call)
			if !ok {
				return
			}
			for _, a := range c.Call.Args {
				sum, ok := a.(*ssa.BinOp)
				if !ok || sum.Op != token.ADD {
					continue
				}
				var prm *ssa.Parameter
				switch {
				case isRecvField(sum.X, recv):
					prm, _ = sum.Y.(*ssa.Parameter)
				case isRecvField(sum.Y, recv):
					prm, _ = sum.X.(*ssa.Parameter)
				}
				if prm == nil || !isIntType(prm.Type()) {
					continue
				}
				n++
				construct := core.FnKey(fn) + " checks " + prm.Name() + " against the bounds of the slice itself"
				info := infoAt(prm, ins.Block())
				lower := info.zero
				upper := info.extent
				for _, q := range info.against {
					qi := infoAt(q, ins.Block())
					if qi.zero {
						lower = true
					}
					if qi.extent {
						upper = true
					}
				}
				switch {
				case lower && upper:
					r.OK(rule, construct, p.InsPos(ins), "compared with zero and with the extent of the slice before begin+"+prm.Name()+" is handed to the underlying vector")
				case !upper:
					r.Bad(rule, construct, p.InsPos(ins), "the request is passed on to the underlying vector without being compared with the length of the slice: a slice of a slice can reach outside its parent (v[2:5] sliced [0:6] returns six elements) instead of being rejected")
				default:
					r.Bad(rule, construct, p.InsPos(ins), "the request is passed on to the underlying vector without being compared with zero: a negative index reaches elements before the slice")
				}
			}
		})
	}
	r.Count(rule+" delegations of a slice to its underlying vector", n)
}

func structOf(t types.Type) *types.Struct {
	if ptr, ok := t.Underlying().(*types.Pointer); ok {
		t = ptr.Elem()
	}
	st, _ := t.Underlying().(*types.Struct)
	return st
}

func hasIntFields(st *types.Struct, n int) bool {
	k := 0
	for i := 0; i < st.NumFields(); i++ {
		if isIntType(st.Field(i).Type()) {
			k++
		}
	}
	return k >= n
}

func isRecvField(v ssa.Value, recv *ssa.Parameter) bool {
	u, ok := v.(*ssa.UnOp)
	if !ok || u.Op != token.MUL {
		return false
	}
	fa, ok := u.X.(*ssa.FieldAddr)
	return ok && fa.X == ssa.Value(recv)
}

// runNodeIndex (C06 NODE-INDEX): every index into a fixed-size tree node of
// the persistent vector is proven to lie inside the node (masked with the
// chunk mask, a loop counter below the node size, or compared with it).
func runNodeIndex(p *core.Program, r *core.Report) {
	const rule = "NODE-INDEX"
	fe := newFactEngine(p, nil)
	n := 0
	seen := map[string]bool{}
	for _, fn := range p.FnsInPkg(pkgVector) {
		fk := core.FnKey(fn)
		core.Instrs(fn, func(ins ssa.Instruction) {
			var base, idx ssa.Value
			switch x := ins.(type) {
			case *ssa.IndexAddr:
				base, idx = x.X, x.Index
			case *ssa.Index:
				base, idx = x.X, x.Index
			default:
				return
			}
			t := base.Type().Underlying()
			if ptr, ok := t.(*types.Pointer); ok {
				t = ptr.Elem().Underlying()
			}
			arr, ok := t.(*types.Array)
			if !ok {
				return
			}
			if c, isC := constInt(idx); isC {
				if c >= 0 && c < arr.Len() {
					return
				}
			}
			n++
			construct := fk + " node index " + idxDesc(idx)
			if seen[construct] {
				construct += " (again)"
			}
			seen[construct] = true
			facts := fe.at(idx, ins, 0)
			below := false
			for k := range facts {
				if strings.HasPrefix(k, "hi<=") {
					if hi, err := parseInt(k[4:]); err == nil && hi <= arr.Len()-1 {
						below = true
					}
				}
			}
			if needOK(facts, "ge0") && below {
				r.OK(rule, construct, p.InsPos(ins), "index within the node ["+facts.String()+"]")
			} else if why, ok := nodeIndexAudit[construct]; ok {
				r.Audit(rule, construct, p.InsPos(ins), why)
			} else if nodeAndIndexOfOneRecord(base, idx) {
				// (the same audit, recognised by shape so that renaming the
				// record or its fields does not orphan it)
				r.Audit(rule, construct, p.InsPos(ins), "node and index are the two fields of one path record of the iterator, which stores only indices it has just used on that node (masked) or a counter it compared with len(node)")
			} else {
				r.Bad(rule, construct, p.InsPos(ins), "a tree node of "+fmtInt(arr.Len())+" slots is indexed by a value not proven to be below "+fmtInt(arr.Len())+" [known: "+facts.String()+"]: at the lengths where the tree has more than one level the index selects a slot outside the node and the operation crashes (the index must be masked with the chunk mask at every level)")
			}
		})
	}
	r.Count(rule+" indexed accesses of tree nodes", n)
}

// nodeAndIndexOfOneRecord: base and idx are loads of two fields of the same
// struct value (e.node[e.index]).
func nodeAndIndexOfOneRecord(base, idx ssa.Value) bool {
	owner := func(v ssa.Value) ssa.Value {
		switch x := v.(type) {
		case *ssa.Field:
			return x.X
		case *ssa.UnOp:
			if fa, ok := x.X.(*ssa.FieldAddr); ok && x.Op == token.MUL {
				return fa.X
			}
		}
		return nil
	}
	a, b := owner(base), owner(idx)
	return a != nil && a == b
}

var nodeIndexAudit = map[string]string{
	"(persistent/vector.pathEntry).current node index *local:*vector.pathEntry.index": "the iterator stores only indices it has just used to index the same kind of node (newIteratorWithRange, masked) or a counter it compared with len(node) (Next)",
}

// runRuneErrorWidth (C31 RUNEERROR-WIDTH): in the terminal reader, a decoded
// rune is taken for a decoding failure only together with the width the
// decoder reported: U+FFFD is also what a correctly encoded replacement
// character decodes to, so `r == utf8.RuneError` alone rejects plain text.
func runRuneErrorWidth(p *core.Program, r *core.Report) {
	const rule = "RUNEERROR-WIDTH"
	n := 0
	for _, fn := range p.FnsInPkg(pkgTerm) {
		core.Instrs(fn, func(ins ssa.Instruction) {
			cmp, ok := ins.(*ssa.BinOp)
			if !ok || (cmp.Op != token.EQL && cmp.Op != token.NEQ) {
				return
			}
			var other ssa.Value
			if c, isC := constInt(cmp.Y); isC && c == 0xFFFD {
				other = cmp.X
			} else if c, isC := constInt(cmp.X); isC && c == 0xFFFD {
				other = cmp.Y
			} else {
				return
			}
			ex, ok := other.(*ssa.Extract)
			if !ok || ex.Index != 0 {
				return
			}
			call, ok := ex.Tuple.(*ssa.Call)
			if !ok || call.Call.StaticCallee() == nil || core.PkgPathOf(call.Call.StaticCallee()) != "unicode/utf8" || !strings.HasPrefix(call.Call.StaticCallee().Name(), "Decode") {
				return
			}
			n++
			construct := core.FnKey(fn) + " takes U+FFFD for a decoding failure only together with the reported width"
			// a comparison of the width (result 1 of the same call) that
			// decides the same branch: in the same block chain
			widthChecked := false
			for _, ref := range *call.Referrers() {
				w, ok := ref.(*ssa.Extract)
				if !ok || w.Index != 1 {
					continue
				}
				for _, r2 := range *w.Referrers() {
					if b, ok := r2.(*ssa.BinOp); ok && (b.Op == token.EQL || b.Op == token.NEQ || b.Op == token.LEQ || b.Op == token.LSS || b.Op == token.GTR || b.Op == token.GEQ) {
						// the two comparisons guard one another
						if b.Block() == cmp.Block() || b.Block().Dominates(cmp.Block()) || cmp.Block().Dominates(b.Block()) {
							widthChecked = true
						}
					}
				}
			}
			if widthChecked {
				r.OK(rule, construct, p.InsPos(ins), "the width returned by the same decoding call is tested as well")
			} else {
				r.Bad(rule, construct, p.InsPos(ins), "a rune equal to utf8.RuneError is treated as invalid input without looking at the width the decoder returned: a correctly encoded U+FFFD (EF BF BD) in typed or pasted text is reported as an error instead of a key event")
			}
		})
	}
	r.Count(rule+" comparisons of a decoded rune with utf8.RuneError", n)
}

// runDirectionPure (C29 DIRECTION-PURE): a history cursor that is built on
// other cursors moves them only in its own direction: Prev calls Prev, Next
// calls Next. Stepping an inner cursor back inside Next (or forward inside
// Prev) parks it one entry off, and the next walk in the other direction
// skips or repeats a command.
func runDirectionPure(p *core.Program, r *core.Report) {
	const rule = "DIRECTION-PURE"
	n := 0
	for _, fn := range p.FnsInPkg(pkgHistutil) {
		if fn.Signature.Recv() == nil || fn.Parent() != nil {
			continue
		}
		dir := fn.Name()
		if dir != "Prev" && dir != "Next" {
			continue
		}
		k := 0
		core.Instrs(fn, func(ins ssa.Instruction) {
			c, ok := ins.(ssa.CallInstruction)
			if !ok || !c.Common().IsInvoke() {
				return
			}
			m := c.Common().Method.Name()
			if m != "Prev" && m != "Next" {
				return
			}
			if !core.IsNamed(c.Common().Value.Type(), pkgHistutil, "Cursor") {
				return
			}
			n++
			k++
			construct := core.FnKey(fn) + " moves its inner cursor in its own direction #" + fmtInt(int64(k))
			if m == dir {
				r.OK(rule, construct, p.InsPos(ins), dir+" steps the inner cursor with "+m)
			} else {
				r.Bad(rule, construct, p.InsPos(ins), dir+" steps an inner cursor with "+m+": the inner cursor is left one entry off, so the next walk in the other direction skips (or repeats) a matching command, or reports the end of history early")
			}
		})
	}
	r.Count(rule+" inner cursor moves", n)
}

// runDoneLast (C19/C20 DONE-LAST): a goroutine that reports its completion
// with a plain (not deferred) WaitGroup.Done writes nothing its spawner reads
// after Done: whoever waits may return as soon as Done has run, so an error
// recorded afterwards is lost (and is a data race).
func runDoneLast(p *core.Program, r *core.Report, rule string) {
	n := 0
	for _, fn := range p.FnsInPkg(pkgEval) {
		if !startedWithGo(p, fn) {
			continue
		}
		var dones []ssa.Instruction
		core.Instrs(fn, func(ins ssa.Instruction) {
			if c, ok := ins.(*ssa.Call); ok {
				if callee := c.Call.StaticCallee(); callee != nil && callee.String() == "(*sync.WaitGroup).Done" {
					dones = append(dones, ins)
				}
			}
		})
		for _, d := range dones {
			n++
			construct := core.FnKey(fn) + " writes no shared result after WaitGroup.Done"
			var late ssa.Instruction
			found, _ := core.Reaches(d, func(x ssa.Instruction) bool {
				if x == d {
					return false
				}
				st, ok := x.(*ssa.Store)
				if !ok {
					return false
				}
				if sharedAddr(st.Addr) {
					late = x
					return true
				}
				return false
			}, nil)
			if found && late != nil {
				r.Bad(rule, construct, p.InsPos(late), "the goroutine stores into a variable of its spawner after it has called WaitGroup.Done: the waiter may already have returned, so the exception recorded here is lost (peach and run-parallel must report every callback exception)")
			} else {
				r.OK(rule, construct, p.InsPos(d), "no store into captured or shared state is reachable after Done")
			}
		}
	}
	r.Count(rule+" plain WaitGroup.Done calls in goroutines of pkg/eval", n)
}

// startedWithGo: fn (a closure or a named function) is the target of a go
// statement in pkg/eval.
func startedWithGo(p *core.Program, fn *ssa.Function) bool {
	found := false
	for _, g := range p.FnsInPkg(pkgEval) {
		core.Instrs(g, func(ins ssa.Instruction) {
			gs, ok := ins.(*ssa.Go)
			if !ok {
				return
			}
			if gs.Call.StaticCallee() == fn {
				found = true
			}
			if cf, ok := closureOf(gs.Call.Value); ok && cf == fn {
				found = true
			}
		})
	}
	return found
}

// sharedAddr: the address is a captured variable of the closure, a location
// reached through one, or through a pointer parameter.
func sharedAddr(addr ssa.Value) bool {
	for i := 0; i < 6; i++ {
		switch x := addr.(type) {
		case *ssa.FreeVar:
			return true
		case *ssa.Parameter:
			_, isPtr := x.Type().Underlying().(*types.Pointer)
			return isPtr
		case *ssa.FieldAddr:
			addr = x.X
		case *ssa.IndexAddr:
			addr = x.X
		case *ssa.UnOp:
			if x.Op != token.MUL {
				return false
			}
			addr = x.X
		default:
			return false
		}
	}
	return false
}

// runAllCmdsFresh (C29 ALLCMDS-FRESH): no history store of pkg/cli/histutil
// hands out the slice that holds its own history: callers reorder the result
// (edit:command-history &newest-first reverses it in place).
func runAllCmdsFresh(p *core.Program, r *core.Report) {
	const rule = "ALLCMDS-FRESH"
	n := 0
	for _, fn := range p.FnsInPkg(pkgHistutil) {
		if fn.Signature.Recv() == nil || fn.Parent() != nil || fn.Name() != "AllCmds" || len(fn.Params) == 0 {
			continue
		}
		recv := fn.Params[0]
		core.Instrs(fn, func(ins ssa.Instruction) {
			ret, ok := ins.(*ssa.Return)
			if !ok || len(ret.Results) == 0 {
				return
			}
			if _, isSlice := ret.Results[0].Type().Underlying().(*types.Slice); !isSlice {
				return
			}
			n++
			construct := core.FnKey(fn) + " returns a list of its own, not the stored one"
			v := ret.Results[0]
			if sl, ok := v.(*ssa.Slice); ok {
				v = sl.X
			}
			aliased := false
			if u, ok := v.(*ssa.UnOp); ok && u.Op == token.MUL {
				if fa, ok := u.X.(*ssa.FieldAddr); ok {
					if fa.X == ssa.Value(recv) {
						aliased = true
					} else if ld, ok := fa.X.(*ssa.UnOp); ok && ld.Op == token.MUL {
						if a, ok := ld.X.(*ssa.Alloc); ok && singleStoreOf(a) == ssa.Value(recv) {
							aliased = true
						}
					}
				}
			}
			if aliased {
				r.Bad(rule, construct, p.InsPos(ins), "AllCmds returns the slice stored in the history store itself: a caller that reorders the listing (edit:command-history &newest-first) reverses the live session history, and later walks visit the oldest command first")
			} else {
				r.OK(rule, construct, p.InsPos(ins), "the result is not a field of the store")
			}
		})
	}
	r.Count(rule+" returns of AllCmds implementations", n)
}
