package rules

import (
	"fmt"
	"go/token"
	"go/types"
	"sort"
	"strings"

	"golang.org/x/tools/go/ssa"

	"verif/sa/internal/core"
)

func init() {
	register(&core.Spec{
		ID: "C01",
		Explanation: "Decides the structural core of C01's tiling clause for every path of every parse function: (TILE) a typestate over the parser events next/backup/addSep/parse(ps,child)/addChild shows that no rune consumed by a node's own code is left unclaimed before a child is parsed or attached, nor after the last child when the node has children; (WRAP) Node.parse methods are invoked only by the generic range-recording wrapper parse[N], every node literal flows into that wrapper (or ParseAs), and every parsed child is attached to its parent on all paths; (ERRPOS) explicit error ranges are built only from parser positions already visited. Termination, invalid UTF-8 handling and per-input error positions are not decided.",
		NotCovered:  "termination of parsing; leaf text equality beyond the single assignment in parse[N]; invalid UTF-8; error positions for all inputs",
		Rules: []string{"SRC-IDENTITY: the parser state is initialised with the fields of the caller's parse.Source, unchanged", "TILE: raw-rune typestate (0,1,2,many unclaimed runes; has-child) with interprocedural summaries over all functions of pkg/parse reachable from node parse methods",
			"WRAP: only parse[N] calls Node.parse; node literals flow into parse[N]/ParseAs; parsed children are adopted on all paths",
			"RANGE-OWN: only parse[N] records From/To/sourceText; the text is sliced with the node's final range even when a parse method moves its own start",
			"ERRPOS: arguments of parser.errorp are ranges over visited positions"},
		Patterns: []string{"./pkg/parse/...", "./pkg/edit/filter", "./pkg/elvdoc"},
		Run:      func(p *core.Program, r *core.Report) { runC01(p, r); runSrcIdentity(p, r) },
		MinCounts: map[string]int{"TILE": 40, "WRAP": 25, "ERRPOS": 2, "RANGE-OWN": 4, "SRC-IDENTITY": 1},
		Trusted:  append([]string{"event vocabulary of pkg/parse (next, backup, addSep, parse[N], addChild, addAs, addTo) resolved by object identity"}, trustedBase...),
		Controls: []core.Control{
			{Name: "parser-strips-byte-order-mark", Rule: "SRC-IDENTITY", File: "pkg/parse/parse.go", Old: "\tps := &parser{srcName: src.Name, src: src.Code, warn: cfg.WarningWriter}", New: "\tcode := src.Code\n\tif len(code) >= 3 && code[:3] == \"\\xef\\xbb\\xbf\" {\n\t\tcode = code[3:]\n\t}\n\tps := &parser{srcName: src.Name, src: code, warn: cfg.WarningWriter}", Fire: true, Want: "ParseAs", Quick: true},
			{Name: "benign-parser-built-from-a-copy-of-the-source-struct", Rule: "SRC-IDENTITY", File: "pkg/parse/parse.go", Old: "\tps := &parser{srcName: src.Name, src: src.Code, warn: cfg.WarningWriter}", New: "\ts2 := src\n\tps := &parser{srcName: s2.Name, src: s2.Code, warn: cfg.WarningWriter}", Fire: false},
			{Name: "lbracket-drop-backup", Rule: "TILE", File: "pkg/parse/parse.go", Old: "\t\t\tps.backup()\n\t\t\tparse(ps, &MapPair{}).addTo(&pn.MapPairs, pn)", New: "\t\t\tparse(ps, &MapPair{}).addTo(&pn.MapPairs, pn)", Fire: true, Want: "lbracket", Quick: true, Patterns: []string{"./pkg/parse"}},
			{Name: "redir-drop-addSep", Rule: "TILE", File: "pkg/parse/parse.go", Old: "\taddSep(rn, ps)\n\tparseSpaces(rn, ps)", New: "\tparseSpaces(rn, ps)", Fire: false, Patterns: []string{"./pkg/parse"}},
			{Name: "redir-drop-addSep-and-spaces", Rule: "TILE", File: "pkg/parse/parse.go", Old: "\taddSep(rn, ps)\n\tparseSpaces(rn, ps)\n\tif parseSep(rn, ps, '&') {\n\t\trn.RightIsFd = true\n\t}", New: "\tif ps.peek() == '&' {\n\t\tps.next()\n\t\trn.RightIsFd = true\n\t}", Fire: true, Want: "Redir", Patterns: []string{"./pkg/parse"}},
			{Name: "parseSpacesInner-drop-final-addSep", Rule: "TILE", File: "pkg/parse/parse.go", Old: "\t\t\tbreak spaces\n\t\t}\n\t}\n\taddSep(n, ps)\n}", New: "\t\t\tbreak spaces\n\t\t}\n\t}\n}", Fire: true, Patterns: []string{"./pkg/parse"}},
			{Name: "exitusCapture-drop-addSep", Rule: "TILE", File: "pkg/parse/parse.go", Old: "\tps.next()\n\tps.next()\n\taddSep(pn, ps)", New: "\tps.next()\n\tps.next()", Fire: true, Want: "exitusCapture", Patterns: []string{"./pkg/parse"}},
			{Name: "form-calls-node-parse-directly", Rule: "WRAP", File: "pkg/parse/parse.go", Old: "\t\t\tcn := &Compound{}\n\t\t\tparse(ps, cn)", New: "\t\t\tcn := &Compound{}\n\t\t\tcn.From = ps.pos\n\t\t\tcn.parse(ps)\n\t\t\tcn.To = ps.pos", Fire: true, Quick: true, Patterns: []string{"./pkg/parse"}},
			{Name: "form-arg-not-adopted", Rule: "WRAP", File: "pkg/parse/parse.go", Old: "\t\t\t\tfn.Args = append(fn.Args, cn)\n\t\t\t\taddChild(fn, cn)", New: "\t\t\t\tfn.Args = append(fn.Args, cn)", Fire: true, Patterns: []string{"./pkg/parse"}},
			{Name: "error-range-past-position", Rule: "ERRPOS", File: "pkg/parse/parse.go", Old: "r := diag.Ranging{From: ps.pos - 4, To: ps.pos}", New: "r := diag.Ranging{From: ps.pos - 4, To: ps.pos + 1}", Fire: true, Quick: true, Patterns: []string{"./pkg/parse"}},
			{Name: "revert-fix-redir-text", Rule: "RANGE-OWN", File: "pkg/parse/parser.go", Old: "n.n().sourceText = ps.src[n.n().From:ps.pos]", New: "n.n().sourceText = ps.src[begin:ps.pos]", Fire: true, Quick: true, Patterns: []string{"./pkg/parse"}},
			{Name: "text-written-outside-wrapper", Rule: "RANGE-OWN", File: "pkg/parse/parse.go", Old: "\tif rn.Left != nil {\n\t\taddChild(rn, rn.Left)", New: "\tif rn.Left != nil {\n\t\trn.sourceText = rn.Left.sourceText\n\t\taddChild(rn, rn.Left)", Fire: true, Patterns: []string{"./pkg/parse"}},
			{Name: "benign-pipeline-drop-addSep-after-amp", Rule: "TILE", File: "pkg/parse/parse.go", Old: "\t\tps.next()\n\t\taddSep(pn, ps)\n", New: "\t\tps.next()\n", Fire: false, Patterns: []string{"./pkg/parse"}},
			{Name: "benign-wrap-result-in-local", Rule: "WRAP", File: "pkg/parse/parse.go", Old: "\tparse(ps, &Compound{ExprCtx: CmdExpr}).addAs(&fn.Head, fn)", New: "\thead := parse(ps, &Compound{ExprCtx: CmdExpr})\n\thead.addAs(&fn.Head, fn)", Fire: false, Patterns: []string{"./pkg/parse"}},
		},
	})
}

type tileSt struct {
	pend  int // 0..3 (3 = many) runes consumed by the node's own code and not yet claimed
	child bool
}
type tileSet map[tileSt]bool

func (a tileSet) addAll(b tileSet) bool {
	ch := false
	for s := range b {
		if !a[s] {
			a[s] = true
			ch = true
		}
	}
	return ch
}

type tileEngine struct {
	p        *core.Program
	r        *core.Report
	memo     map[*ssa.Function]map[tileSt]tileSet
	inprog   map[*ssa.Function]map[tileSt]bool
	analysed map[*ssa.Function]bool
	events   map[string]int
}

func inParsePkg(f *ssa.Function) bool { return core.PkgPathOf(f) == pkgParse }

func takesParser(f *ssa.Function) bool {
	for _, p := range f.Params {
		if core.IsNamed(p.Type(), pkgParse, "parser") {
			return true
		}
	}
	for _, p := range f.FreeVars {
		t := p.Type()
		if pt, ok := t.(*types.Pointer); ok {
			t = pt.Elem()
		}
		if core.IsNamed(t, pkgParse, "parser") {
			return true
		}
	}
	return false
}

func (e *tileEngine) summary(f *ssa.Function, in tileSt) tileSet {
	if m, ok := e.memo[f]; ok {
		if r, ok := m[in]; ok {
			return r
		}
	} else {
		e.memo[f] = map[tileSt]tileSet{}
		e.inprog[f] = map[tileSt]bool{}
	}
	if e.inprog[f][in] {
		return tileSet{} // recursion contributes nothing on this pass
	}
	e.inprog[f][in] = true
	out := e.analyse(f, in)
	e.inprog[f][in] = false
	e.memo[f][in] = out
	return out
}

func (e *tileEngine) analyse(f *ssa.Function, in tileSt) tileSet {
	e.analysed[f] = true
	exits := tileSet{}
	if len(f.Blocks) == 0 {
		return tileSet{in: true}
	}
	blockIn := map[*ssa.BasicBlock]tileSet{f.Blocks[0]: {in: true}}
	work := []*ssa.BasicBlock{f.Blocks[0]}
	fk := core.FnKey(f)
	for len(work) > 0 {
		b := work[len(work)-1]
		work = work[:len(work)-1]
		cur := tileSet{}
		for s := range blockIn[b] {
			cur[s] = true
		}
		for _, ins := range b.Instrs {
			switch v := ins.(type) {
			case *ssa.Return:
				for s := range cur {
					exits[s] = true
				}
			case ssa.CallInstruction:
				if _, isGo := ins.(*ssa.Go); isGo {
					continue
				}
				if _, isDefer := ins.(*ssa.Defer); isDefer {
					continue // deferred closures in pkg/parse only set Value fields
				}
				callee := core.Callee(v)
				if callee == nil || !inParsePkg(callee) {
					continue
				}
				name := core.Origin(callee).Name()
				recv := ""
				if callee.Signature.Recv() != nil {
					recv = core.RecvName(callee.Signature.Recv().Type())
				}
				next := tileSet{}
				pos := e.p.InsPos(ins)
				switch {
				case name == "next" && recv == "parser":
					e.events["next"]++
					for s := range cur {
						if s.pend < 3 {
							s.pend++
						}
						next[s] = true
					}
				case name == "backup" && recv == "parser":
					e.events["backup"]++
					for s := range cur {
						if s.pend > 0 && s.pend < 3 {
							s.pend--
						}
						next[s] = true
					}
				case name == "addSep" && recv == "":
					e.events["addSep"]++
					for s := range cur {
						if s.pend > 0 {
							s.child = true
						}
						s.pend = 0
						next[s] = true
					}
					e.r.OK("TILE", fk+" addSep", pos, "claims every rune consumed since the last child as a Sep child")
				case name == "parse" && recv == "" && callee.Signature.Params().Len() == 2:
					e.events["parse()"]++
					bad := 0
					for s := range cur {
						if s.pend > bad {
							bad = s.pend
						}
						s.pend = 0
						next[s] = true
					}
					construct := fk + " parse(ps," + shortType(callee.Signature.Params().At(1).Type()) + ")"
					if bad > 0 {
						e.r.Bad("TILE", construct, pos, fmt.Sprintf("a child is parsed while %s rune(s) consumed by the parent since its last child are not covered by any child: the children no longer tile the parent's range", pendStr(bad)))
					} else {
						e.r.OK("TILE", construct, pos, "no unclaimed rune on any path reaching this child")
					}
				case name == "addAs" || name == "addTo" || name == "addChild":
					e.events["addChild"]++
					bad := 0
					for s := range cur {
						if s.pend > bad {
							bad = s.pend
						}
						if s.pend > 0 {
							s.pend = 0
						}
						s.child = true
						next[s] = true
					}
					construct := fk + " " + name
					if name == "addChild" {
						construct += "(" + addrDesc(v.Common().Args[len(v.Common().Args)-1]) + ")"
					}
					if why, ok := tileAudit[fk]; ok && bad == 1 {
						e.r.Audit("TILE", construct, pos, why)
					} else if bad > 0 {
						e.r.Bad("TILE", construct, pos, fmt.Sprintf("a child is attached while %s consumed rune(s) are unclaimed before it", pendStr(bad)))
					} else {
						e.r.OK("TILE", construct, pos, "no unclaimed rune on any path reaching this attachment")
					}
				case takesParser(callee) || len(callee.FreeVars) > 0:
					for s := range cur {
						next.addAll(e.summary(callee, s))
					}
					if len(next) == 0 {
						next = cur
					}
				default:
					next = cur
				}
				cur = next
			}
		}
		for _, succ := range b.Succs {
			if blockIn[succ] == nil {
				blockIn[succ] = tileSet{}
			}
			if blockIn[succ].addAll(cur) {
				work = append(work, succ)
			}
		}
	}
	return exits
}

// tileAudit: functions that build a node by hand for exactly one consumed rune.
var tileAudit = map[string]string{
	"(*parse.Compound).tilde": "after exactly one next() the '~' is covered by a hand-built Indexing/Primary with From=pos-1,To=pos (checked by reading; WRAP audits the literals)",
}

func pendStr(n int) string {
	if n >= 3 {
		return "3 or more"
	}
	return fmt.Sprint(n)
}

func runC01(p *core.Program, r *core.Report) {
	e := &tileEngine{p: p, r: r, memo: map[*ssa.Function]map[tileSt]tileSet{}, inprog: map[*ssa.Function]map[tileSt]bool{}, analysed: map[*ssa.Function]bool{}, events: map[string]int{}}
	nodeIface := p.NamedType(pkgParse, "Node")
	if !r.Anchor("TILE", "parse.Node", nodeIface != nil) {
		return
	}
	wrapper := p.Func(pkgParse, "parse")
	if !r.Anchor("WRAP", "parse.parse[N]", wrapper != nil) {
		return
	}
	// roots: parse(*parser) methods of node types. Iterate to a fixpoint so
	// that recursive summaries stabilise.
	var roots []*ssa.Function
	for _, fn := range p.FnsInPkg(pkgParse) {
		if fn.Name() == "parse" && fn.Signature.Recv() != nil && fn.Parent() == nil && fn.Synthetic == "" && len(fn.Params) == 2 {
			roots = append(roots, fn)
		}
	}
	r.Count("TILE node parse methods (roots)", len(roots))
	if !r.Anchor("TILE", "node parse methods", len(roots) >= 5) {
		return
	}
	for _, fn := range roots {
		out := e.summary(fn, tileSt{0, false})
		worst := 0
		for s := range out {
			if s.child && s.pend > worst {
				worst = s.pend
			}
		}
		construct := core.FnKey(fn) + " return"
		if worst > 0 {
			r.Bad("TILE", construct, p.Pos(fn.Pos()), fmt.Sprintf("the node returns with %s consumed rune(s) after its last child that no child covers", pendStr(worst)))
		} else {
			r.OK("TILE", construct, p.Pos(fn.Pos()), "every exit has no unclaimed rune after the last child (or the node is a leaf)")
		}
	}
	for k, v := range e.events {
		r.Count("TILE event sites visited (path-multiplied) "+k, v)
	}
	r.Count("TILE functions analysed", len(e.analysed))

	runWrap(p, r, wrapper, nodeIface)
	runRangeOwn(p, r, wrapper)
	runErrPos(p, r)
}

// nodeField classifies an address as one of the range/text fields of
// parse.node: "From", "To", "sourceText", or "".
func nodeField(addr ssa.Value) (string, ssa.Value) {
	fa, ok := addr.(*ssa.FieldAddr)
	if !ok {
		return "", nil
	}
	n, f := core.FieldName(fa)
	if n != nil && n.Obj().Pkg() != nil && n.Obj().Pkg().Path() == pkgParse && n.Obj().Name() == "node" && f == "sourceText" {
		return "sourceText", fa.X
	}
	if n != nil && n.Obj().Pkg() != nil && n.Obj().Pkg().Path() == pkgDiag && n.Obj().Name() == "Ranging" && (f == "From" || f == "To") {
		// must be the Ranging embedded in a parse.node
		if outer, ok := fa.X.(*ssa.FieldAddr); ok {
			if on, of := core.FieldName(outer); on != nil && on.Obj().Name() == "node" && on.Obj().Pkg().Path() == pkgParse && of == "Ranging" {
				return f, outer.X
			}
		}
	}
	return "", nil
}

// runRangeOwn: a node's text must be the source slice of its final range.
// Only parse[N] records From/To/sourceText; a parse method may move its own
// From/To (Redir adopts its left-hand side) only if parse[N] slices the text
// from the node's final fields, i.e. reads them back after n.parse returns.
func runRangeOwn(p *core.Program, r *core.Report, wrapper *ssa.Function) {
	const rule = "RANGE-OWN"
	// 1. shape of the wrapper
	var parseCall ssa.Instruction
	var stFrom, stTo, stText *ssa.Store
	core.Instrs(wrapper, func(ins ssa.Instruction) {
		if c, ok := ins.(*ssa.Call); ok {
			if c.Call.IsInvoke() && c.Call.Method.Name() == "parse" {
				parseCall = c
			} else if callee := c.Call.StaticCallee(); callee != nil && callee.Name() == "parse" && callee.Signature.Recv() != nil {
				parseCall = c
			}
		}
		if st, ok := ins.(*ssa.Store); ok {
			switch f, _ := nodeField(st.Addr); f {
			case "From":
				stFrom = st
			case "To":
				stTo = st
			case "sourceText":
				stText = st
			}
		}
	})
	if !r.Anchor(rule, "parse[N] records From, To and sourceText around n.parse", parseCall != nil && stFrom != nil && stTo != nil && stText != nil) {
		return
	}
	isPosLoad := func(v ssa.Value) bool {
		if addr, ok := core.IsLoad(v); ok {
			if fa, ok := addr.(*ssa.FieldAddr); ok {
				n, f := core.FieldName(fa)
				return n != nil && n.Obj().Name() == "parser" && f == "pos"
			}
		}
		return false
	}
	isFieldLoadAfter := func(v ssa.Value, field string) bool {
		addr, ok := core.IsLoad(v)
		if !ok {
			return false
		}
		f, _ := nodeField(addr)
		return f == field && core.Precedes(parseCall, v.(ssa.Instruction))
	}
	// From is the position before the call, To the position after it
	if isPosLoad(stFrom.Val) && core.Precedes(stFrom, parseCall) && core.Precedes(stFrom.Val.(ssa.Instruction), parseCall) {
		r.OK(rule, "parse.parse From = position before n.parse", p.InsPos(stFrom), "From is stored from ps.pos before the node's parse method runs")
	} else {
		r.Bad(rule, "parse.parse From = position before n.parse", p.InsPos(stFrom), "the wrapper does not record the node's start from the parser position before parsing it")
	}
	if isPosLoad(stTo.Val) && core.Precedes(parseCall, stTo.Val.(ssa.Instruction)) {
		r.OK(rule, "parse.parse To = position after n.parse", p.InsPos(stTo), "To is stored from ps.pos after the node's parse method returned")
	} else {
		r.Bad(rule, "parse.parse To = position after n.parse", p.InsPos(stTo), "the wrapper does not record the node's end from the parser position after parsing it")
	}
	// 2. other writers of From/To/sourceText
	lateFrom, lateTo := false, false
	for _, fn := range p.RepoFns {
		if core.Origin(fn) == wrapper {
			continue
		}
		core.Instrs(fn, func(ins ssa.Instruction) {
			st, ok := ins.(*ssa.Store)
			if !ok {
				return
			}
			f, base := nodeField(st.Addr)
			if f == "" {
				return
			}
			fk := core.FnKey(fn)
			construct := fk + " store node." + f
			root := addrRoot(base)
			if _, fresh := root.(*ssa.Alloc); fresh {
				r.OK(rule, construct+" (literal)", p.InsPos(ins), "initialises a node literal built in this function (WRAP audits such literals)")
				return
			}
			if f == "sourceText" {
				r.Bad(rule, construct, p.InsPos(ins), "a node's source text is written outside parse[N]: it can disagree with the slice of the node's range")
				return
			}
			if core.PkgPathOf(fn) != pkgParse {
				r.Bad(rule, construct, p.InsPos(ins), "a node's range is modified outside the parser")
				return
			}
			if f == "From" {
				lateFrom = true
			} else {
				lateTo = true
			}
			r.OK(rule, construct, p.InsPos(ins), "a parse method moves its own node's "+f+"; accepted because parse[N] slices the text from the node's final fields (checked below)")
		})
	}
	// 3. the text is the slice [From:To] of the source, using final values
	sl, ok := stText.Val.(*ssa.Slice)
	okSrc := false
	if ok {
		if addr, isLd := core.IsLoad(sl.X); isLd {
			if fa, ok := addr.(*ssa.FieldAddr); ok {
				n, f := core.FieldName(fa)
				okSrc = n != nil && n.Obj().Name() == "parser" && f == "src"
			}
		}
	}
	if !ok || !okSrc || sl.Low == nil || sl.High == nil {
		r.Bad(rule, "parse.parse sourceText = src[From:To]", p.InsPos(stText), "the wrapper does not set sourceText to a slice src[lo:hi] of the parser's source")
		return
	}
	lowOK := isFieldLoadAfter(sl.Low, "From") || (!lateFrom && sl.Low == stFrom.Val)
	highOK := isFieldLoadAfter(sl.High, "To") || (!lateTo && (sl.High == stTo.Val || (isPosLoad(sl.High) && core.Precedes(parseCall, sl.High.(ssa.Instruction)))))
	switch {
	case lowOK && highOK:
		r.OK(rule, "parse.parse sourceText = src[From:To]", p.InsPos(stText), "text is sliced with the node's final From and To")
	case !lowOK && lateFrom:
		r.Bad(rule, "parse.parse sourceText = src[From:To]", p.InsPos(stText), "a parse method moves its node's From, but parse[N] slices the text from the position saved before parsing: the node's text is not the source slice of its range (e.g. Redir with a left-hand fd)")
	default:
		r.Bad(rule, "parse.parse sourceText = src[From:To]", p.InsPos(stText), "the bounds of the text slice are not the node's From/To")
	}
}

// embedsNode reports whether t is a struct type embedding parse.node.
func embedsNode(t types.Type) bool {
	if pt, ok := t.Underlying().(*types.Pointer); ok {
		t = pt.Elem()
	}
	st, ok := t.Underlying().(*types.Struct)
	if !ok {
		return false
	}
	for i := 0; i < st.NumFields(); i++ {
		f := st.Field(i)
		if f.Embedded() && core.IsNamed(f.Type(), pkgParse, "node") {
			return true
		}
	}
	return false
}

func isWrapperCall(ins ssa.Instruction, wrapper *ssa.Function) *ssa.Call {
	c, ok := ins.(*ssa.Call)
	if !ok {
		return nil
	}
	if callee := c.Call.StaticCallee(); callee != nil && core.Origin(callee) == wrapper {
		return c
	}
	return nil
}

func runWrap(p *core.Program, r *core.Report, wrapper *ssa.Function, nodeIface *types.Named) {
	parseAs := p.Func(pkgParse, "ParseAs")
	r.Anchor("WRAP", "parse.ParseAs", parseAs != nil)
	// (a) who calls Node.parse
	for _, fn := range p.RepoFns {
		core.Instrs(fn, func(ins ssa.Instruction) {
			c, ok := ins.(ssa.CallInstruction)
			if !ok {
				return
			}
			cc := c.Common()
			isNodeParse := false
			if cc.IsInvoke() {
				isNodeParse = cc.Method.Name() == "parse" && cc.Method.Pkg() != nil && cc.Method.Pkg().Path() == pkgParse
			} else if callee := cc.StaticCallee(); callee != nil && callee.Name() == "parse" && callee.Signature.Recv() != nil && core.PkgPathOf(callee) == pkgParse && embedsNode(callee.Signature.Recv().Type()) {
				isNodeParse = true
			}
			if !isNodeParse {
				return
			}
			construct := core.FnKey(fn) + " calls Node.parse"
			if core.Origin(fn) == wrapper {
				r.OK("WRAP", construct, p.InsPos(ins), "called from the range-recording wrapper parse[N]")
			} else {
				r.Bad("WRAP", construct, p.InsPos(ins), "a node's parse method is called outside parse[N]: From/To/sourceText of that node are not recorded by the wrapper, so its range and text can disagree with the source")
			}
		})
	}
	// (b) node literals
	audited := map[string]string{
		"parse.NewSep":            "Sep is built with an explicit range and the source slice of exactly that range",
		"(*parse.Compound).tilde": "builds the one-rune '~' Indexing/Primary by hand with From=pos-1,To=pos,sourceText \"~\" right after consuming exactly that rune (TILE sees the next() and the addChild)",
	}
	for _, fn := range p.RepoFns {
		core.Instrs(fn, func(ins ssa.Instruction) {
			a, ok := ins.(*ssa.Alloc)
			if !ok {
				return
			}
			if !embedsNode(a.Type()) {
				return
			}
			if _, isStruct := a.Type().Underlying().(*types.Pointer).Elem().Underlying().(*types.Struct); !isStruct {
				return
			}
			fk := core.FnKey(fn)
			construct := fk + " literal " + shortType(a.Type())
			if why, ok := audited[fk]; ok {
				r.Audit("WRAP", construct, p.InsPos(ins), why)
				return
			}
			if flowsToWrapper(a, wrapper, parseAs, map[ssa.Value]bool{}) {
				r.OK("WRAP", construct, p.InsPos(ins), "the literal is handed to parse[N] / ParseAs, which records its range and text")
			} else {
				r.Bad("WRAP", construct, p.InsPos(ins), "a parse node is constructed but never handed to parse[N]/ParseAs: its range and source text are not recorded")
			}
		})
	}
	// (c) each parsed child is adopted on all paths
	for _, fn := range p.FnsInPkg(pkgParse) {
		core.Instrs(fn, func(ins ssa.Instruction) {
			c := isWrapperCall(ins, wrapper)
			if c == nil {
				return
			}
			fk := core.FnKey(fn)
			construct := fk + " adopt result of parse(ps," + shortType(c.Call.Args[1].Type()) + ")"
			if core.Origin(fn) == parseAs || fn == parseAs {
				r.Audit("WRAP", construct, p.InsPos(ins), "root of the tree: the caller of ParseAs owns the node, it has no parent")
				return
			}
			child := core.Unwrap(c.Call.Args[1])
			adopt := func(x ssa.Instruction) bool {
				cc, ok := x.(ssa.CallInstruction)
				if !ok {
					// storing the child into a field of a node literal that is itself parsed (Redir{Left: cn})
					if st, ok := x.(*ssa.Store); ok && core.Unwrap(st.Val) == child {
						if fa, ok := st.Addr.(*ssa.FieldAddr); ok {
							if base, ok := fa.X.(*ssa.Alloc); ok && embedsNode(base.Type()) && flowsToWrapper(base, wrapper, parseAs, map[ssa.Value]bool{}) {
								return true
							}
						}
					}
					return false
				}
				callee := core.Callee(cc)
				if callee == nil {
					return false
				}
				switch core.Origin(callee).Name() {
				case "addAs", "addTo":
					// receiver is the parsed[N] value produced by this call
					if len(cc.Common().Args) > 0 && valueFrom(cc.Common().Args[0], c, map[ssa.Value]bool{}) {
						return true
					}
				case "addChild":
					if n := len(cc.Common().Args); n == 2 && core.Unwrap(cc.Common().Args[1]) == child {
						return true
					}
				}
				return false
			}
			ok, exit := core.MustPass(c, adopt, nil)
			if ok {
				r.OK("WRAP", construct, p.InsPos(ins), "on every path the parsed node is attached with addAs/addTo/addChild or adopted by a node literal that is parsed next")
			} else {
				r.Bad("WRAP", construct, p.InsPos(ins), "a parsed node is not attached to its parent on the path reaching "+p.InsPos(exit)+": the text it covers is missing from the parent's children")
			}
		})
	}
}

// valueFrom reports whether v is (a phi / local copy of) the value src.
func valueFrom(v ssa.Value, src ssa.Value, seen map[ssa.Value]bool) bool {
	if v == src {
		return true
	}
	if seen[v] {
		return false
	}
	seen[v] = true
	switch x := v.(type) {
	case *ssa.Phi:
		for _, e := range x.Edges {
			if valueFrom(e, src, seen) {
				return true
			}
		}
	case *ssa.UnOp:
		if x.Op == token.MUL {
			// load of a local cell that was stored from src
			if a, ok := x.X.(*ssa.Alloc); ok {
				for _, ref := range *a.Referrers() {
					if st, ok := ref.(*ssa.Store); ok && st.Addr == a && valueFrom(st.Val, src, seen) {
						return true
					}
				}
			}
		}
	case *ssa.ChangeType:
		return valueFrom(x.X, src, seen)
	}
	return false
}

func flowsToWrapper(v ssa.Value, wrapper, parseAs *ssa.Function, seen map[ssa.Value]bool) bool {
	if seen[v] {
		return false
	}
	seen[v] = true
	refs := v.Referrers()
	if refs == nil {
		return false
	}
	for _, ref := range *refs {
		switch u := ref.(type) {
		case *ssa.Call:
			callee := u.Call.StaticCallee()
			if callee != nil && (core.Origin(callee) == wrapper || callee == parseAs) {
				for _, a := range u.Call.Args {
					if a == v {
						return true
					}
				}
			}
		case *ssa.MakeInterface:
			if flowsToWrapper(u, wrapper, parseAs, seen) {
				return true
			}
		case *ssa.ChangeType:
			if flowsToWrapper(u, wrapper, parseAs, seen) {
				return true
			}
		case *ssa.Phi:
			if flowsToWrapper(u, wrapper, parseAs, seen) {
				return true
			}
		case *ssa.Store:
			// stored into a local variable cell and loaded again
			if u.Val == v {
				if fa, ok := u.Addr.(*ssa.FieldAddr); ok {
					if base, ok := fa.X.(*ssa.Alloc); ok {
						for _, ld := range fieldLoads(base, fa.Field, map[*ssa.Alloc]bool{}) {
							if flowsToWrapper(ld, wrapper, parseAs, seen) {
								return true
							}
						}
					}
				}
				if cell, ok := u.Addr.(*ssa.Alloc); ok {
					for _, r2 := range *cell.Referrers() {
						if ld, ok := r2.(*ssa.UnOp); ok && ld.Op == token.MUL {
							if flowsToWrapper(ld, wrapper, parseAs, seen) {
								return true
							}
						}
					}
				}
			}
		}
	}
	return false
}

// fieldLoads returns the loads of field f of the local struct cell base,
// following whole-struct copies into other local cells.
func fieldLoads(base *ssa.Alloc, f int, seen map[*ssa.Alloc]bool) []ssa.Value {
	if seen[base] {
		return nil
	}
	seen[base] = true
	var out []ssa.Value
	for _, ref := range *base.Referrers() {
		switch u := ref.(type) {
		case *ssa.FieldAddr:
			if u.Field != f {
				continue
			}
			for _, r2 := range *u.Referrers() {
				if ld, ok := r2.(*ssa.UnOp); ok && ld.Op == token.MUL {
					out = append(out, ld)
				}
			}
		case *ssa.UnOp:
			if u.Op != token.MUL {
				continue
			}
			for _, r2 := range *u.Referrers() {
				switch w := r2.(type) {
				case *ssa.Store:
					if w.Val == u {
						if b2, ok := w.Addr.(*ssa.Alloc); ok {
							out = append(out, fieldLoads(b2, f, seen)...)
						}
					}
				case *ssa.Field:
					if w.Field == f {
						out = append(out, w)
					}
				}
			}
		}
	}
	return out
}

// runErrPos: explicit ranges handed to parser.errorp.
func runErrPos(p *core.Program, r *core.Report) {
	errorp := p.Method(pkgParse, "parser", "errorp")
	if !r.Anchor("ERRPOS", "(*parse.parser).errorp", errorp != nil) {
		return
	}
	// keyed by the error reported (the site may move between functions in a
	// refactoring; the error it reports does not)
	auditedSub := map[string]string{
		"errInvalidEscapeOctOverflow": "From = pos-4 right after the backslash and three octal digits (four one-byte runes) were consumed by next()",
	}
	for _, fn := range p.FnsInPkg(pkgParse) {
		core.Instrs(fn, func(ins ssa.Instruction) {
			c, ok := ins.(*ssa.Call)
			if !ok || c.Call.StaticCallee() != errorp {
				return
			}
			fk := core.FnKey(fn)
			errName := ""
			if len(c.Call.Args) > 2 {
				if addr, isLd := core.IsLoad(core.Unwrap(c.Call.Args[2])); isLd {
					if g, isG := addr.(*ssa.Global); isG {
						errName = g.Name()
					}
				}
			}
			rng := core.Unwrap(c.Call.Args[1])
			var comps []string
			status, detail := "ok", ""
			// the range is a diag.Ranging struct value: a load of a local struct, or a node
			fields := rangingFields(rng)
			if fields == nil {
				if embedsNode(rng.Type()) || types.Implements(rng.Type(), diagRanger(p)) {
					r.OK("ERRPOS", fk+" errorp range "+shortType(rng.Type()), p.InsPos(ins), "range of an existing node / Ranger value")
					return
				}
				r.Bad("ERRPOS", fk+" errorp range", p.InsPos(ins), "cannot resolve how the error range is built")
				return
			}
			names := []string{"From", "To"}
			for i, f := range fields {
				shape, verdict := posShape(f, p)
				comps = append(comps, names[i]+"="+shape)
				switch verdict {
				case "bad":
					status, detail = "bad", names[i]+" is "+shape+": not a position the parser has visited (may lie outside the source)"
				case "sub":
					if _, ok := auditedSub[errName]; !ok && status != "bad" {
						status, detail = "bad", names[i]+" is "+shape+": subtracting from the position is only accepted at audited sites"
					} else if status == "ok" {
						status = "audit"
					}
				}
			}
			construct := fk + " errorp range " + strings.Join(comps, ",")
			switch status {
			case "ok":
				r.OK("ERRPOS", construct, p.InsPos(ins), "both ends are visited parser positions (pos, a saved pos, or pos+1 guarded by pos < len(src))")
			case "audit":
				r.Audit("ERRPOS", construct, p.InsPos(ins), auditedSub[errName])
			default:
				r.Bad("ERRPOS", construct, p.InsPos(ins), detail)
			}
		})
	}
}

func diagRanger(p *core.Program) *types.Interface {
	n := p.NamedType(pkgDiag, "Ranger")
	if n == nil {
		return types.NewInterfaceType(nil, nil)
	}
	return n.Underlying().(*types.Interface)
}

// rangingFields returns the values stored into From and To of a
// diag.Ranging built in place, or nil.
func rangingFields(v ssa.Value) []ssa.Value {
	ld, ok := v.(*ssa.UnOp)
	if !ok || ld.Op != token.MUL {
		return nil
	}
	a, ok := ld.X.(*ssa.Alloc)
	if !ok || !core.IsNamed(a.Type(), pkgDiag, "Ranging") {
		return nil
	}
	out := make([]ssa.Value, 2)
	for _, ref := range *a.Referrers() {
		if fa, ok := ref.(*ssa.FieldAddr); ok {
			for _, r2 := range *fa.Referrers() {
				if st, ok := r2.(*ssa.Store); ok && st.Addr == fa && fa.Field < 2 {
					if out[fa.Field] != nil {
						return nil
					}
					out[fa.Field] = st.Val
				}
			}
		}
	}
	if out[0] == nil || out[1] == nil {
		return nil
	}
	return out
}

// posShape classifies an endpoint expression.
func posShape(v ssa.Value, p *core.Program) (string, string) {
	switch x := v.(type) {
	case *ssa.UnOp:
		if x.Op == token.MUL {
			if fa, ok := x.X.(*ssa.FieldAddr); ok {
				n, f := core.FieldName(fa)
				if n != nil && n.Obj().Name() == "parser" && f == "pos" {
					return "ps.pos", "ok"
				}
				if f == "From" || f == "To" {
					return "node." + f, "ok"
				}
			}
		}
	case *ssa.BinOp:
		if c, ok := x.Y.(*ssa.Const); ok && c.Value != nil {
			inner, verdict := posShape(x.X, p)
			if verdict == "bad" {
				return inner, "bad"
			}
			switch x.Op {
			case token.SUB:
				if c.Int64() >= 0 {
					return inner + "-" + c.Value.String(), "sub"
				}
			case token.ADD:
				if c.Int64() == 0 {
					return inner, verdict
				}
				if c.Int64() == 1 && guardedBelowLen(x) {
					return inner + "+1 (guarded by < len(src))", "ok"
				}
				return inner + "+" + c.Value.String(), "bad"
			}
		}
	case *ssa.Phi:
		var shapes []string
		worst := "ok"
		for _, e := range x.Edges {
			s, v := posShape(e, p)
			shapes = append(shapes, s)
			if v == "bad" || (v == "sub" && worst == "ok") {
				worst = v
			}
		}
		sort.Strings(shapes)
		return "phi(" + strings.Join(shapes, "|") + ")", worst
	case *ssa.Const:
		if x.Value != nil && x.Int64() == 0 {
			return "0", "ok"
		}
	}
	return "expr:" + v.String(), "bad"
}

// guardedBelowLen: the +1 is executed only under a dominating `x < len(src)`.
func guardedBelowLen(add *ssa.BinOp) bool {
	blk := add.Block()
	for _, b := range add.Parent().Blocks {
		if len(b.Instrs) == 0 {
			continue
		}
		iff, ok := b.Instrs[len(b.Instrs)-1].(*ssa.If)
		if !ok {
			continue
		}
		cmp, ok := iff.Cond.(*ssa.BinOp)
		if !ok || cmp.Op != token.LSS {
			continue
		}
		if !sameValue(cmp.X, add.X) {
			continue
		}
		if call, ok := cmp.Y.(*ssa.Call); ok {
			if bi, ok := call.Call.Value.(*ssa.Builtin); ok && bi.Name() == "len" {
				if core.EdgeTo(b, blk) == 0 {
					return true
				}
			}
		}
	}
	return false
}

// sameValue: identical SSA value, or two loads of the same field address
// expression of the same base (no CSE in go/ssa).
func sameValue(a, b ssa.Value) bool {
	if a == b {
		return true
	}
	la, ok1 := a.(*ssa.UnOp)
	lb, ok2 := b.(*ssa.UnOp)
	if ok1 && ok2 && la.Op == token.MUL && lb.Op == token.MUL {
		fa, ok1 := la.X.(*ssa.FieldAddr)
		fb, ok2 := lb.X.(*ssa.FieldAddr)
		if ok1 && ok2 && fa.Field == fb.Field && fa.X == fb.X {
			return true
		}
	}
	return false
}
