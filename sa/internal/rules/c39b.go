package rules

import (
	"go/token"
	"sort"

	"golang.org/x/tools/go/ssa"

	"verif/sa/internal/core"
)

// runRMWAtomic (C39 RMW-ATOMIC): a value read from a mutex-guarded field of
// the Evaler and a later write of that same field computed from it must lie
// in ONE critical section: on no path from the read to the write is the
// mutex released. Otherwise another evaluation can update the field in
// between and its update is lost or reverted (the result is not the result of
// any serial order), although every single access is locked and the race
// detector stays silent.
//
// The dependence is a coarse forward taint inside the function (through
// calls, struct fields, local cells) and one level into callees that store a
// parameter into the field.
func runRMWAtomic(p *core.Program, r *core.Report, rule string, spec guardSpec) {
	isGuardedFA := func(v ssa.Value) (string, bool) {
		fa, ok := v.(*ssa.FieldAddr)
		if !ok {
			return "", false
		}
		n, f := core.FieldName(fa)
		if n == nil || n.Obj().Pkg() == nil || n.Obj().Pkg().Path() != spec.pkg || n.Obj().Name() != spec.structName || !spec.fields[f] {
			return "", false
		}
		return f, true
	}
	isUnlock := func(ins ssa.Instruction) bool {
		c, ok := ins.(*ssa.Call)
		if !ok {
			return false
		}
		callee := c.Call.StaticCallee()
		if callee == nil || core.PkgPathOf(callee) != "sync" || (callee.Name() != "Unlock" && callee.Name() != "RUnlock") || len(c.Call.Args) == 0 {
			return false
		}
		fa, ok := c.Call.Args[0].(*ssa.FieldAddr)
		if !ok {
			return false
		}
		n, f := core.FieldName(fa)
		return n != nil && n.Obj().Name() == spec.structName && f == spec.mutex
	}
	// taintFrom: everything in fn computed from the seeds.
	taintFrom := func(fn *ssa.Function, seeds []ssa.Value) map[ssa.Value]bool {
		t := map[ssa.Value]bool{}
		cells := map[ssa.Value]bool{}
		var work []ssa.Value
		add := func(v ssa.Value) {
			if v == nil || t[v] {
				return
			}
			if _, isC := v.(*ssa.Const); isC {
				return
			}
			t[v] = true
			work = append(work, v)
		}
		rootOf := func(addr ssa.Value) ssa.Value {
			for i := 0; i < 8; i++ {
				switch a := addr.(type) {
				case *ssa.FieldAddr:
					addr = a.X
				case *ssa.IndexAddr:
					addr = a.X
				default:
					return addr
				}
			}
			return addr
		}
		for _, s := range seeds {
			add(s)
		}
		for len(work) > 0 {
			v := work[len(work)-1]
			work = work[:len(work)-1]
			refs := v.Referrers()
			if refs == nil {
				continue
			}
			for _, ref := range *refs {
				switch x := ref.(type) {
				case *ssa.Store:
					if x.Val == v {
						root := rootOf(x.Addr)
						if a, ok := root.(*ssa.Alloc); ok && !cells[a] {
							cells[a] = true
							// every load through this cell is now tainted
							core.Instrs(fn, func(i2 ssa.Instruction) {
								if u, ok := i2.(*ssa.UnOp); ok && u.Op == token.MUL && rootOf(u.X) == ssa.Value(a) {
									add(u)
								}
							})
						}
					}
				case ssa.Value:
					if _, isFA := x.(*ssa.FieldAddr); isFA {
						continue // an address computed from a tainted pointer is not data
					}
					add(x)
				}
			}
		}
		return t
	}
	// storesParam: callee stores something computed from parameter i into
	// guarded field f of its receiver type.
	storesParam := func(callee *ssa.Function, i int, f string) ssa.Instruction {
		if callee == nil || callee.Blocks == nil || i >= len(callee.Params) || core.PkgPathOf(callee) != spec.pkg {
			return nil
		}
		t := taintFrom(callee, []ssa.Value{callee.Params[i]})
		var hit ssa.Instruction
		core.Instrs(callee, func(ins ssa.Instruction) {
			if st, ok := ins.(*ssa.Store); ok && t[st.Val] {
				if g, ok := isGuardedFA(st.Addr); ok && g == f {
					hit = ins
				}
			}
		})
		return hit
	}
	var fns []*ssa.Function
	for _, fn := range p.RepoFns {
		if core.PkgPathOf(fn) == spec.pkg && fn.Blocks != nil {
			fns = append(fns, fn)
		}
	}
	sort.Slice(fns, func(i, j int) bool { return fns[i].String() < fns[j].String() })
	nrmw := 0
	for _, fn := range fns {
		// reads of guarded fields
		reads := map[string][]*ssa.UnOp{}
		core.Instrs(fn, func(ins ssa.Instruction) {
			if u, ok := ins.(*ssa.UnOp); ok && u.Op == token.MUL {
				if f, ok := isGuardedFA(u.X); ok {
					reads[f] = append(reads[f], u)
				}
			}
		})
		var fields []string
		for f := range reads {
			fields = append(fields, f)
		}
		sort.Strings(fields)
		for _, f := range fields {
			for _, rd := range reads[f] {
				t := taintFrom(fn, []ssa.Value{rd})
				// sinks
				var sinks []ssa.Instruction
				core.Instrs(fn, func(ins ssa.Instruction) {
					switch x := ins.(type) {
					case *ssa.Store:
						if g, ok := isGuardedFA(x.Addr); ok && g == f && t[x.Val] {
							sinks = append(sinks, ins)
						}
					case *ssa.Call:
						callee := x.Call.StaticCallee()
						for i, a := range x.Call.Args {
							if t[a] && storesParam(callee, i, f) != nil {
								sinks = append(sinks, ins)
								break
							}
						}
					}
				})
				for _, s := range sinks {
					nrmw++
					construct := core.FnKey(fn) + " read-modify-write of " + spec.structName + "." + f
					// an unlock strictly between the read and the write
					released := false
					var where ssa.Instruction
					core.Instrs(fn, func(u ssa.Instruction) {
						if released || !isUnlock(u) {
							return
						}
						r1, _ := core.Reaches(rd, func(x ssa.Instruction) bool { return x == u }, func(x ssa.Instruction) bool { return x == s })
						if !r1 {
							return
						}
						r2, _ := core.Reaches(u, func(x ssa.Instruction) bool { return x == s }, nil)
						if r2 {
							released, where = true, u
						}
					})
					if released {
						r.Bad(rule, construct, p.InsPos(where), "the field is read in one critical section and the value written back (at "+p.InsPos(s)+") is computed from that read after the mutex was released here: an update made by another evaluation in between is lost or reverted, so concurrent evaluations no longer behave like some serial order")
					} else {
						r.OK(rule, construct, p.InsPos(s), "the read and the dependent write are in one critical section (no release of "+spec.mutex+" on any path between them)")
					}
				}
			}
		}
	}
	r.Count(rule+" read-modify-write pairs on guarded fields", nrmw)
}
