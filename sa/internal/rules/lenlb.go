package rules

import (
	"go/token"
	"go/types"
	"strings"

	"golang.org/x/tools/go/ssa"

	"verif/sa/internal/core"
)

// Lower bounds on the length of a slice or string value, and the index-safety
// judgement built on them. Used for data decoded from outside the process
// (terminal bytes, JSON-RPC parameters).

const lenInf = int64(1) << 40

func boundOf(f factSet) int64 {
	best := int64(0)
	for k := range f {
		if strings.HasPrefix(k, "lo>=") {
			if m, err := parseInt(k[4:]); err == nil && m > best {
				best = m
			}
		}
	}
	for f["ne:"+fmtInt(best)] {
		best++
	}
	return best
}

// lenCallsIn: the len() calls inside cond whose argument is v (same value or
// same expression).
func lenCallsIn(cond ssa.Value, v ssa.Value, depth int) []ssa.Value {
	if depth > 4 {
		return nil
	}
	var out []ssa.Value
	switch x := cond.(type) {
	case *ssa.BinOp:
		for _, op := range []ssa.Value{x.X, x.Y} {
			if la := lenArg(op); la != nil && (la == v || exprKey(la) == exprKey(v)) {
				out = append(out, op)
			} else {
				out = append(out, lenCallsIn(op, v, depth+1)...)
			}
		}
	case *ssa.UnOp:
		out = append(out, lenCallsIn(x.X, v, depth+1)...)
	}
	return out
}

// edgeLenLB: what the branch taken from pred to succ says about len(v).
func edgeLenLB(fe *factEngine, pred, succ *ssa.BasicBlock, v ssa.Value) int64 {
	if len(pred.Instrs) == 0 || len(pred.Succs) != 2 || pred.Succs[0] == pred.Succs[1] {
		return 0
	}
	iff, ok := pred.Instrs[len(pred.Instrs)-1].(*ssa.If)
	if !ok {
		return 0
	}
	truth := pred.Succs[0] == succ
	best := int64(0)
	for _, lc := range lenCallsIn(iff.Cond, v, 0) {
		f := factSet{"ge0": true, "lo>=0": true}
		fe.fromCond(iff.Cond, truth, lc, f)
		if b := boundOf(f.normalise()); b > best {
			best = b
		}
	}
	return best
}

// lenLB returns n such that len(v) >= n whenever control reaches ctx.
func lenLB(fe *factEngine, v ssa.Value, ctx ssa.Instruction) int64 {
	return lenLBrec(fe, v, ctx, map[ssa.Value]bool{}, 0)
}

func lenLBrec(fe *factEngine, v ssa.Value, ctx ssa.Instruction, visiting map[ssa.Value]bool, depth int) int64 {
	if depth > 12 {
		return 0
	}
	pooled := lenFacts(fe, v, ctx)
	best := boundOf(pooled)
	if j := entryLenLB(fe, v, ctx.Block(), map[*ssa.BasicBlock]bool{}, 0); j < lenInf && j > best {
		best = j
	}
	for pooled["ne:"+fmtInt(best)] {
		best++
	}
	switch x := v.(type) {
	case *ssa.MakeSlice:
		if n, ok := constInt(x.Len); ok && n > best {
			best = n
		}
	case *ssa.Slice:
		if x.Low == nil && x.High == nil {
			if ptr, ok := x.X.Type().Underlying().(*types.Pointer); ok {
				if arr, ok := ptr.Elem().Underlying().(*types.Array); ok && arr.Len() > best {
					best = arr.Len()
				}
			} else if b := lenLBrec(fe, x.X, x, visiting, depth+1); b > best {
				best = b
			}
		}
	case *ssa.ChangeType:
		if b := lenLBrec(fe, x.X, ctx, visiting, depth+1); b > best {
			best = b
		}
	case *ssa.Call:
		if bi, ok := x.Call.Value.(*ssa.Builtin); ok && bi.Name() == "append" && len(x.Call.Args) == 2 {
			base := lenLBrec(fe, x.Call.Args[0], x, visiting, depth+1)
			k := int64(0)
			if sl, ok := x.Call.Args[1].(*ssa.Slice); ok && sl.Low == nil && sl.High == nil {
				if a, ok := sl.X.(*ssa.Alloc); ok {
					if arr, ok := a.Type().Underlying().(*types.Pointer).Elem().Underlying().(*types.Array); ok {
						k = arr.Len()
					}
				}
			}
			if base+k > best {
				best = base + k
			}
		}
	case *ssa.Phi:
		if visiting[v] {
			return lenInf // inductive hypothesis: decided by the other edges
		}
		visiting[v] = true
		m := lenInf
		for i, e := range x.Edges {
			pred := x.Block().Preds[i]
			lb := int64(0)
			if len(pred.Instrs) > 0 {
				lb = lenLBrec(fe, e, pred.Instrs[len(pred.Instrs)-1], visiting, depth+1)
			}
			if eb := edgeLenLB(fe, pred, x.Block(), e); eb > lb {
				lb = eb
			}
			if lb < m {
				m = lb
			}
		}
		delete(visiting, v)
		if m > best {
			best = m
		}
	}
	for best < lenInf && pooled["ne:"+fmtInt(best)] {
		best++
	}
	return best
}

// lenFacts pools what dominating checks say about every len() of the same
// expression as base (a slice or string value never changes its length).
func lenFacts(fe *factEngine, base ssa.Value, ins ssa.Instruction) factSet {
	key := exprKey(base)
	pooled := factSet{}
	core.Instrs(ins.Parent(), func(i2 ssa.Instruction) {
		c, ok := i2.(*ssa.Call)
		if !ok {
			return
		}
		la := lenArg(c)
		if la == nil || (la != base && exprKey(la) != key) {
			return
		}
		if !core.Precedes(c, ins) {
			return
		}
		for k := range fe.at(c, ins, 0) {
			pooled[k] = true
		}
	})
	return pooled
}

// entryLenLB: a lower bound on len(v) that holds on entry to blk because
// every path into it takes a branch that establishes it (the join of
// `len(v) == 1 || len(v) == 2`, of a switch's cases, ...). Blocks on a cycle
// are decided by their other predecessors (induction on the path). Where a
// branch tests a boolean phi (go/ssa evaluates `a && b && (c || d)` in a
// tagless switch case as a value), only the incoming edges on which the phi
// can have the value of the edge taken are followed.
func entryLenLB(fe *factEngine, v ssa.Value, blk *ssa.BasicBlock, visiting map[*ssa.BasicBlock]bool, depth int) int64 {
	return entryLenLBVia(fe, v, blk, nil, nil, false, visiting, depth)
}

// phiBranch: pred ends in an If on a boolean phi defined in pred itself;
// returns the phi, the truth value on the edge to succ, and the indices of
// pred's predecessors from which the phi can have that value.
func phiBranch(pred, succ *ssa.BasicBlock) (*ssa.Phi, bool, map[int]bool) {
	if len(pred.Instrs) == 0 || len(pred.Succs) != 2 || pred.Succs[0] == pred.Succs[1] {
		return nil, false, nil
	}
	iff, ok := pred.Instrs[len(pred.Instrs)-1].(*ssa.If)
	if !ok {
		return nil, false, nil
	}
	phi, ok := iff.Cond.(*ssa.Phi)
	if !ok || phi.Block() != pred {
		return nil, false, nil
	}
	truth := pred.Succs[0] == succ
	cands := map[int]bool{}
	for i, e := range phi.Edges {
		if c, isC := e.(*ssa.Const); isC && c.Value != nil && constBool(c) != truth {
			continue
		}
		cands[i] = true
	}
	return phi, truth, cands
}

// condLenLB: what cond having the given truth value says about len(v).
func condLenLB(fe *factEngine, cond ssa.Value, truth bool, v ssa.Value) int64 {
	best := int64(0)
	for _, lc := range lenCallsIn(cond, v, 0) {
		f := factSet{"ge0": true, "lo>=0": true}
		fe.fromCond(cond, truth, lc, f)
		if b := boundOf(f.normalise()); b > best {
			best = b
		}
	}
	return best
}

func entryLenLBVia(fe *factEngine, v ssa.Value, blk *ssa.BasicBlock, only map[int]bool, phi *ssa.Phi, truth bool, visiting map[*ssa.BasicBlock]bool, depth int) int64 {
	if len(blk.Preds) == 0 || depth > 16 {
		return 0
	}
	// facts gathered upstream of v's definition are about an earlier
	// instance of v (a loop variable): stop there
	if def, ok := v.(ssa.Instruction); ok && def.Block() == blk {
		return 0
	}
	if visiting[blk] {
		return lenInf
	}
	visiting[blk] = true
	defer delete(visiting, blk)
	m := lenInf
	for i, pred := range blk.Preds {
		if only != nil && !only[i] {
			continue
		}
		lb := edgeLenLB(fe, pred, blk, v)
		if phi != nil && i < len(phi.Edges) {
			if _, isC := phi.Edges[i].(*ssa.Const); !isC {
				if b := condLenLB(fe, phi.Edges[i], truth, v); b > lb {
					lb = b
				}
			}
		}
		var up int64
		if p2, t2, cands := phiBranch(pred, blk); p2 != nil {
			up = entryLenLBVia(fe, v, pred, cands, p2, t2, visiting, depth+1)
		} else {
			up = entryLenLBVia(fe, v, pred, nil, nil, false, visiting, depth+1)
		}
		if up < lenInf && up > lb {
			lb = up
		} else if up == lenInf && lb == 0 {
			lb = lenInf
		}
		if lb < m {
			m = lb
		}
	}
	return m
}

// indexSafe decides whether base[idx] (kind "index") or a slice bound
// base[idx:] / base[:idx] (kind "slice") is within range whenever control
// reaches ins. The explanation is for the evidence.
func indexSafe(fe *factEngine, base, idx ssa.Value, kind string, ins ssa.Instruction) (bool, string) {
	if n, isConst := constInt(idx); isConst {
		need := n + 1
		if kind == "slice" {
			need = n
		}
		have := lenLB(fe, base, ins)
		if n >= 0 && have >= need {
			return true, "length known to be >= " + fmtInt(need) + " on every path"
		}
		return false, "constant position " + fmtInt(n) + " needs len >= " + fmtInt(need) + ", known: len >= " + fmtInt(have)
	}
	// x[len(x)-k], k >= 1
	if bo, ok := idx.(*ssa.BinOp); ok && bo.Op == token.SUB {
		if k, isConst := constInt(bo.Y); isConst && k >= 1 {
			if la := lenArg(bo.X); la != nil && (la == base || exprKey(la) == exprKey(base)) {
				have := lenLB(fe, base, ins)
				if have >= k {
					return true, "position len-" + fmtInt(k) + " with length known to be >= " + fmtInt(k)
				}
				return false, "position len-" + fmtInt(k) + " needs len >= " + fmtInt(k) + ", known: len >= " + fmtInt(have)
			}
		}
	}
	facts := fe.at(idx, ins, 0)
	upper := "ltlen:" + exprKey(base)
	if kind == "slice" {
		upper = "lelen:" + exprKey(base) + "|" + upper
	}
	if needOK(facts, "ge0") && needOK(facts, upper) {
		return true, "bounded on every path [" + facts.String() + "]"
	}
	return false, "not proven to lie within the length [known: " + facts.String() + "]"
}

// reachableInPkg: functions of one package reachable from the roots through
// static calls, closures created in place and go/defer statements.
func reachableInPkg(roots []*ssa.Function, pkg string) map[*ssa.Function]bool {
	seen := map[*ssa.Function]bool{}
	var visit func(f *ssa.Function)
	visit = func(f *ssa.Function) {
		if f == nil || seen[f] || core.PkgPathOf(f) != pkg || f.Blocks == nil {
			return
		}
		seen[f] = true
		core.Instrs(f, func(ins ssa.Instruction) {
			switch x := ins.(type) {
			case ssa.CallInstruction:
				visit(x.Common().StaticCallee())
				if c, ok := closureOf(x.Common().Value); ok {
					visit(c)
				}
			case *ssa.MakeClosure:
				visit(x.Fn.(*ssa.Function))
			}
		})
	}
	for _, f := range roots {
		visit(f)
	}
	return seen
}
