package rules

import (
	"fmt"
	"go/token"
	"go/types"
	"strings"

	"golang.org/x/tools/go/ssa"

	"verif/sa/internal/core"
)

// E4: freshness (copy-on-write) analysis for the persistent packages.
//
// Every instruction that writes memory (Store, MapUpdate, copy, append) must
// write into memory that was allocated during the current activation (or by
// a callee all of whose returns are fresh), or into a cursor (iterator).

type freshEngine struct {
	p       *core.Program
	fns     []*ssa.Function
	freshFn map[*ssa.Function]bool
}

func newFreshEngine(p *core.Program, pkgs ...string) *freshEngine {
	e := &freshEngine{p: p, fns: p.FnsInPkg(pkgs...), freshFn: map[*ssa.Function]bool{}}
	// fixpoint: functions all of whose (single-valued) returns are fresh
	for changed := true; changed; {
		changed = false
		for _, fn := range e.fns {
			if e.freshFn[fn] {
				continue
			}
			ok, nret := true, 0
			for _, b := range fn.Blocks {
				for _, ins := range b.Instrs {
					if r, isRet := ins.(*ssa.Return); isRet {
						if len(r.Results) != 1 {
							ok = false
							continue
						}
						nret++
						if !e.fresh(r.Results[0], map[ssa.Value]bool{}) {
							ok = false
						}
					}
				}
			}
			if ok && nret > 0 {
				e.freshFn[fn] = true
				changed = true
			}
		}
	}
	return e
}

// allStoresFresh reports whether every store into the cell addr (a local
// Alloc, or one field of a local Alloc) stores a fresh value and the cell
// does not escape through anything but loads, stores and field addressing.
func (e *freshEngine) cellFresh(base *ssa.Alloc, field int, seen map[ssa.Value]bool) bool {
	found, all := false, true
	for _, r := range *base.Referrers() {
		switch r := r.(type) {
		case *ssa.FieldAddr:
			if field < 0 || r.Field != field {
				continue
			}
			for _, r2 := range *r.Referrers() {
				if st, ok := r2.(*ssa.Store); ok && st.Addr == r {
					found = true
					if !e.fresh(st.Val, seen) {
						all = false
					}
				}
			}
		case *ssa.Store:
			if r.Addr == base {
				if field >= 0 {
					// whole-struct store into the base: not tracked
					all = false
					continue
				}
				found = true
				if !e.fresh(r.Val, seen) {
					all = false
				}
			}
		}
	}
	return found && all
}

// fresh reports whether v denotes memory allocated in this activation.
func (e *freshEngine) fresh(v ssa.Value, seen map[ssa.Value]bool) bool {
	if seen[v] {
		return true // optimistic on cycles (loop phis)
	}
	seen[v] = true
	switch v := v.(type) {
	case *ssa.Alloc:
		return true
	case *ssa.MakeSlice, *ssa.MakeMap:
		return true
	case *ssa.Const:
		return v.IsNil()
	case *ssa.Slice:
		return e.fresh(v.X, seen)
	case *ssa.IndexAddr:
		return e.fresh(v.X, seen)
	case *ssa.FieldAddr:
		return e.fresh(v.X, seen)
	case *ssa.ChangeType:
		return e.fresh(v.X, seen)
	case *ssa.Convert:
		return e.fresh(v.X, seen)
	case *ssa.Phi:
		for _, x := range v.Edges {
			if !e.fresh(x, seen) {
				return false
			}
		}
		return true
	case *ssa.Call:
		if b, ok := v.Call.Value.(*ssa.Builtin); ok && b.Name() == "append" {
			return e.fresh(v.Call.Args[0], seen)
		}
		if c := v.Call.StaticCallee(); c != nil && e.freshFn[c] {
			return true
		}
		return false
	case *ssa.UnOp:
		if v.Op != token.MUL {
			return false
		}
		// load from a field of a local struct: fresh iff every store to that
		// field stored a fresh value
		if fa, ok := v.X.(*ssa.FieldAddr); ok {
			if base, ok := fa.X.(*ssa.Alloc); ok {
				return e.cellFresh(base, fa.Field, seen)
			}
			return false
		}
		// load from a local variable cell
		if base, ok := v.X.(*ssa.Alloc); ok {
			return e.cellFresh(base, -1, seen)
		}
		return false
	}
	return false
}

func isCursorType(p *core.Program, t types.Type) bool {
	ms := p.SSA.MethodSets.MethodSet(t)
	return ms.Lookup(nil, "HasElem") != nil && ms.Lookup(nil, "Next") != nil && ms.Lookup(nil, "Elem") != nil
}

// addrDesc renders an address chain in a way that does not depend on local
// names or line numbers.
func addrDesc(v ssa.Value) string {
	switch x := v.(type) {
	case *ssa.FieldAddr:
		st := x.X.Type().Underlying().(*types.Pointer).Elem().Underlying().(*types.Struct)
		return addrDesc(x.X) + "." + st.Field(x.Field).Name()
	case *ssa.IndexAddr:
		return addrDesc(x.X) + "[]"
	case *ssa.Slice:
		return addrDesc(x.X) + "[:]"
	case *ssa.UnOp:
		if x.Op == token.MUL {
			return "*" + addrDesc(x.X)
		}
	case *ssa.Parameter:
		return "param:" + shortType(x.Type())
	case *ssa.FreeVar:
		return "freevar:" + shortType(x.Type())
	case *ssa.Alloc:
		return "local:" + shortType(x.Type())
	case *ssa.Call:
		if c := x.Call.StaticCallee(); c != nil {
			return "call:" + c.Name()
		}
		if b, ok := x.Call.Value.(*ssa.Builtin); ok {
			return "builtin:" + b.Name() + "(" + addrDesc(x.Call.Args[0]) + ")"
		}
		return "call:?"
	case *ssa.Phi:
		return "phi:" + shortType(x.Type())
	case *ssa.ChangeType:
		return addrDesc(x.X)
	case *ssa.Convert:
		return addrDesc(x.X)
	case *ssa.TypeAssert:
		return "assert(" + addrDesc(x.X) + ")"
	case *ssa.Extract:
		return "extract(" + addrDesc(x.Tuple) + ")"
	case *ssa.Global:
		return "global:" + x.Name()
	case *ssa.Const:
		if x.Value != nil {
			return x.Value.String()
		}
		return "const"
	case *ssa.MakeSlice:
		return "make"
	case *ssa.Index:
		return addrDesc(x.X) + "[]"
	case *ssa.Lookup:
		return addrDesc(x.X) + "[k]"
	case *ssa.Field:
		st := x.X.Type().Underlying().(*types.Struct)
		return addrDesc(x.X) + "." + st.Field(x.Field).Name()
	case *ssa.MakeInterface:
		return addrDesc(x.X)
	case *ssa.BinOp:
		return "(" + addrDesc(x.X) + x.Op.String() + addrDesc(x.Y) + ")"
	case *ssa.Next:
		return "next(" + addrDesc(x.Iter) + ")"
	case *ssa.Range:
		return "range(" + addrDesc(x.X) + ")"
	case *ssa.ChangeInterface:
		return addrDesc(x.X)
	case *ssa.Function:
		return "func:" + x.Name()
	case *ssa.MakeClosure:
		return "closure"
	}
	return fmt.Sprintf("%T", v)
}

func shortType(t types.Type) string {
	s := types.TypeString(t, func(p *types.Package) string { return p.Name() })
	return s
}

func addrRoot(v ssa.Value) ssa.Value {
	for {
		switch x := v.(type) {
		case *ssa.FieldAddr:
			v = x.X
		case *ssa.IndexAddr:
			v = x.X
		case *ssa.Slice:
			v = x.X
		default:
			return v
		}
	}
}

// runFresh checks every write in the given packages.
// inPlaceSliceMutators: standard-library functions that write into the backing
// array of their first argument (slices.Delete shifts the tail down and zeroes
// the freed slots: on the entries of a shared trie node that changes every
// earlier version of the map).
var inPlaceSliceMutators = map[string]bool{
	"slices.Delete": true, "slices.DeleteFunc": true, "slices.Insert": true, "slices.Replace": true,
	"slices.Compact": true, "slices.CompactFunc": true, "slices.Reverse": true,
	"slices.Sort": true, "slices.SortFunc": true, "slices.SortStableFunc": true,
	"sort.Slice": true, "sort.SliceStable": true, "sort.Strings": true, "sort.Ints": true,
}

func runFresh(p *core.Program, r *core.Report, rule string, pkgs ...string) {
	e := newFreshEngine(p, pkgs...)
	var ff []string
	for _, fn := range e.fns {
		if e.freshFn[fn] {
			ff = append(ff, fn.Name())
		}
	}
	r.Note("%s: fresh-returning functions found by fixpoint in %v: %s", rule, pkgs, strings.Join(ff, " "))
	r.Count(rule+" fresh-returning functions", len(ff))
	for _, fn := range e.fns {
		if fn.Synthetic != "" && fn.Name() == "init" {
			continue // package initialisers run before any value exists
		}
		for _, b := range fn.Blocks {
			for _, ins := range b.Instrs {
				var dst ssa.Value
				kind := ""
				switch v := ins.(type) {
				case *ssa.Store:
					dst, kind = v.Addr, "store"
				case *ssa.MapUpdate:
					dst, kind = v.Map, "mapupdate"
				case *ssa.Call:
					if bi, ok := v.Call.Value.(*ssa.Builtin); ok {
						switch bi.Name() {
						case "copy", "append":
							dst, kind = v.Call.Args[0], bi.Name()
						case "clear", "delete":
							dst, kind = v.Call.Args[0], bi.Name()
						}
					}
					// library functions that rearrange or overwrite the
					// elements of the slice they are given, in place
					if callee := v.Call.StaticCallee(); callee != nil && len(v.Call.Args) > 0 {
						if inPlaceSliceMutators[core.Origin(callee).String()] {
							dst, kind = v.Call.Args[0], callee.Name()
						}
					}
				}
				if dst == nil {
					continue
				}
				r.Count(rule+" write instructions", 1)
				construct := core.FnKey(fn) + " " + kind + " " + addrDesc(dst)
				pos := p.InsPos(ins)
				if _, isAlloc := dst.(*ssa.Alloc); isAlloc && kind == "store" {
					r.OK(rule, construct, pos, "trivial")
					continue
				}
				if e.fresh(dst, map[ssa.Value]bool{}) {
					r.OK(rule, construct, pos, "destination allocated in this activation (Alloc/make/append(nil,…)/by-value copy/fresh-returning callee)")
					continue
				}
				root := addrRoot(dst)
				if u, ok := root.(*ssa.UnOp); ok && u.Op == token.MUL {
					// a slice of private records loaded from a cursor field
					// (the vector iterator's path); a loaded node pointer or
					// []any is shared tree memory and is not exempt
					if sl, ok := u.Type().Underlying().(*types.Slice); ok {
						if _, ok := sl.Elem().Underlying().(*types.Struct); ok {
							root = addrRoot(u.X)
						}
					}
				}
				if isCursorType(p, root.Type()) {
					r.OK(rule, construct, pos, "destination is owned by an iterator (cursor), which is mutable by design; no persistent type lies on the address chain")
					continue
				}
				r.Bad(rule, construct, pos, "write into memory that is not freshly allocated in this activation: it may be shared with a previously obtained version of the persistent value ("+kind+" to "+addrDesc(dst)+")")
			}
		}
	}
}
