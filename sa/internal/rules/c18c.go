package rules

import (
	"go/token"
	"go/types"
	"sort"

	"golang.org/x/tools/go/ssa"

	"verif/sa/internal/core"
)

// runExtNoValues (C18 EXT-NO-VALUES): an external command sees only the byte
// side of its ports. The value channel of the stage's input is shared by
// every command that runs in that stage, so nothing reachable from
// externalCmd.Call (its closures and goroutines included) receives from or
// sends on a channel of values: a value taken out while the child process
// runs is lost to the command that reads the input afterwards
// (`range 200 | { e:true; all }` must still see 200 values).
func runExtNoValues(p *core.Program, r *core.Report) {
	const rule = "EXT-NO-VALUES"
	call := p.Method(pkgEval, "externalCmd", "Call")
	if !r.Anchor(rule, "(eval.externalCmd).Call", call != nil) {
		return
	}
	scope := reachableInPkg([]*ssa.Function{call}, pkgEval)
	// goroutines started from the scope
	for changed := true; changed; {
		changed = false
		for f := range scope {
			core.Instrs(f, func(ins ssa.Instruction) {
				if g, ok := ins.(*ssa.Go); ok {
					if w := workerOf(g); w != nil && !scope[w] && core.PkgPathOf(w) == pkgEval {
						for f2 := range reachableInPkg([]*ssa.Function{w}, pkgEval) {
							if !scope[f2] {
								scope[f2] = true
								changed = true
							}
						}
					}
				}
			})
		}
	}
	var fns []*ssa.Function
	for f := range scope {
		fns = append(fns, f)
	}
	sort.Slice(fns, func(i, j int) bool { return fns[i].String() < fns[j].String() })
	r.Count(rule+" functions reachable from externalCmd.Call inside pkg/eval", len(fns))
	isValueChan := func(v ssa.Value) bool {
		ch, ok := v.Type().Underlying().(*types.Chan)
		if !ok {
			return false
		}
		it, ok := ch.Elem().Underlying().(*types.Interface)
		return ok && it.Empty()
	}
	var bad ssa.Instruction
	what := ""
	for _, fn := range fns {
		core.Instrs(fn, func(ins ssa.Instruction) {
			if bad != nil {
				return
			}
			switch x := ins.(type) {
			case *ssa.UnOp:
				if x.Op == token.ARROW && isValueChan(x.X) {
					bad, what = ins, "receives from"
				}
			case *ssa.Send:
				if isValueChan(x.Chan) {
					bad, what = ins, "sends on"
				}
			case *ssa.Select:
				for _, st := range x.States {
					if isValueChan(st.Chan) {
						bad, what = ins, "selects on"
					}
				}
			}
		})
	}
	construct := "running an external command leaves the stage's value input alone"
	if bad == nil {
		r.OK(rule, construct, p.Pos(call.Pos()), "no function reachable from externalCmd.Call touches a channel of values")
	} else {
		r.Bad(rule, construct, p.InsPos(bad), core.FnKey(bad.Parent())+", reachable from externalCmd.Call, "+what+" a channel of values: values written by the previous stage are consumed while the child process runs and never reach the command that reads the stage's input afterwards")
	}
}
