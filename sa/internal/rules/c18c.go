package rules

import (
	"go/token"
	"go/types"
	"sort"

	"golang.org/x/tools/go/ssa"

	"verif/sa/internal/core"
)

// runGoneThroughCombinators (C18 GONE-COMBINED): "the reader is gone" is not an
// error of the pipeline. Commands that run several callbacks combine their
// errors - run-parallel into a PipelineError, peach through errutil.Multi - so
// the predicate with which the pipeline recognises reader-gone looks through
// both combinators: besides errs.ReaderGone it examines PipelineError and an
// interface with Unwrap() []error (in itself or in what it calls).
func runGoneThroughCombinators(p *core.Program, r *core.Report) {
	const rule = "GONE-COMBINED"
	isNamedT := func(t types.Type, pkg, name string) bool { return core.IsNamed(t, pkg, name) }
	var roots []*ssa.Function
	for _, fn := range p.FnsInPkg(pkgEval) {
		if fn.Parent() != nil || fn.Signature.Results().Len() != 1 || !isBoolType(fn.Signature.Results().At(0).Type()) {
			continue
		}
		hit := false
		core.Instrs(fn, func(ins ssa.Instruction) {
			if ta, ok := ins.(*ssa.TypeAssert); ok && isNamedT(ta.AssertedType, pkgEval+"/errs", "ReaderGone") {
				hit = true
			}
		})
		if hit {
			roots = append(roots, fn)
		}
	}
	// the predicates proper: those used by the pipeline (callers of a root
	// that themselves return bool are predicates too)
	if !r.Anchor(rule, "a boolean function of pkg/eval that tests for errs.ReaderGone", len(roots) >= 1) {
		return
	}
	scope := reachableInPkg(roots, pkgEval)
	sawPipeline, sawUnwrap := false, false
	for fn := range scope {
		core.Instrs(fn, func(ins ssa.Instruction) {
			ta, ok := ins.(*ssa.TypeAssert)
			if !ok {
				return
			}
			if isNamedT(ta.AssertedType, pkgEval, "PipelineError") {
				sawPipeline = true
			}
			if it, ok := ta.AssertedType.Underlying().(*types.Interface); ok {
				for i := 0; i < it.NumMethods(); i++ {
					m := it.Method(i)
					if m.Name() != "Unwrap" {
						continue
					}
					if sig, ok := m.Type().(*types.Signature); ok && sig.Results().Len() == 1 {
						if _, isSlice := sig.Results().At(0).Type().Underlying().(*types.Slice); isSlice {
							sawUnwrap = true
						}
					}
				}
			}
		})
	}
	// the parts of a PipelineError that stand for success (an exception with a
	// nil reason) are skipped: somewhere in the predicate the Reason() of a
	// part is compared with nil
	skipsOK := false
	for fn := range scope {
		core.Instrs(fn, func(ins ssa.Instruction) {
			cmp, ok := ins.(*ssa.BinOp)
			if !ok || (cmp.Op != token.EQL && cmp.Op != token.NEQ) {
				return
			}
			for _, side := range []ssa.Value{cmp.X, cmp.Y} {
				if c, ok := side.(*ssa.Call); ok && c.Call.IsInvoke() && c.Call.Method.Name() == "Reason" {
					other := cmp.X
					if other == side {
						other = cmp.Y
					}
					if isNilConst(other) {
						skipsOK = true
					}
				}
			}
		})
	}
	if sawPipeline {
		if skipsOK {
			r.OK(rule, "the reader-gone predicate skips the successful parts of a PipelineError", p.Pos(roots[0].Pos()), "the Reason() of a part is compared with nil")
		} else {
			r.Bad(rule, "the reader-gone predicate skips the successful parts of a PipelineError", p.Pos(roots[0].Pos()), "the parts of a PipelineError that stand for success (a non-nil exception with a nil reason) are examined like failures: `run-parallel { range 100000 } { nop } { range 100000 } | nop` raises (reader gone | <nil> | reader gone) instead of ending quietly")
		}
	}
	construct := "the reader-gone predicate looks through error combinators"
	switch {
	case sawPipeline && sawUnwrap:
		r.OK(rule, construct, p.Pos(roots[0].Pos()), "it examines PipelineError and Unwrap() []error besides errs.ReaderGone")
	case !sawPipeline:
		r.Bad(rule, construct, p.Pos(roots[0].Pos()), "a PipelineError made of reader-gone exceptions (run-parallel { range 1000 } { range 1000 } | nop) is not recognised: the pipeline reports 'reader gone' as its exception")
	default:
		r.Bad(rule, construct, p.Pos(roots[0].Pos()), "a combined error made of reader-gone exceptions (range 1000 | peach {|x| put $x } | nop gives 'multiple errors: reader gone; reader gone') is not recognised: the pipeline reports it as its exception")
	}
}

// runNilIsAValue (C18 NIL-IS-A-VALUE): $nil is Go's nil and travels through
// value channels like any other value. Whether a channel of values is
// exhausted is therefore told by the comma-ok form of the receive (or by
// range), never by the received value being nil: a reader that takes a
// received nil for "closed" stops at the first $nil, drops everything after
// it, and can leave the writer blocked for ever.
func runNilIsAValue(p *core.Program, r *core.Report) {
	const rule = "NIL-IS-A-VALUE"
	isValueChan := func(v ssa.Value) bool {
		ch, ok := v.Type().Underlying().(*types.Chan)
		if !ok {
			return false
		}
		it, ok := ch.Elem().Underlying().(*types.Interface)
		return ok && it.Empty()
	}
	comparedWithNil := func(v ssa.Value) ssa.Instruction {
		seen := map[ssa.Value]bool{}
		var hit ssa.Instruction
		var walk func(x ssa.Value)
		walk = func(x ssa.Value) {
			if x == nil || seen[x] || hit != nil || x.Referrers() == nil {
				return
			}
			seen[x] = true
			for _, ref := range *x.Referrers() {
				switch u := ref.(type) {
				case *ssa.BinOp:
					if (u.Op == token.EQL || u.Op == token.NEQ) && (isNilConst(u.X) || isNilConst(u.Y)) {
						// only when the comparison decides control flow
						for _, r2 := range *u.Referrers() {
							if _, isIf := r2.(*ssa.If); isIf {
								hit = u
							}
						}
					}
				case *ssa.Phi:
					walk(u)
				case *ssa.Store:
					// a local variable holding the received value
					if a, ok := u.Addr.(*ssa.Alloc); ok && u.Val == x {
						for _, r2 := range *a.Referrers() {
							if ld, ok := r2.(*ssa.UnOp); ok && ld.Op == token.MUL {
								walk(ld)
							}
						}
					}
				}
			}
		}
		walk(v)
		return hit
	}
	n := 0
	for _, fn := range p.FnsInPkg(pkgEval) {
		core.Instrs(fn, func(ins ssa.Instruction) {
			var recvd []ssa.Value
			switch x := ins.(type) {
			case *ssa.UnOp:
				if x.Op == token.ARROW && isValueChan(x.X) && !x.CommaOk {
					recvd = append(recvd, x)
				}
			case *ssa.Select:
				idx := 2
				for _, st := range x.States {
					if st.Dir != types.RecvOnly {
						continue
					}
					if isValueChan(st.Chan) {
						for _, ref := range *x.Referrers() {
							if ex, ok := ref.(*ssa.Extract); ok && ex.Index == idx {
								recvd = append(recvd, ex)
							}
						}
					}
					idx++
				}
			}
			for _, v := range recvd {
				n++
				construct := core.FnKey(fn) + " receives a value without the comma-ok form"
				if cmp := comparedWithNil(v); cmp != nil {
					r.Bad(rule, construct+" and compares it with nil", p.InsPos(cmp), "a received nil is taken to mean that the channel is closed, but $nil is a value that programs put into pipes: the reader stops at the first $nil, drops the values after it, and the writer can block for ever on the full channel")
				} else {
					r.OK(rule, construct, p.InsPos(ins), "the received value is not compared with nil to decide control flow")
				}
			}
		})
	}
	r.Count(rule+" receives from channels of values without comma-ok in pkg/eval", n)
}

// runExtNoValues (C18 EXT-NO-VALUES): an external command sees only the byte
// side of its ports. The value channel of the stage's input is shared by
// every command that runs in that stage, so nothing reachable from
// externalCmd.Call (its closures and goroutines included) receives from or
// sends on a channel of values: a value taken out while the child process
// runs is lost to the command that reads the input afterwards
// (`range 200 | { e:true; all }` must still see 200 values).
func runExtNoValues(p *core.Program, r *core.Report) {
	const rule = "EXT-NO-VALUES"
	call := p.Method(pkgEval, "externalCmd", "Call")
	if !r.Anchor(rule, "(eval.externalCmd).Call", call != nil) {
		return
	}
	scope := reachableInPkg([]*ssa.Function{call}, pkgEval)
	// goroutines started from the scope
	for changed := true; changed; {
		changed = false
		for f := range scope {
			core.Instrs(f, func(ins ssa.Instruction) {
				if g, ok := ins.(*ssa.Go); ok {
					if w := workerOf(g); w != nil && !scope[w] && core.PkgPathOf(w) == pkgEval {
						for f2 := range reachableInPkg([]*ssa.Function{w}, pkgEval) {
							if !scope[f2] {
								scope[f2] = true
								changed = true
							}
						}
					}
				}
			})
		}
	}
	var fns []*ssa.Function
	for f := range scope {
		fns = append(fns, f)
	}
	sort.Slice(fns, func(i, j int) bool { return fns[i].String() < fns[j].String() })
	r.Count(rule+" functions reachable from externalCmd.Call inside pkg/eval", len(fns))
	isValueChan := func(v ssa.Value) bool {
		ch, ok := v.Type().Underlying().(*types.Chan)
		if !ok {
			return false
		}
		it, ok := ch.Elem().Underlying().(*types.Interface)
		return ok && it.Empty()
	}
	var bad ssa.Instruction
	what := ""
	for _, fn := range fns {
		core.Instrs(fn, func(ins ssa.Instruction) {
			if bad != nil {
				return
			}
			switch x := ins.(type) {
			case *ssa.UnOp:
				if x.Op == token.ARROW && isValueChan(x.X) {
					bad, what = ins, "receives from"
				}
			case *ssa.Send:
				if isValueChan(x.Chan) {
					bad, what = ins, "sends on"
				}
			case *ssa.Select:
				for _, st := range x.States {
					if isValueChan(st.Chan) {
						bad, what = ins, "selects on"
					}
				}
			}
		})
	}
	construct := "running an external command leaves the stage's value input alone"
	if bad == nil {
		r.OK(rule, construct, p.Pos(call.Pos()), "no function reachable from externalCmd.Call touches a channel of values")
	} else {
		r.Bad(rule, construct, p.InsPos(bad), core.FnKey(bad.Parent())+", reachable from externalCmd.Call, "+what+" a channel of values: values written by the previous stage are consumed while the child process runs and never reach the command that reads the stage's input afterwards")
	}
}
