package rules

import (
	"go/token"
	"go/types"

	"golang.org/x/tools/go/ssa"

	"verif/sa/internal/core"
)

// runSliceNonEmpty (C33 SLICE-NONEMPTY): a piece t[a:b] of a styled text that
// a function of pkg/ui returns is a normal text only when it is not empty (an
// empty text must be nil, and t[a:a] is an empty non-nil slice). Every such
// slice expression with both bounds is dominated by the unequal edge of a
// comparison of its two bounds (or the true edge of a < b).
func runSliceNonEmpty(p *core.Program, r *core.Report) {
	const rule = "SLICE-NONEMPTY"
	n := 0
	for _, fn := range p.FnsInPkg(pkgUI) {
		core.Instrs(fn, func(ins ssa.Instruction) {
			sl, ok := ins.(*ssa.Slice)
			if !ok || !isUIText(sl.Type()) || sl.Low == nil || sl.High == nil {
				return
			}
			// does it reach a return?
			reaches := false
			seen := map[ssa.Value]bool{}
			var walk func(v ssa.Value)
			walk = func(v ssa.Value) {
				if seen[v] || v.Referrers() == nil {
					return
				}
				seen[v] = true
				for _, ref := range *v.Referrers() {
					switch x := ref.(type) {
					case *ssa.Return:
						reaches = true
					case *ssa.MakeInterface:
						walk(x)
					case *ssa.ChangeType:
						walk(x)
					case *ssa.Phi:
						walk(x)
					}
				}
			}
			walk(sl)
			if !reaches {
				return
			}
			n++
			construct := core.FnKey(fn) + " returns the piece " + addrDesc(sl.X) + "[" + idxDesc(sl.Low) + ":" + idxDesc(sl.High) + "]"
			guarded := false
			for _, b := range fn.Blocks {
				if len(b.Instrs) == 0 {
					continue
				}
				iff, ok := b.Instrs[len(b.Instrs)-1].(*ssa.If)
				if !ok {
					continue
				}
				cmp, ok := iff.Cond.(*ssa.BinOp)
				if !ok {
					continue
				}
				same := func(a, b ssa.Value) bool { return a == b || exprKey(a) == exprKey(b) }
				lowHigh := same(cmp.X, sl.Low) && same(cmp.Y, sl.High)
				highLow := same(cmp.X, sl.High) && same(cmp.Y, sl.Low)
				if !lowHigh && !highLow {
					continue
				}
				e := core.EdgeTo(b, sl.Block())
				switch cmp.Op {
				case token.EQL:
					guarded = guarded || e == 1
				case token.NEQ:
					guarded = guarded || e == 0
				case token.LSS:
					guarded = guarded || (lowHigh && e == 0)
				case token.GTR:
					guarded = guarded || (highLow && e == 0)
				case token.GEQ:
					guarded = guarded || (lowHigh && e == 1)
				case token.LEQ:
					guarded = guarded || (highLow && e == 1)
				}
			}
			if guarded {
				r.OK(rule, construct, p.InsPos(sl), "reached only when the two bounds differ")
			} else {
				r.Bad(rule, construct, p.InsPos(sl), "when the two bounds are equal the result is an empty text that is not nil: it is not in normal form and is not eq to (styled '')")
			}
		})
	}
	r.Count(rule+" two-bound slices of a styled text that are returned", n)
}

// runBuilderFresh (C33 BUILDER-FRESH): the text a TextBuilder hands out is a
// value of its own: TextBuilder.Text returns nil or a slice whose backing
// array was allocated in that call (append onto a nil/fresh slice), never the
// builder's own segs array with something appended. A builder is written to
// and reset after Text() (Text.SplitByRune reuses one builder per line), so a
// result sharing the builder's array is overwritten by the next line: the
// pieces no longer concatenate back to the text.
func runBuilderFresh(p *core.Program, r *core.Report) {
	const rule = "BUILDER-FRESH"
	text := p.Method(pkgUI, "TextBuilder", "Text")
	if !r.Anchor(rule, "(*ui.TextBuilder).Text", text != nil && text.Blocks != nil) {
		return
	}
	fe := newFreshEngine(p, pkgUI)
	n := 0
	var bad ssa.Instruction
	core.Instrs(text, func(ins ssa.Instruction) {
		ret, ok := ins.(*ssa.Return)
		if !ok || len(ret.Results) != 1 {
			return
		}
		n++
		if bad == nil && !fe.fresh(ret.Results[0], map[ssa.Value]bool{}) {
			bad = ins
		}
	})
	construct := "(*ui.TextBuilder).Text returns storage of its own"
	if bad == nil && n > 0 {
		r.OK(rule, construct, p.Pos(text.Pos()), "every returned slice is nil or built by append onto a slice allocated in the call")
	} else if bad != nil {
		r.Bad(rule, construct, p.InsPos(bad), "the returned text shares the builder's backing array (append onto tb.segs): the next write to the builder, or its reuse after Reset, overwrites segments of a text already handed out")
	}
}

// uniqueCallerRoot: an unexported plain function that is called at exactly one
// place of its package and never used as a value is an extracted piece of its
// caller; rules that key their audit tables by function use the caller's name
// for it, so that extracting a helper does not orphan an audit entry.
func uniqueCallerRoot(p *core.Program, fn *ssa.Function, depth int) *ssa.Function {
	fn = core.Outer(fn)
	if depth > 3 || fn.Pkg == nil {
		return fn
	}
	// a method may also be reached through an interface of its package
	if fn.Signature.Recv() != nil && methodOfSomeInterface(fn) {
		return fn
	}
	if obj := fn.Object(); obj == nil || obj.Exported() {
		return fn
	}
	var caller *ssa.Function
	n, asValue, several := 0, false, false
	for _, g := range p.FnsInPkg(fn.Pkg.Pkg.Path()) {
		core.Instrs(g, func(ins ssa.Instruction) {
			isCall := false
			if c, ok := ins.(ssa.CallInstruction); ok && c.Common().StaticCallee() == fn {
				isCall = true
				if _, isGo := ins.(*ssa.Go); isGo {
					asValue = true
				}
				n++
				if caller != nil && caller != core.Outer(g) {
					several = true
				}
				caller = core.Outer(g)
			}
			for _, op := range ins.Operands(nil) {
				if *op == nil {
					continue
				}
				if f, ok := (*op).(*ssa.Function); ok && f == fn && !isCall {
					asValue = true
				}
			}
		})
	}
	// every call site lies in one function (and its closures)
	if n == 0 || several || asValue || caller == nil || caller == fn {
		return fn
	}
	return uniqueCallerRoot(p, caller, depth+1)
}

// uniqueCallerChain: fn (without closures), then the function all its call
// sites lie in, and so on up to uniqueCallerRoot.
func uniqueCallerChain(p *core.Program, fn *ssa.Function) []*ssa.Function {
	out := []*ssa.Function{core.Outer(fn)}
	for i := 0; i < 4; i++ {
		cur := out[len(out)-1]
		// one step: the root computed with the remaining depth budget of 0
		next := uniqueCallerRoot(p, cur, 3)
		if next == cur {
			break
		}
		out = append(out, next)
	}
	return out
}

// methodOfSomeInterface: some interface type declared (or used as an embedded
// or literal interface in a declaration) in fn's package has a method of fn's
// name, so fn may be called dynamically.
func methodOfSomeInterface(fn *ssa.Function) bool {
	scope := fn.Pkg.Pkg.Scope()
	for _, name := range scope.Names() {
		tn, ok := scope.Lookup(name).(*types.TypeName)
		if !ok {
			continue
		}
		if it, ok := tn.Type().Underlying().(*types.Interface); ok {
			for i := 0; i < it.NumMethods(); i++ {
				if it.Method(i).Name() == fn.Name() {
					return true
				}
			}
		}
	}
	return false
}
