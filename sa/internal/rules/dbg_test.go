package rules

import (
	"fmt"
	"os"
	"strings"
	"testing"

	"golang.org/x/tools/go/ssa"
	"verif/sa/internal/core"
)

func TestDbg(t *testing.T) {
	if os.Getenv("ELVSA_DBG") == "" {
		t.Skip()
	}
	src, _ := os.ReadFile("/repo/pkg/eval/compile_effect.go")
	text := strings.Replace(string(src), "\tdstPort := growAccess(&fm.ports, dst)\n", "\tdefer func() { _ = dst }()\n\tdstPort := growAccess(&fm.ports, dst)\n", 1)
	p, err := core.Load(core.LoadOpts{Repo: "/repo", Patterns: []string{"./pkg/eval"}, Overlay: map[string][]byte{"/repo/pkg/eval/compile_effect.go": []byte(text)}})
	if err != nil {
		t.Fatal(err)
	}
	e := newPanicEngine(p)
	for _, s := range e.sinks() {
		if !strings.Contains(core.FnKey(s.ins.Parent()), "growAccess") {
			continue
		}
		fmt.Println(p.InsPos(s.ins), s.kind, s.ins.Parent().String(), addrDesc(s.operand), "facts:", e.fe.at(s.operand, s.ins, 0))
		fn := s.ins.Parent()
		for _, site := range e.fe.callers[fn] {
			arg := site.Common().Args[1]
			fmt.Println("   site", p.InsPos(site), site.Parent().Name(), addrDesc(arg), "facts:", e.fe.at(arg, site, 0))
			if ld, ok := arg.(*ssa.UnOp); ok {
				if cell, ok := ld.X.(*ssa.Alloc); ok {
					fmt.Println("     cellOnlyStoredHere:", cellOnlyStoredHere(cell), "cellFacts:", e.fe.cellFacts(cell, ld, 0))
				}
			}
		}
	}
}
