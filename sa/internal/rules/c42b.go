package rules

import (
	"go/token"
	"go/types"
	"sort"

	"golang.org/x/tools/go/ssa"

	"verif/sa/internal/core"
)

// closedPlaceholders: package-level channel variables of pkg/eval that are
// initialised from a function which closes the channel it returns (the
// "closed channel" placeholder of input-only ports).
func closedPlaceholders(p *core.Program) []*ssa.Global {
	pkg := p.Pkg(pkgEval)
	if pkg == nil {
		return nil
	}
	closes := func(f *ssa.Function) bool {
		if f == nil || f.Blocks == nil {
			return false
		}
		var made, closed, returned ssa.Value
		core.Instrs(f, func(ins ssa.Instruction) {
			switch x := ins.(type) {
			case *ssa.MakeChan:
				made = x
			case *ssa.Call:
				if b, ok := x.Call.Value.(*ssa.Builtin); ok && b.Name() == "close" {
					closed = x.Call.Args[0]
				}
			case *ssa.Return:
				if len(x.Results) == 1 {
					returned = x.Results[0]
				}
			}
		})
		return made != nil && closed == made && returned == made
	}
	var out []*ssa.Global
	if initFn := pkg.Func("init"); initFn != nil {
		core.Instrs(initFn, func(ins ssa.Instruction) {
			st, ok := ins.(*ssa.Store)
			if !ok {
				return
			}
			g, ok := st.Addr.(*ssa.Global)
			if !ok {
				return
			}
			if c, ok := st.Val.(*ssa.Call); ok && closes(c.Call.StaticCallee()) {
				out = append(out, g)
			}
		})
	}
	sort.Slice(out, func(i, j int) bool { return out[i].Name() < out[j].Name() })
	return out
}

// runPortTotal (C42 PORT-TOTAL): value I/O on any port a redirection can
// install is total.
//   - every eval.Port literal built in pkg/eval gives Chan a non-nil value:
//     a nil channel blocks a reader of the port forever (`each ... <&-`);
//   - every send on a port's value channel is dominated by the "is not the
//     closed placeholder" edge of a comparison with each closed placeholder
//     channel: `put x >&0` makes an input port (whose Chan is the closed
//     placeholder) serve as output, and a send on a closed channel panics.
func runPortTotal(p *core.Program, r *core.Report) {
	const rule = "PORT-TOTAL"
	portT := p.NamedType(pkgEval, "Port")
	if !r.Anchor(rule, "eval.Port", portT != nil) {
		return
	}
	placeholders := closedPlaceholders(p)
	r.Count(rule+" closed placeholder channels", len(placeholders))
	if !r.Anchor(rule, "a closed placeholder channel variable in pkg/eval", len(placeholders) > 0) {
		return
	}
	var chanT types.Type
	if st, ok := portT.Underlying().(*types.Struct); ok {
		for i := 0; i < st.NumFields(); i++ {
			if st.Field(i).Name() == "Chan" {
				chanT = st.Field(i).Type()
			}
		}
	}
	// (a) literals
	nlit := 0
	for _, fn := range p.FnsInPkg(pkgEval) {
		core.Instrs(fn, func(ins ssa.Instruction) {
			a, ok := ins.(*ssa.Alloc)
			if !ok || !core.IsNamed(a.Type(), pkgEval, "Port") {
				return
			}
			fs := fieldStores(a)
			if len(fs) == 0 {
				return // not a literal (a variable of type Port)
			}
			nlit++
			construct := core.FnKey(fn) + " Port literal #" + itoa(nlit) + " value channel"
			v, has := fs["Chan"]
			switch {
			case !has || isNilConst(v):
				r.Bad(rule, construct, p.InsPos(ins), "a port is built without a value channel: whoever reads values from it (each, count, all, ... after `<&-` or `0> file`) blocks forever on the nil channel; use the closed placeholder so that reading yields no values")
			default:
				r.OK(rule, construct, p.InsPos(ins), "Chan = "+addrDesc(v))
			}
		})
	}
	r.Count(rule+" Port literals in pkg/eval", nlit)
	// (b) sends
	nsend := 0
	for _, fn := range p.FnsInPkg(pkgEval) {
		core.Instrs(fn, func(ins ssa.Instruction) {
			var chans []ssa.Value
			switch x := ins.(type) {
			case *ssa.Send:
				chans = append(chans, x.Chan)
			case *ssa.Select:
				for _, st := range x.States {
					if st.Dir == types.SendOnly {
						chans = append(chans, st.Chan)
					}
				}
			}
			for _, ch := range chans {
				if !isValueChanField(chanOrigin(ch, map[ssa.Value]bool{})) {
					continue
				}
				nsend++
				for _, g := range placeholders {
					if chanT != nil && !types.Identical(g.Type().(*types.Pointer).Elem(), chanT) {
						continue
					}
					construct := core.FnKey(fn) + " send on " + addrDesc(ch) + " excludes " + g.Name()
					if comparedUnequal(ch, g, ins) {
						r.OK(rule, construct, p.InsPos(ins), "dominated by the not-equal edge of a comparison of the channel with "+g.Name())
					} else if callersExclude(p, fn, ch, g) {
						r.OK(rule, construct, p.InsPos(ins), "an unexported helper: every call site is dominated by the not-equal edge of a comparison of the same port's channel with "+g.Name())
					} else {
						r.Bad(rule, construct, p.InsPos(ins), "a value is sent on a port's channel that may be the closed placeholder "+g.Name()+" (an input-only port made the output by `>&0`, or a closed port): sending on a closed channel panics and kills the interpreter")
					}
				}
			}
		})
	}
	r.Count(rule+" sends on port value channels", nsend)
	r.Anchor(rule, "a send on a port value channel exists", nsend > 0)

	// (c) a stopped port is never sent on: the blocking select that sends is
	// reached only through the default branch of a non-blocking receive on
	// the port's sendStop (with both ready, Go's select picks at random)
	for _, fn := range p.FnsInPkg(pkgEval) {
		core.Instrs(fn, func(ins ssa.Instruction) {
			sel, ok := ins.(*ssa.Select)
			if !ok || !sel.Blocking {
				return
			}
			sends := false
			for _, st := range sel.States {
				if st.Dir == types.SendOnly && isValueChanField(chanOrigin(st.Chan, map[ssa.Value]bool{})) {
					sends = true
				}
			}
			if !sends {
				return
			}
			construct := core.FnKey(fn) + " checks sendStop before trying to send"
			if stopCheckedFirst(fn, sel) {
				r.OK(rule, construct, p.InsPos(ins), "the sending select is reached only through the default branch of a non-blocking receive on sendStop")
			} else {
				r.Bad(rule, construct, p.InsPos(ins), "the value is offered to the channel together with the stop signal: when the port is stopped and the channel can take the value (or is closed), select picks at random - a stage that made the reading end of its pipe an output (`... | put x >&0`) panics with 'send on closed channel'")
			}
			// (c') the owner of a port closes the value channel when its
			// evaluation ends, while a background job may still write: the
			// sending function turns the resulting panic into an error
			construct = core.FnKey(fn) + " survives a value channel closed by the port's owner"
			if recoversHere(p, fn, 0) {
				r.OK(rule, construct, p.InsPos(ins), "the function (or every caller of this unexported helper) defers a recover() and reports an error instead")
			} else {
				r.Bad(rule, construct, p.InsPos(ins), "the port's owner closes the channel when the evaluation it was made for finishes (output capture collected, script ended, pipeline stage done) and a background job can still be writing: `nop ({ sleep 0.05; put a } &); sleep 0.2` panics with 'send on closed channel'")
			}
		})
	}
	// (d) the reading end of a pipe is a stopped port
	closedStops := closedAtInit(p)
	npipe := 0
	for _, fn := range p.FnsInPkg(pkgEval) {
		core.Instrs(fn, func(ins ssa.Instruction) {
			a, ok := ins.(*ssa.Alloc)
			if !ok || !core.IsNamed(a.Type(), pkgEval, "Port") {
				return
			}
			fs := fieldStores(a)
			ex, ok := resolveVal(fs["File"]).(*ssa.Extract)
			if !ok || ex.Index != 0 {
				return
			}
			pc, ok := ex.Tuple.(*ssa.Call)
			if !ok || pc.Call.StaticCallee() == nil || pc.Call.StaticCallee().String() != "os.Pipe" {
				return
			}
			if _, hasChan := fs["Chan"]; !hasChan {
				return
			}
			npipe++
			construct := core.FnKey(fn) + " reading end of a pipe does not support value output"
			stop := fs["sendStop"]
			okStop := false
			if stop != nil {
				if addr, isLd := core.IsLoad(stripConvert(stop)); isLd {
					if g, isG := addr.(*ssa.Global); isG && closedStops[g] {
						okStop = true
					}
				}
			}
			if okStop && fs["sendError"] != nil && !isNilConst(fs["sendError"]) {
				r.OK(rule, construct, p.InsPos(ins), "sendStop is the channel closed at initialisation and sendError is set")
			} else {
				r.Bad(rule, construct, p.InsPos(ins), "the port for the reading end of a pipe accepts value output: the writing stage closes the shared channel when it finishes, so a stage that sends to its own input (`... | put x >&0`) panics with 'send on closed channel'")
			}
		})
	}
	r.Count(rule+" pipe reading-end port literals", npipe)
}

// closedAtInit: package-level channels of pkg/eval closed by an init function.
func closedAtInit(p *core.Program) map[*ssa.Global]bool {
	out := map[*ssa.Global]bool{}
	pkg := p.Pkg(pkgEval)
	if pkg == nil {
		return out
	}
	for name, m := range pkg.Members {
		f, ok := m.(*ssa.Function)
		if !ok || !(name == "init" || len(name) > 5 && name[:5] == "init#") {
			continue
		}
		core.Instrs(f, func(ins ssa.Instruction) {
			c, ok := ins.(*ssa.Call)
			if !ok {
				return
			}
			if b, ok := c.Call.Value.(*ssa.Builtin); ok && b.Name() == "close" {
				if addr, ok := core.IsLoad(c.Call.Args[0]); ok {
					if g, ok := addr.(*ssa.Global); ok {
						out[g] = true
					}
				}
			}
		})
	}
	return out
}

// recoversHere: a run-time panic raised in fn is caught: fn defers a recover,
// or fn is an unexported helper every call site of which is in a function
// that does.
func recoversHere(p *core.Program, fn *ssa.Function, depth int) bool {
	fn = core.Outer(fn)
	if recoversPanic(fn) {
		return true
	}
	if depth > 2 {
		return false
	}
	if obj := fn.Object(); obj == nil || obj.Exported() {
		return false
	}
	n := 0
	all := true
	for _, g := range p.FnsInPkg(core.PkgPathOf(fn)) {
		if g.Synthetic != "" {
			continue
		}
		core.Instrs(g, func(ins ssa.Instruction) {
			c, ok := ins.(ssa.CallInstruction)
			if !ok || c.Common().StaticCallee() != fn {
				return
			}
			n++
			if _, isGo := ins.(*ssa.Go); isGo || !recoversHere(p, g, depth+1) {
				all = false
			}
		})
	}
	return n > 0 && all
}

// stopCheckedFirst: sel is dominated by the default edge of a non-blocking
// select that receives from the port's sendStop.
func stopCheckedFirst(fn *ssa.Function, sel *ssa.Select) bool {
	for _, b := range fn.Blocks {
		for _, ins := range b.Instrs {
			nb, ok := ins.(*ssa.Select)
			if !ok || nb.Blocking || len(nb.States) != 1 || nb.States[0].Dir != types.RecvOnly {
				continue
			}
			if f := portField(nb.States[0].Chan); len(f) < 9 || f[len(f)-9:] != ".sendStop" {
				continue
			}
			// the If on (extract #0 == 0): its false edge is the default branch
			for _, ref := range *nb.Referrers() {
				ex, ok := ref.(*ssa.Extract)
				if !ok || ex.Index != 0 {
					continue
				}
				for _, r2 := range *ex.Referrers() {
					cmp, ok := r2.(*ssa.BinOp)
					if !ok || cmp.Op != token.EQL || !core.IsConstInt(cmp.Y, 0) {
						continue
					}
					for _, r3 := range *cmp.Referrers() {
						iff, ok := r3.(*ssa.If)
						if !ok {
							continue
						}
						if core.EdgeTo(iff.Block(), sel.Block()) == 1 {
							return true
						}
					}
				}
			}
		}
	}
	return false
}

// comparedUnequal: ins is dominated by the edge on which ch != *g.
func comparedUnequal(ch ssa.Value, g *ssa.Global, ins ssa.Instruction) bool {
	key := exprKey(ch)
	isG := func(v ssa.Value) bool {
		v = stripConvert(v)
		addr, ok := core.IsLoad(v)
		return ok && addr == ssa.Value(g)
	}
	for _, b := range ins.Parent().Blocks {
		if len(b.Instrs) == 0 {
			continue
		}
		iff, ok := b.Instrs[len(b.Instrs)-1].(*ssa.If)
		if !ok {
			continue
		}
		cmp, ok := iff.Cond.(*ssa.BinOp)
		if !ok || (cmp.Op != token.EQL && cmp.Op != token.NEQ) {
			continue
		}
		var other ssa.Value
		switch {
		case isG(cmp.Y):
			other = cmp.X
		case isG(cmp.X):
			other = cmp.Y
		default:
			continue
		}
		other = stripConvert(other)
		if other != ch && exprKey(other) != key {
			continue
		}
		e := core.EdgeTo(b, ins.Block())
		if (cmp.Op == token.NEQ && e == 0) || (cmp.Op == token.EQL && e == 1) {
			return true
		}
	}
	return false
}
