package rules

import (
	"go/token"
	"go/types"
	"sort"

	"golang.org/x/tools/go/ssa"

	"verif/sa/internal/core"
)

// closedPlaceholders: package-level channel variables of pkg/eval that are
// initialised from a function which closes the channel it returns (the
// "closed channel" placeholder of input-only ports).
func closedPlaceholders(p *core.Program) []*ssa.Global {
	pkg := p.Pkg(pkgEval)
	if pkg == nil {
		return nil
	}
	closes := func(f *ssa.Function) bool {
		if f == nil || f.Blocks == nil {
			return false
		}
		var made, closed, returned ssa.Value
		core.Instrs(f, func(ins ssa.Instruction) {
			switch x := ins.(type) {
			case *ssa.MakeChan:
				made = x
			case *ssa.Call:
				if b, ok := x.Call.Value.(*ssa.Builtin); ok && b.Name() == "close" {
					closed = x.Call.Args[0]
				}
			case *ssa.Return:
				if len(x.Results) == 1 {
					returned = x.Results[0]
				}
			}
		})
		return made != nil && closed == made && returned == made
	}
	var out []*ssa.Global
	if initFn := pkg.Func("init"); initFn != nil {
		core.Instrs(initFn, func(ins ssa.Instruction) {
			st, ok := ins.(*ssa.Store)
			if !ok {
				return
			}
			g, ok := st.Addr.(*ssa.Global)
			if !ok {
				return
			}
			if c, ok := st.Val.(*ssa.Call); ok && closes(c.Call.StaticCallee()) {
				out = append(out, g)
			}
		})
	}
	sort.Slice(out, func(i, j int) bool { return out[i].Name() < out[j].Name() })
	return out
}

// runPortTotal (C42 PORT-TOTAL): value I/O on any port a redirection can
// install is total.
//   - every eval.Port literal built in pkg/eval gives Chan a non-nil value:
//     a nil channel blocks a reader of the port forever (`each ... <&-`);
//   - every send on a port's value channel is dominated by the "is not the
//     closed placeholder" edge of a comparison with each closed placeholder
//     channel: `put x >&0` makes an input port (whose Chan is the closed
//     placeholder) serve as output, and a send on a closed channel panics.
func runPortTotal(p *core.Program, r *core.Report) {
	const rule = "PORT-TOTAL"
	portT := p.NamedType(pkgEval, "Port")
	if !r.Anchor(rule, "eval.Port", portT != nil) {
		return
	}
	placeholders := closedPlaceholders(p)
	r.Count(rule+" closed placeholder channels", len(placeholders))
	if !r.Anchor(rule, "a closed placeholder channel variable in pkg/eval", len(placeholders) > 0) {
		return
	}
	var chanT types.Type
	if st, ok := portT.Underlying().(*types.Struct); ok {
		for i := 0; i < st.NumFields(); i++ {
			if st.Field(i).Name() == "Chan" {
				chanT = st.Field(i).Type()
			}
		}
	}
	// (a) literals
	nlit := 0
	for _, fn := range p.FnsInPkg(pkgEval) {
		core.Instrs(fn, func(ins ssa.Instruction) {
			a, ok := ins.(*ssa.Alloc)
			if !ok || !core.IsNamed(a.Type(), pkgEval, "Port") {
				return
			}
			fs := fieldStores(a)
			if len(fs) == 0 {
				return // not a literal (a variable of type Port)
			}
			nlit++
			construct := core.FnKey(fn) + " Port literal #" + itoa(nlit) + " value channel"
			v, has := fs["Chan"]
			switch {
			case !has || isNilConst(v):
				r.Bad(rule, construct, p.InsPos(ins), "a port is built without a value channel: whoever reads values from it (each, count, all, ... after `<&-` or `0> file`) blocks forever on the nil channel; use the closed placeholder so that reading yields no values")
			default:
				r.OK(rule, construct, p.InsPos(ins), "Chan = "+addrDesc(v))
			}
		})
	}
	r.Count(rule+" Port literals in pkg/eval", nlit)
	// (b) sends
	nsend := 0
	for _, fn := range p.FnsInPkg(pkgEval) {
		core.Instrs(fn, func(ins ssa.Instruction) {
			var chans []ssa.Value
			switch x := ins.(type) {
			case *ssa.Send:
				chans = append(chans, x.Chan)
			case *ssa.Select:
				for _, st := range x.States {
					if st.Dir == types.SendOnly {
						chans = append(chans, st.Chan)
					}
				}
			}
			for _, ch := range chans {
				if !isValueChanField(chanOrigin(ch, map[ssa.Value]bool{})) {
					continue
				}
				nsend++
				for _, g := range placeholders {
					if chanT != nil && !types.Identical(g.Type().(*types.Pointer).Elem(), chanT) {
						continue
					}
					construct := core.FnKey(fn) + " send on " + addrDesc(ch) + " excludes " + g.Name()
					if comparedUnequal(ch, g, ins) {
						r.OK(rule, construct, p.InsPos(ins), "dominated by the not-equal edge of a comparison of the channel with "+g.Name())
					} else {
						r.Bad(rule, construct, p.InsPos(ins), "a value is sent on a port's channel that may be the closed placeholder "+g.Name()+" (an input-only port made the output by `>&0`, or a closed port): sending on a closed channel panics and kills the interpreter")
					}
				}
			}
		})
	}
	r.Count(rule+" sends on port value channels", nsend)
	r.Anchor(rule, "a send on a port value channel exists", nsend > 0)
}

// comparedUnequal: ins is dominated by the edge on which ch != *g.
func comparedUnequal(ch ssa.Value, g *ssa.Global, ins ssa.Instruction) bool {
	key := exprKey(ch)
	isG := func(v ssa.Value) bool {
		v = stripConvert(v)
		addr, ok := core.IsLoad(v)
		return ok && addr == ssa.Value(g)
	}
	for _, b := range ins.Parent().Blocks {
		if len(b.Instrs) == 0 {
			continue
		}
		iff, ok := b.Instrs[len(b.Instrs)-1].(*ssa.If)
		if !ok {
			continue
		}
		cmp, ok := iff.Cond.(*ssa.BinOp)
		if !ok || (cmp.Op != token.EQL && cmp.Op != token.NEQ) {
			continue
		}
		var other ssa.Value
		switch {
		case isG(cmp.Y):
			other = cmp.X
		case isG(cmp.X):
			other = cmp.Y
		default:
			continue
		}
		other = stripConvert(other)
		if other != ch && exprKey(other) != key {
			continue
		}
		e := core.EdgeTo(b, ins.Block())
		if (cmp.Op == token.NEQ && e == 0) || (cmp.Op == token.EQL && e == 1) {
			return true
		}
	}
	return false
}
