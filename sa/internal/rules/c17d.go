package rules

import (
	"go/token"
	"go/types"
	"sort"
	"strings"

	"golang.org/x/tools/go/ssa"

	"verif/sa/internal/core"
)

// nilArgAudit: parameters that cannot be nil, or whose nil value is harmless,
// for a reason the rule does not see. Key: construct.
var nilArgAudit = map[string]string{}

// runNilArg (C17 NIL-ARG): vals.ScanToGo stores $nil into any destination
// whose zero value is spelt nil, so every parameter of a registered command
// with a pointer, non-empty interface, map or func type can arrive as nil
// (`each $nil [a]`). Every use that needs the value - a method call on the
// interface, a field access or dereference of the pointer, a call of the func,
// a write to the map, a call of a repository function that does one of these
// with the corresponding parameter - is dominated by the non-nil edge of a
// comparison with nil. Builtins are called through reflection with no recover,
// so a nil dereference in one ends the process.
func runNilArg(p *core.Program, r *core.Report, entries map[*ssa.Function]string) {
	const rule = "NIL-ARG"
	na := &nilArg{p: p, memo: map[nilKey]*nilSink{}, busy: map[nilKey]bool{}}
	var fns []*ssa.Function
	for f := range entries {
		if f.Blocks != nil && !core.IsTestPkgPath(core.PkgPathOf(f)) {
			fns = append(fns, f)
		}
	}
	sort.Slice(fns, func(i, j int) bool {
		if entries[fns[i]] != entries[fns[j]] {
			return entries[fns[i]] < entries[fns[j]]
		}
		return fns[i].String() < fns[j].String()
	})
	n := 0
	seen := map[string]bool{}
	for _, fn := range fns {
		for i, prm := range fn.Params {
			t := prm.Type()
			variadic := fn.Signature.Variadic() && i == len(fn.Params)-1
			if variadic {
				t = t.Underlying().(*types.Slice).Elem()
			}
			if !nilable(t) || isFrameOrOptions(prm.Type()) {
				continue
			}
			n++
			construct := "command " + entries[fn] + " (" + core.FnKey(fn) + ") parameter " + prm.Name()
			if seen[construct] {
				continue
			}
			seen[construct] = true
			var s *nilSink
			if variadic {
				s = na.elems(fn, prm)
			} else {
				s = na.param(fn, i, 0)
			}
			pos := p.Pos(fn.Pos())
			switch {
			case s == nil:
				r.OK(rule, construct, pos, "every use that needs the value is behind a nil check (or there is none)")
			case nilArgAudit[construct] != "":
				r.Audit(rule, construct, p.InsPos(s.ins), nilArgAudit[construct])
			default:
				r.Bad(rule, construct, p.InsPos(s.ins), "$nil is accepted for this parameter ("+types.TypeString(t, shortQual)+") and "+s.what+" with no nil check on the way: the command kills the interpreter with a nil dereference when called with $nil")
			}
		}
	}
	r.Count(rule+" nil-able parameters of registered commands", n)
}

func shortQual(p *types.Package) string { return p.Name() }

func nilable(t types.Type) bool {
	switch u := t.Underlying().(type) {
	case *types.Pointer, *types.Map:
		return true
	case *types.Signature:
		if n, ok := t.(*types.Named); ok && n.Obj().Name() == "Inputs" {
			return false
		}
		return true
	case *types.Interface:
		return !u.Empty()
	}
	return false
}

func isFrameOrOptions(t types.Type) bool {
	if ptr, ok := t.(*types.Pointer); ok {
		if n, ok := ptr.Elem().(*types.Named); ok && n.Obj().Name() == "Frame" && n.Obj().Pkg() != nil && n.Obj().Pkg().Path() == pkgEval {
			return true
		}
	}
	if n, ok := t.(*types.Named); ok && n.Obj().Name() == "RawOptions" {
		return true
	}
	return false
}

type nilKey struct {
	fn  *ssa.Function
	idx int
}

type nilSink struct {
	ins  ssa.Instruction
	what string
}

type nilArg struct {
	p    *core.Program
	memo map[nilKey]*nilSink
	busy map[nilKey]bool
}

// param: the first unguarded use in fn (or below) that needs parameter idx
// (receiver first) to be non-nil.
func (na *nilArg) param(fn *ssa.Function, idx int, depth int) *nilSink {
	k := nilKey{fn, idx}
	if s, ok := na.memo[k]; ok {
		return s
	}
	if na.busy[k] || depth > 4 || fn.Blocks == nil || idx >= len(fn.Params) {
		return nil
	}
	na.busy[k] = true
	s := na.flow(fn, []ssa.Value{fn.Params[idx]}, depth)
	na.busy[k] = false
	na.memo[k] = s
	return s
}

// elems: same for the elements of a variadic parameter.
func (na *nilArg) elems(fn *ssa.Function, prm *ssa.Parameter) *nilSink {
	var seeds []ssa.Value
	for _, ref := range *prm.Referrers() {
		if ia, ok := ref.(*ssa.IndexAddr); ok {
			for _, r2 := range *ia.Referrers() {
				if u, ok := r2.(*ssa.UnOp); ok && u.Op == token.MUL {
					seeds = append(seeds, u)
				}
			}
		}
	}
	// for _, f := range fns compiles to a Range/Next pair only for maps and
	// strings; slices use IndexAddr, handled above
	var s *nilSink
	if len(seeds) > 0 {
		s = na.flow(fn, seeds, 0)
	}
	if s != nil {
		return s
	}
	// the list as a whole leaves the function (stored in a value, passed on)
	// with elements nobody compared with nil
	for _, ref := range *prm.Referrers() {
		switch x := ref.(type) {
		case *ssa.IndexAddr, *ssa.DebugRef:
			continue
		case *ssa.Call:
			if lenArg(x) != nil {
				continue
			}
		}
		if !elemsCheckedBefore(prm, ref) {
			return &nilSink{ref, "the list is stored or passed on with elements that may be nil"}
		}
	}
	return nil
}

// nonNilAt: control reaches at only over the non-nil edge of a comparison of
// v with nil, or v is an element of a slice every element of which was
// compared with nil by an earlier loop that leaves the function on nil.
func nonNilAt(v ssa.Value, at ssa.Instruction) bool {
	if nilGuarded(v, at) {
		return true
	}
	if u, ok := v.(*ssa.UnOp); ok && u.Op == token.MUL {
		if ia, ok := u.X.(*ssa.IndexAddr); ok {
			return elemsCheckedBefore(ia.X, at)
		}
	}
	return false
}

// elemsCheckedBefore: a `for _, e := range s { if e == nil { return ... } }`
// loop over the whole of s has finished before at runs.
func elemsCheckedBefore(s ssa.Value, at ssa.Instruction) bool {
	return elemsComparedBefore(s, at, isNilConst)
}

// elemsComparedBefore: the same for a comparison with any constant that
// isBad recognises (`if e == 0 { return ... }`).
func elemsComparedBefore(s ssa.Value, at ssa.Instruction, isBad func(ssa.Value) bool) bool {
	fn := at.Parent()
	for _, b := range fn.Blocks {
		if len(b.Instrs) == 0 {
			continue
		}
		iff, ok := b.Instrs[len(b.Instrs)-1].(*ssa.If)
		if !ok {
			continue
		}
		cmp, ok := iff.Cond.(*ssa.BinOp)
		if !ok || (cmp.Op != token.EQL && cmp.Op != token.NEQ) {
			continue
		}
		var other ssa.Value
		switch {
		case isBad(cmp.Y):
			other = cmp.X
		case isBad(cmp.X):
			other = cmp.Y
		default:
			continue
		}
		u, ok := other.(*ssa.UnOp)
		if !ok || u.Op != token.MUL {
			continue
		}
		ia, ok := u.X.(*ssa.IndexAddr)
		if !ok || (ia.X != s && exprKey(ia.X) != exprKey(s)) {
			continue
		}
		// the index is the counter of a range loop over the whole slice
		add, ok := ia.Index.(*ssa.BinOp)
		if !ok || add.Op != token.ADD {
			continue
		}
		phi, ok := add.X.(*ssa.Phi)
		if !ok {
			continue
		}
		if one, isC := constInt(add.Y); !isC || one != 1 {
			continue
		}
		fromStart := false
		for _, e := range phi.Edges {
			if c, isC := constInt(e); isC && c == -1 {
				fromStart = true
			}
		}
		if !fromStart {
			continue
		}
		// the nil edge leaves the function
		nilSucc := b.Succs[0]
		if cmp.Op == token.NEQ {
			nilSucc = b.Succs[1]
		}
		if len(nilSucc.Instrs) == 0 {
			continue
		}
		if _, isRet := nilSucc.Instrs[len(nilSucc.Instrs)-1].(*ssa.Return); !isRet {
			continue
		}
		// the loop is over before at: its header dominates at, and at cannot
		// get back into the loop body
		if !phi.Block().Dominates(at.Block()) || blockReaches(at.Block(), b) {
			continue
		}
		return true
	}
	return false
}

func blockReaches(from, to *ssa.BasicBlock) bool {
	seen := map[*ssa.BasicBlock]bool{}
	var walk func(b *ssa.BasicBlock) bool
	walk = func(b *ssa.BasicBlock) bool {
		if b == to {
			return true
		}
		if seen[b] {
			return false
		}
		seen[b] = true
		for _, s := range b.Succs {
			if walk(s) {
				return true
			}
		}
		return false
	}
	return walk(from)
}

// flow follows values that may be nil forward from seeds through phis, local
// cells, closures and calls of repository functions.
func (na *nilArg) flow(fn *ssa.Function, seeds []ssa.Value, depth int) *nilSink {
	maybe := map[ssa.Value]bool{}
	var work []ssa.Value
	add := func(v ssa.Value) {
		if !maybe[v] {
			maybe[v] = true
			work = append(work, v)
		}
	}
	for _, s := range seeds {
		add(s)
	}
	var found *nilSink
	report := func(ins ssa.Instruction, what string) {
		if found == nil || (ins.Pos().IsValid() && found.ins.Pos().IsValid() && ins.Pos() < found.ins.Pos() && ins.Parent() == found.ins.Parent()) {
			found = &nilSink{ins, what}
		}
	}
	cells := map[*ssa.Alloc]bool{}
	for len(work) > 0 {
		v := work[len(work)-1]
		work = work[:len(work)-1]
		refs := v.Referrers()
		if refs == nil {
			continue
		}
		for _, ref := range *refs {
			if nonNilAt(v, ref) {
				continue
			}
			switch x := ref.(type) {
			case *ssa.Phi:
				// edge-sensitive: an edge that is itself the non-nil edge of a
				// test of v does not carry nil
				carries := false
				for i, e := range x.Edges {
					if e != v {
						continue
					}
					pred := x.Block().Preds[i]
					if edgeIsNonNil(v, pred, x.Block()) {
						continue
					}
					carries = true
				}
				if carries {
					add(x)
				}
			case *ssa.ChangeInterface:
				add(x)
			case *ssa.ChangeType:
				add(x)
			case *ssa.Store:
				if x.Val == v {
					if a, ok := x.Addr.(*ssa.Alloc); ok && !cells[a] {
						cells[a] = true
						na.cellLoads(a, add)
					}
				}
				if x.Addr == v {
					report(x, "it is stored through")
				}
			case *ssa.UnOp:
				if x.Op == token.MUL && x.X == v {
					report(x, "it is dereferenced")
				}
			case *ssa.FieldAddr:
				if x.X == v {
					report(x, "its field "+fieldNameOf(x)+" is accessed")
				}
			case *ssa.MapUpdate:
				if x.Map == v {
					report(x, "it is written as a map")
				}
			case *ssa.TypeAssert:
				if x.X == v && !x.CommaOk {
					report(x, "it is type-asserted without the comma-ok form")
				}
			case *ssa.MakeClosure:
				f2 := x.Fn.(*ssa.Function)
				for i, b := range x.Bindings {
					if b == v && i < len(f2.FreeVars) {
						if s := na.flow(f2, []ssa.Value{f2.FreeVars[i]}, depth); s != nil {
							report(s.ins, s.what)
						}
					}
				}
			case ssa.CallInstruction:
				c := x.Common()
				if c.IsInvoke() {
					if c.Value == v {
						report(x, "its method "+c.Method.Name()+" is called")
					}
					continue
				}
				if c.Value == v {
					report(x, "it is called")
					continue
				}
				callee := c.StaticCallee()
				if callee == nil || callee.Blocks == nil || !strings.HasPrefix(core.PkgPathOf(callee), core.ModPath) {
					continue
				}
				if mc, ok := c.Value.(*ssa.MakeClosure); ok {
					_ = mc
				}
				for i, a := range c.Args {
					if a != v {
						continue
					}
					if s := na.param(callee, i, depth+1); s != nil {
						report(x, "it is passed to "+core.FnKey(callee)+", where "+s.what+" ("+na.p.InsPos(s.ins)+")")
					}
				}
			}
		}
	}
	return found
}

// cellLoads: every load of the local cell a, in its function and in the
// closures that capture it.
func (na *nilArg) cellLoads(a *ssa.Alloc, add func(ssa.Value)) {
	var visit func(addr ssa.Value)
	visit = func(addr ssa.Value) {
		refs := addr.Referrers()
		if refs == nil {
			return
		}
		for _, ref := range *refs {
			switch x := ref.(type) {
			case *ssa.UnOp:
				if x.Op == token.MUL && x.X == addr {
					add(x)
				}
			case *ssa.MakeClosure:
				// a closure made after the cell was found to be non-nil
				// (if f == nil { return ... } above it) sees a non-nil value
				guarded := false
				for _, r2 := range *refs {
					if l, ok := r2.(*ssa.UnOp); ok && l.Op == token.MUL && l.X == addr && l.Parent() == x.Parent() && nilGuarded(l, x) {
						guarded = true
					}
				}
				if guarded {
					continue
				}
				f2 := x.Fn.(*ssa.Function)
				for i, b := range x.Bindings {
					if b == addr && i < len(f2.FreeVars) {
						visit(f2.FreeVars[i])
					}
				}
			}
		}
	}
	visit(a)
}

// edgeIsNonNil: pred ends with a test of v against nil and succ is its
// non-nil successor.
func edgeIsNonNil(v ssa.Value, pred, succ *ssa.BasicBlock) bool {
	if len(pred.Instrs) == 0 {
		return false
	}
	iff, ok := pred.Instrs[len(pred.Instrs)-1].(*ssa.If)
	if !ok {
		return false
	}
	cmp, ok := iff.Cond.(*ssa.BinOp)
	if !ok || (cmp.Op != token.EQL && cmp.Op != token.NEQ) {
		return false
	}
	var other ssa.Value
	switch {
	case isNilConst(cmp.Y):
		other = cmp.X
	case isNilConst(cmp.X):
		other = cmp.Y
	default:
		return false
	}
	if other != v && exprKey(other) != exprKey(v) {
		return false
	}
	if pred.Succs[0] == pred.Succs[1] {
		return false
	}
	if cmp.Op == token.NEQ {
		return pred.Succs[0] == succ
	}
	return pred.Succs[1] == succ
}

func fieldNameOf(fa *ssa.FieldAddr) string {
	_, f := core.FieldName(fa)
	return f
}

// ptrVarRefusesNil: (vars.PtrVar).Set compares the new value with nil and, on
// the nil edge, reaches the conversion (vals.ScanToGo) only through a further
// test; some path from the nil edge returns without converting. A variable
// backed by a typed Go value therefore never holds a nil list, map, function
// or namespace, which is what the readers of such variables rely on
// (x.Get().(vals.List) and the like).
func ptrVarRefusesNil(p *core.Program) (bool, string) {
	var set *ssa.Function
	for _, fn := range p.FnsInPkg(pkgEval + "/vars") {
		if fn.Name() == "Set" && fn.Signature.Recv() != nil && core.RecvName(fn.Signature.Recv().Type()) == "PtrVar" {
			set = fn
		}
	}
	if set == nil || set.Blocks == nil || len(set.Params) < 2 {
		return false, "vars.PtrVar.Set not found"
	}
	val := set.Params[1]
	var scans []*ssa.BasicBlock
	core.Instrs(set, func(ins ssa.Instruction) {
		if c, ok := ins.(ssa.CallInstruction); ok {
			if callee := c.Common().StaticCallee(); callee != nil && core.PkgPathOf(callee) == pkgVals && strings.HasPrefix(callee.Name(), "ScanToGo") {
				scans = append(scans, ins.Block())
			}
		}
	})
	if len(scans) == 0 {
		return false, "PtrVar.Set no longer converts with vals.ScanToGo"
	}
	for _, b := range set.Blocks {
		if len(b.Instrs) == 0 {
			continue
		}
		iff, ok := b.Instrs[len(b.Instrs)-1].(*ssa.If)
		if !ok {
			continue
		}
		cmp, ok := iff.Cond.(*ssa.BinOp)
		if !ok || (cmp.Op != token.EQL && cmp.Op != token.NEQ) {
			continue
		}
		if !((cmp.X == ssa.Value(val) && isNilConst(cmp.Y)) || (cmp.Y == ssa.Value(val) && isNilConst(cmp.X))) {
			continue
		}
		nilSucc := b.Succs[0]
		if cmp.Op == token.NEQ {
			nilSucc = b.Succs[1]
		}
		// every scan block must dominate-wise be behind another branch: the
		// nil successor itself must not contain the conversion, and some
		// return must be reachable from it without passing a conversion
		direct := false
		for _, sb := range scans {
			if sb == nilSucc {
				direct = true
			}
		}
		if direct {
			continue
		}
		seen := map[*ssa.BasicBlock]bool{}
		var escapes func(x *ssa.BasicBlock) bool
		escapes = func(x *ssa.BasicBlock) bool {
			if seen[x] {
				return false
			}
			seen[x] = true
			for _, sb := range scans {
				if sb == x {
					return false
				}
			}
			if len(x.Instrs) > 0 {
				if _, isRet := x.Instrs[len(x.Instrs)-1].(*ssa.Return); isRet {
					return true
				}
			}
			for _, s := range x.Succs {
				if escapes(s) {
					return true
				}
			}
			return false
		}
		if escapes(nilSucc) {
			return true, "vars.PtrVar.Set refuses $nil unless the variable can hold any value (" + p.InsPos(iff) + ")"
		}
	}
	return false, "vars.PtrVar.Set hands $nil to vals.ScanToGo, which stores a nil list, map, function or namespace in a typed variable"
}
