package rules

import (
	"go/constant"
	"go/token"
	"go/types"
	"math"
	"sort"
	"strings"

	"golang.org/x/tools/go/ssa"

	"verif/sa/internal/core"
)

// Guard facts about an integer-like SSA value at a program point.
//
//	ge0, gt0, ne0     sign facts
//	ltlen:<expr>      strictly below len(<expr>)
//	lelen:<expr>      at most len(<expr>)
//	ub                bounded above by something that is not derived from the value
//	lo>=N, hi<=N      constant bounds
//	mulguard          a comparison against X / v dominates (overflow guard for a product with v)
type factSet map[string]bool

func (f factSet) add(s ...string) {
	for _, x := range s {
		f[x] = true
	}
}

func (f factSet) clone() factSet {
	g := factSet{}
	for k := range f {
		g[k] = true
	}
	return g
}

func (f factSet) String() string {
	var ks []string
	for k := range f {
		ks = append(ks, k)
	}
	sort.Strings(ks)
	return strings.Join(ks, ",")
}

func meet(a, b factSet) factSet {
	out := factSet{}
	for k := range a {
		if b[k] {
			out[k] = true
		}
	}
	// constant bounds: keep the weaker one
	lo := func(f factSet) (int64, bool) {
		best, ok := int64(math.MinInt64), false
		for k := range f {
			if strings.HasPrefix(k, "lo>=") {
				if n, err := parseInt(k[4:]); err == nil && (!ok || n > best) {
					best, ok = n, true
				}
			}
		}
		return best, ok
	}
	hi := func(f factSet) (int64, bool) {
		best, ok := int64(math.MaxInt64), false
		for k := range f {
			if strings.HasPrefix(k, "hi<=") {
				if n, err := parseInt(k[4:]); err == nil && (!ok || n < best) {
					best, ok = n, true
				}
			}
		}
		return best, ok
	}
	if la, ok1 := lo(a); ok1 {
		if lb, ok2 := lo(b); ok2 {
			m := la
			if lb < m {
				m = lb
			}
			out["lo>="+fmtInt(m)] = true
		}
	}
	if ha, ok1 := hi(a); ok1 {
		if hb, ok2 := hi(b); ok2 {
			m := ha
			if hb > m {
				m = hb
			}
			out["hi<="+fmtInt(m)] = true
		}
	}
	return out
}

func parseInt(s string) (int64, error) {
	var n int64
	neg := false
	if strings.HasPrefix(s, "-") {
		neg, s = true, s[1:]
	}
	if s == "" {
		return 0, errBadInt
	}
	for _, c := range s {
		if c < '0' || c > '9' {
			return 0, errBadInt
		}
		n = n*10 + int64(c-'0')
	}
	if neg {
		n = -n
	}
	return n, nil
}

type strErr string

func (e strErr) Error() string { return string(e) }

const errBadInt = strErr("bad int")

func fmtInt(n int64) string {
	if n == 0 {
		return "0"
	}
	neg := n < 0
	if neg {
		n = -n
	}
	var b []byte
	for n > 0 {
		b = append([]byte{byte('0' + n%10)}, b...)
		n /= 10
	}
	if neg {
		b = append([]byte{'-'}, b...)
	}
	return string(b)
}

// normalise derives implied facts.
func (f factSet) normalise() factSet {
	for k := range f {
		if strings.HasPrefix(k, "lo>=") {
			if n, err := parseInt(k[4:]); err == nil {
				if n >= 0 {
					f["ge0"] = true
				}
				if n >= 1 {
					f["gt0"] = true
				}
			}
		}
		if strings.HasPrefix(k, "hi<=") {
			f["ub"] = true
			if n, err := parseInt(k[4:]); err == nil && n < 0 {
				f["ne0"] = true
			}
		}
		if strings.HasPrefix(k, "ltlen:") || strings.HasPrefix(k, "lelen:") {
			f["ub"] = true
		}
	}
	if f["gt0"] {
		f["ge0"], f["ne0"] = true, true
	}
	return f
}

// exprKey renders an expression structurally so that two evaluations of the
// same source expression (go/ssa has no CSE) compare equal.
func exprKey(v ssa.Value) string {
	switch x := v.(type) {
	case *ssa.UnOp:
		if x.Op == token.MUL {
			return "*" + exprKey(x.X)
		}
		return x.Op.String() + exprKey(x.X)
	case *ssa.FieldAddr:
		_, f := core.FieldName(x)
		return exprKey(x.X) + "." + f
	case *ssa.Field:
		_, f := core.FieldOfValue(x)
		return exprKey(x.X) + "." + f
	case *ssa.Parameter:
		return "param:" + x.Name()
	case *ssa.FreeVar:
		return "free:" + x.Name()
	case *ssa.Global:
		return "global:" + x.Name()
	case *ssa.Const:
		return "const:" + x.String()
	case *ssa.Slice:
		if x.Low == nil && x.High == nil {
			return exprKey(x.X)
		}
	case *ssa.ChangeType:
		return exprKey(x.X)
	case *ssa.Convert:
		return exprKey(x.X)
	case *ssa.Alloc:
		return "alloc:" + x.Name()
	case *ssa.Call:
		if b, ok := x.Call.Value.(*ssa.Builtin); ok && (b.Name() == "len" || b.Name() == "cap") {
			return b.Name() + "(" + exprKey(x.Call.Args[0]) + ")"
		}
	}
	return "v:" + v.Name()
}

// lenArg returns the argument of a len/cap call, or nil.
func lenArg(v ssa.Value) ssa.Value {
	if c, ok := v.(*ssa.Call); ok {
		if b, ok := c.Call.Value.(*ssa.Builtin); ok && (b.Name() == "len") {
			return c.Call.Args[0]
		}
	}
	return nil
}

func constInt(v ssa.Value) (int64, bool) {
	c, ok := v.(*ssa.Const)
	if !ok || c.Value == nil || c.Value.Kind() != constant.Int {
		return 0, false
	}
	if n, exact := constant.Int64Val(c.Value); exact {
		return n, true
	}
	return 0, false
}

// aliases returns v together with the values it is a plain conversion or
// type assertion of (same number, different static type).
func aliases(v ssa.Value) []ssa.Value {
	out := []ssa.Value{v}
	// go/ssa has no CSE: `i+1 < len(s) && s[i+1] == c` computes i+1 twice.
	// Another pure arithmetic instruction with the same operator and the
	// same operand values denotes the same number.
	if bo, ok := v.(*ssa.BinOp); ok && isIntType(bo.Type()) {
		if refs := bo.X.Referrers(); refs != nil {
			for _, ref := range *refs {
				tw, ok := ref.(*ssa.BinOp)
				if !ok || tw == bo || tw.Op != bo.Op || tw.X != bo.X || tw.Parent() != bo.Parent() {
					continue
				}
				same := tw.Y == bo.Y
				if !same {
					c1, ok1 := constInt(tw.Y)
					c2, ok2 := constInt(bo.Y)
					same = ok1 && ok2 && c1 == c2
				}
				if same {
					out = append(out, tw)
				}
			}
		}
	}
	cur := v
	for i := 0; i < 6; i++ {
		switch x := cur.(type) {
		case *ssa.Convert:
			if isIntType(x.X.Type()) && isIntType(x.Type()) && intWidth(x.Type()) >= intWidth(x.X.Type()) {
				cur = x.X
			} else {
				return out
			}
		case *ssa.ChangeType:
			cur = x.X
		case *ssa.TypeAssert:
			cur = x.X
		case *ssa.Extract:
			if ta, ok := x.Tuple.(*ssa.TypeAssert); ok && x.Index == 0 {
				cur = ta.X
			} else {
				return out
			}
		case *ssa.MakeInterface:
			cur = x.X
		default:
			return out
		}
		out = append(out, cur)
	}
	return out
}

func isIntType(t types.Type) bool {
	b, ok := t.Underlying().(*types.Basic)
	return ok && b.Info()&types.IsInteger != 0
}

func isUnsigned(t types.Type) bool {
	b, ok := t.Underlying().(*types.Basic)
	return ok && b.Info()&types.IsUnsigned != 0
}

func intWidth(t types.Type) int {
	b, ok := t.Underlying().(*types.Basic)
	if !ok {
		return 0
	}
	switch b.Kind() {
	case types.Int8, types.Uint8:
		return 8
	case types.Int16, types.Uint16:
		return 16
	case types.Int32, types.Uint32:
		return 32
	default:
		return 64
	}
}

// factEngine computes facts, with interprocedural parameter facts.
type factEngine struct {
	p       *core.Program
	callers map[*ssa.Function][]ssa.CallInstruction // static call sites per callee
	entries map[*ssa.Function]string                // registered builtins: no caller facts
	escaped map[*ssa.Function]bool                  // address taken: unknown callers
	memo    map[*ssa.Parameter]factSet
	inprog  map[*ssa.Parameter]bool
}

func newFactEngine(p *core.Program, entries map[*ssa.Function]string) *factEngine {
	e := &factEngine{p: p, callers: map[*ssa.Function][]ssa.CallInstruction{}, entries: entries, escaped: map[*ssa.Function]bool{}, memo: map[*ssa.Parameter]factSet{}, inprog: map[*ssa.Parameter]bool{}}
	for _, fn := range p.RepoFns {
		core.Instrs(fn, func(ins ssa.Instruction) {
			if c, ok := ins.(ssa.CallInstruction); ok {
				if callee := core.Callee(c); callee != nil {
					e.callers[callee] = append(e.callers[callee], c)
				}
			}
			// function values used other than as the callee escape
			for _, op := range ins.Operands(nil) {
				if *op == nil {
					continue
				}
				f, ok := (*op).(*ssa.Function)
				if !ok {
					if mc, ok2 := (*op).(*ssa.MakeClosure); ok2 {
						f, ok = mc.Fn.(*ssa.Function), true
						// a closure called in place is not escaped
						if c, isCall := ins.(ssa.CallInstruction); isCall && c.Common().Value == *op {
							continue
						}
					}
				}
				if !ok || f == nil {
					continue
				}
				if c, isCall := ins.(ssa.CallInstruction); isCall && c.Common().Value == *op {
					continue
				}
				e.escaped[f] = true
			}
		})
	}
	return e
}

// at computes the facts known about v when control reaches ins.
func (e *factEngine) at(v ssa.Value, ins ssa.Instruction, depth int) factSet {
	f := e.intrinsic(v, depth)
	blk := ins.Block()
	fn := ins.Parent()
	als := aliases(v)
	for _, b := range fn.Blocks {
		if len(b.Instrs) == 0 {
			continue
		}
		iff, ok := b.Instrs[len(b.Instrs)-1].(*ssa.If)
		if !ok {
			continue
		}
		edge := core.EdgeTo(b, blk)
		if edge < 0 {
			// the If's own block: an instruction placed after... not applicable
			continue
		}
		for _, a := range als {
			e.fromCond(iff.Cond, edge == 0, a, f)
		}
		// short-circuit conditions evaluated as values: phi [P1: true, P2: true, P3: c] #||
		// On the false edge control came through the only predecessor whose
		// incoming value can be false; the facts holding there hold here.
		if phi, ok := iff.Cond.(*ssa.Phi); ok && depth < 6 {
			truth := edge == 0
			var cand []int
			for i, ev := range phi.Edges {
				if c, isC := ev.(*ssa.Const); isC && c.Value != nil {
					if constBool(c) != truth {
						continue
					}
				}
				cand = append(cand, i)
			}
			if !truth && len(phi.Edges) == 2 {
				e.mulGuardIdiom(phi, als, f)
			}
			if len(cand) == 1 {
				pred := phi.Block().Preds[cand[0]]
				if len(pred.Instrs) > 0 {
					for k := range e.at(v, pred.Instrs[len(pred.Instrs)-1], depth+1) {
						f[k] = true
					}
					// the edge pred -> phi block may itself be conditional
					if piff, ok := pred.Instrs[len(pred.Instrs)-1].(*ssa.If); ok && len(pred.Succs) == 2 && pred.Succs[0] != pred.Succs[1] {
						for _, a := range als {
							e.fromCond(piff.Cond, pred.Succs[0] == phi.Block(), a, f)
						}
					}
				}
				for _, a := range als {
					e.fromCond(phi.Edges[cand[0]], truth, a, f)
				}
			}
		}
	}
	// `if d > 0 && v > Q/d { return }`: the false edges of both tests join
	for _, m := range fn.Blocks {
		if m.Dominates(blk) {
			if a, b, ok := threadedAndFalse(m); ok {
				e.mulGuardPair(a, b, als, f)
			}
		}
	}
	return f.normalise()
}

// mulGuardIdiom recognises `d > 0 && v > Q / d` (false edge): either the
// other factor d is not positive, or v is bounded by a quotient by d, so the
// product v*d cannot overflow.
func (e *factEngine) mulGuardIdiom(phi *ssa.Phi, als []ssa.Value, f factSet) {
	for i, ev := range phi.Edges {
		other := phi.Edges[1-i]
		if c, isC := other.(*ssa.Const); !isC || constBool(c) {
			continue
		}
		pred := phi.Block().Preds[1-i]
		if len(pred.Instrs) == 0 {
			continue
		}
		iff, ok := pred.Instrs[len(pred.Instrs)-1].(*ssa.If)
		if !ok {
			continue
		}
		e.mulGuardPair(iff.Cond, ev, als, f)
	}
}

// mulGuardPair: first = `d > 0`, second = `v > Q / d`.
func (e *factEngine) mulGuardPair(first, second ssa.Value, als []ssa.Value, f factSet) {
	cmp, ok := second.(*ssa.BinOp)
	if !ok || (cmp.Op != token.GTR && cmp.Op != token.GEQ) {
		return
	}
	q, ok := cmp.Y.(*ssa.BinOp)
	if !ok || q.Op != token.QUO {
		return
	}
	isV := false
	for _, a := range als {
		if cmp.X == a {
			isV = true
		}
	}
	if !isV {
		return
	}
	fst, ok := first.(*ssa.BinOp)
	if !ok {
		return
	}
	if n, isC := constInt(fst.Y); isC && exprKey(fst.X) == exprKey(q.Y) {
		if (fst.Op == token.GTR && n == 0) || (fst.Op == token.NEQ && n == 0 && e.intrinsic(fst.X, 3)["ge0"]) || (fst.Op == token.GEQ && n == 1) {
			f.add("mulguard")
		}
	}
}

// threadedAndFalse: `if a && b { ... }` is compiled to two If blocks whose
// false edges join; returns (a, b) for a join block M.
func threadedAndFalse(m *ssa.BasicBlock) (ssa.Value, ssa.Value, bool) {
	if len(m.Preds) != 2 {
		return nil, nil, false
	}
	for i := 0; i < 2; i++ {
		p1, p2 := m.Preds[i], m.Preds[1-i]
		if len(p1.Instrs) == 0 || len(p2.Instrs) == 0 {
			continue
		}
		if1, ok1 := p1.Instrs[len(p1.Instrs)-1].(*ssa.If)
		if2, ok2 := p2.Instrs[len(p2.Instrs)-1].(*ssa.If)
		if !ok1 || !ok2 {
			continue
		}
		if p1.Succs[0] == p2 && p1.Succs[1] == m && p2.Succs[1] == m && len(p2.Preds) == 1 {
			return if1.Cond, if2.Cond, true
		}
	}
	return nil, nil, false
}

func constBool(c *ssa.Const) bool {
	return c.Value != nil && c.Value.Kind() == constant.Bool && constant.BoolVal(c.Value)
}

// fromCond adds the facts that cond (taken on the given edge) implies for v.
func (e *factEngine) fromCond(cond ssa.Value, truth bool, v ssa.Value, f factSet) {
	if u, ok := cond.(*ssa.UnOp); ok && u.Op == token.NOT {
		e.fromCond(u.X, !truth, v, f)
		return
	}
	// string predicates: strings.HasPrefix(v, "-"), strings.Contains(v, "=")
	if call, ok := cond.(*ssa.Call); ok {
		e.predicateFacts(call, truth, v, f)
		if callee := call.Call.StaticCallee(); callee != nil && core.PkgPathOf(callee) == "strings" && len(call.Call.Args) == 2 && call.Call.Args[0] == v && !truth {
			if c, isC := call.Call.Args[1].(*ssa.Const); isC && c.Value != nil && c.Value.Kind() == constant.String {
				switch callee.Name() {
				case "HasPrefix":
					f.add("noprefix:" + constant.StringVal(c.Value))
				case "Contains":
					f.add("nocontain:" + constant.StringVal(c.Value))
				}
			}
		}
		return
	}
	cmp, ok := cond.(*ssa.BinOp)
	if !ok {
		return
	}
	op := cmp.Op
	x, y := cmp.X, cmp.Y
	// fs.Lookup(v) == nil : no flag of that name is defined yet
	if call, ok := x.(*ssa.Call); ok {
		if callee := call.Call.StaticCallee(); callee != nil && callee.String() == "(*flag.FlagSet).Lookup" && len(call.Call.Args) == 2 && call.Call.Args[1] == v {
			if c, isC := y.(*ssa.Const); isC && c.IsNil() && ((op == token.EQL && truth) || (op == token.NEQ && !truth)) {
				f.add("flag-unique")
			}
			return
		}
	}
	same := func(a ssa.Value) bool {
		if a == v {
			return true
		}
		// a second load of the same variable / field
		if _, isLoad := core.IsLoad(a); isLoad {
			if _, isLoad2 := core.IsLoad(v); isLoad2 && exprKey(a) == exprKey(v) {
				return true
			}
		}
		return false
	}
	// big numbers: x.Sign() <op> 0, x.Cmp(y) ...
	if call, ok := x.(*ssa.Call); ok {
		if callee := call.Call.StaticCallee(); callee != nil && core.PkgPathOf(callee) == "math/big" && callee.Name() == "Sign" && len(call.Call.Args) == 1 {
			if n, isC := constInt(y); isC && n == 0 && (call.Call.Args[0] == v || exprKey(call.Call.Args[0]) == exprKey(v)) {
				switch {
				case op == token.EQL && !truth, op == token.NEQ && truth:
					f.add("ne0")
				case op == token.GTR && truth, op == token.LEQ && !truth:
					f.add("gt0")
				case op == token.GEQ && truth, op == token.LSS && !truth:
					f.add("ge0")
				case op == token.LSS && truth, op == token.GEQ && !truth:
					f.add("ne0")
				}
			}
			return
		}
	}
	// interface number compared with an interface constant: b == 0
	if mi, ok := y.(*ssa.MakeInterface); ok {
		if n, isC := constInt(mi.X); isC && same(x) || isC && isAssertOf(v, x) {
			if n == 0 && ((op == token.EQL && !truth) || (op == token.NEQ && truth)) {
				// v (or the value it was asserted from) is not the int 0
				if isIntType(v.Type()) || isAssertOf(v, x) {
					f.add("ne0")
				}
			}
		}
		return
	}
	// orient so that v is on the left
	if !same(x) {
		if !same(y) {
			// overflow guards: A <op> B / v
			for _, side := range []ssa.Value{x, y} {
				if q, ok := side.(*ssa.BinOp); ok && q.Op == token.QUO && same(q.Y) {
					f.add("mulguard")
				}
			}
			return
		}
		x, y = y, x
		switch op {
		case token.LSS:
			op = token.GTR
		case token.GTR:
			op = token.LSS
		case token.LEQ:
			op = token.GEQ
		case token.GEQ:
			op = token.LEQ
		}
	}
	if !truth {
		switch op {
		case token.LSS:
			op = token.GEQ
		case token.GEQ:
			op = token.LSS
		case token.GTR:
			op = token.LEQ
		case token.LEQ:
			op = token.GTR
		case token.EQL:
			op = token.NEQ
		case token.NEQ:
			op = token.EQL
		}
	}
	// now: v <op> y holds
	if n, isC := constInt(y); isC {
		switch op {
		case token.GEQ:
			f.add("lo>=" + fmtInt(n))
		case token.GTR:
			if n < math.MaxInt64 {
				f.add("lo>=" + fmtInt(n+1))
			}
		case token.LEQ:
			f.add("hi<=" + fmtInt(n))
		case token.LSS:
			f.add("hi<=" + fmtInt(n-1))
		case token.EQL:
			f.add("lo>="+fmtInt(n), "hi<="+fmtInt(n))
		case token.NEQ:
			f.add("ne:" + fmtInt(n))
			if n == 0 {
				f.add("ne0")
			}
		}
		return
	}
	if la := lenArg(y); la != nil {
		switch op {
		case token.LSS:
			f.add("ltlen:" + exprKey(la))
		case token.LEQ:
			f.add("lelen:" + exprKey(la))
		case token.EQL:
			f.add("lelen:"+exprKey(la), "ge0")
		}
		return
	}
	// bounded above by another value
	switch op {
	case token.LSS, token.LEQ:
		f.add("ub")
		// below a value that is itself known non-negative says nothing about the sign
	case token.GTR, token.GEQ:
		// above a non-negative value
		yf := e.intrinsic(y, 2)
		if yf["ge0"] {
			if op == token.GTR {
				f.add("gt0")
			} else {
				f.add("ge0")
			}
		}
	}
}

func isAssertOf(v, iface ssa.Value) bool {
	for _, a := range aliases(v) {
		if a == iface {
			return true
		}
	}
	return false
}

// intrinsic facts follow from how the value is computed.
func (e *factEngine) intrinsic(v ssa.Value, depth int) factSet {
	f := factSet{}
	if depth > 6 {
		return f
	}
	if isIntType(v.Type()) && isUnsigned(v.Type()) {
		f.add("ge0")
	}
	// v indexes a slice made with v+c elements (c >= 1): grown := make([]T,
	// v+1); grown[v]. A slice value never changes its length, so v < len
	// holds wherever the slice exists.
	if refs := v.Referrers(); refs != nil && isIntType(v.Type()) {
		for _, ref := range *refs {
			sum, ok := ref.(*ssa.BinOp)
			if !ok || sum.Op != token.ADD || sum.X != v {
				continue
			}
			if c, isC := constInt(sum.Y); !isC || c < 1 {
				continue
			}
			for _, r2 := range *sum.Referrers() {
				if ms, ok := r2.(*ssa.MakeSlice); ok && ms.Len == ssa.Value(sum) {
					// (not an ltlen fact: the length is derived from v
					// itself, so it is no upper bound for v)
					f.add("ltmade:" + exprKey(ms))
				}
			}
		}
	}
	// the index of `for i := range s` / `for i, x := range s`: go/ssa counts
	// it as phi[-1, i] + 1, so it is never negative
	if b, ok := v.(*ssa.BinOp); ok && b.Op == token.ADD {
		if one, isC := constInt(b.Y); isC && one == 1 {
			if phi, ok := b.X.(*ssa.Phi); ok && len(phi.Edges) == 2 {
				start, back := false, false
				for _, e := range phi.Edges {
					if c, isC := constInt(e); isC && c == -1 {
						start = true
					}
					if e == ssa.Value(b) {
						back = true
					}
				}
				if start && back {
					f.add("ge0")
				}
			}
		}
	}
	switch x := v.(type) {
	case *ssa.Const:
		if n, ok := constInt(x); ok {
			f.add("lo>="+fmtInt(n), "hi<="+fmtInt(n))
			if n != 0 {
				f.add("ne0")
			}
		}
	case *ssa.Call:
		if b, ok := x.Call.Value.(*ssa.Builtin); ok && (b.Name() == "len" || b.Name() == "cap") {
			f.add("ge0", "ub")
			if b.Name() == "len" {
				f.add("lelen:" + exprKey(x.Call.Args[0]))
			}
		}
		if callee := x.Call.StaticCallee(); callee != nil && core.PkgPathOf(callee) == pkgVals && (callee.Name() == "PromoteToBigInt" || callee.Name() == "PromoteToBigRat") && len(x.Call.Args) == 1 {
			// exact conversion: zero-ness is preserved
			if e.at(x.Call.Args[0], x, depth+1)["ne0"] {
				f.add("ne0")
			}
		}
		if callee := x.Call.StaticCallee(); callee != nil {
			switch callee.String() {
			case "(*math/big.Rat).Denom":
				// library contract: the denominator of a Rat is always > 0
				f.add("ne0", "gt0")
			case "(*math/big.Int).Exp":
				// x**y without a modulus: a power of a non-zero integer is
				// non-zero (and x**y is 1 for y <= 0)
				if len(x.Call.Args) == 4 && isNilConst(x.Call.Args[3]) && e.at(x.Call.Args[1], x, depth+1)["ne0"] {
					f.add("ne0")
				}
			}
		}
		if callee := x.Call.StaticCallee(); callee != nil && core.PkgPathOf(callee) == pkgVals && callee.Name() == "Len" {
			// size of an existing value (or -1): bounded by memory in use
			f.add("ub", "lo>=-1")
		}
		if callee := x.Call.StaticCallee(); callee != nil {
			switch callee.String() {
			case "unicode/utf8.RuneCountInString", "unicode/utf8.RuneCount", "strings.Count", "bytes.Count":
				f.add("ub")
				if callee.Name() != "Count" {
					f.add("ge0")
				}
			case "strings.Index", "strings.IndexByte", "strings.IndexRune", "strings.LastIndex", "bytes.Index", "bytes.IndexByte", "strings.IndexAny", "strings.IndexFunc":
				f.add("ub", "lo>=-1")
			}
		}
	case *ssa.Convert:
		if isIntType(x.X.Type()) && isIntType(x.Type()) {
			inner := e.intrinsic(x.X, depth+1)
			if intWidth(x.Type()) >= intWidth(x.X.Type()) && isUnsigned(x.Type()) == isUnsigned(x.X.Type()) {
				for k := range inner {
					f[k] = true
				}
			} else if isUnsigned(x.X.Type()) && intWidth(x.Type()) > intWidth(x.X.Type()) {
				f.add("ge0", "ub")
			}
		}
	case *ssa.ChangeType:
		for k := range e.intrinsic(x.X, depth+1) {
			f[k] = true
		}
	case *ssa.BinOp:
		switch x.Op {
		case token.AND:
			for _, side := range []ssa.Value{x.X, x.Y} {
				if n, ok := constInt(side); ok && n >= 0 {
					f.add("ge0", "hi<="+fmtInt(n))
				}
			}
		case token.REM:
			if n, ok := constInt(x.Y); ok && n > 0 {
				f.add("hi<="+fmtInt(n-1), "lo>="+fmtInt(-(n - 1)))
			}
		case token.ADD:
			if n, ok := constInt(x.Y); ok {
				inner := e.intrinsic(x.X, depth+1).normalise()
				e.shift(inner, n, f)
			} else if n, ok := constInt(x.X); ok {
				inner := e.intrinsic(x.Y, depth+1).normalise()
				e.shift(inner, n, f)
			}
		case token.SUB:
			if n, ok := constInt(x.Y); ok && n != math.MinInt64 {
				inner := e.intrinsic(x.X, depth+1).normalise()
				e.shift(inner, -n, f)
			}
		case token.SHR:
			inner := e.intrinsic(x.X, depth+1).normalise()
			if inner["ge0"] {
				f.add("ge0")
			}
			if inner["ub"] {
				f.add("ub")
			}
		}
	case *ssa.Phi:
		var acc factSet
		for i, edge := range x.Edges {
			var ef factSet
			if edge == v {
				continue
			}
			pred := x.Block().Preds[i]
			if len(pred.Instrs) > 0 {
				ef = e.at(edge, pred.Instrs[len(pred.Instrs)-1], depth+1)
				// the edge pred -> phi block may itself be a branch edge
				if iff, ok := pred.Instrs[len(pred.Instrs)-1].(*ssa.If); ok && len(pred.Succs) == 2 && pred.Succs[0] != pred.Succs[1] {
					for _, a := range aliases(edge) {
						e.fromCond(iff.Cond, pred.Succs[0] == x.Block(), a, ef)
					}
					ef = ef.normalise()
				}
			} else {
				ef = e.intrinsic(edge, depth+1).normalise()
			}
			// loop-carried increments of a non-negative start stay non-negative (no overflow assumed)
			if bo, ok := edge.(*ssa.BinOp); ok && bo.Op == token.ADD && bo.X == v {
				if n, isC := constInt(bo.Y); isC && n >= 0 {
					continue
				}
			}
			if acc == nil {
				acc = ef
			} else {
				acc = meet(acc, ef)
			}
		}
		for k := range acc {
			f[k] = true
		}
	case *ssa.Extract:
		// index variable of a range loop over a slice/array/string
		if nx, ok := x.Tuple.(*ssa.Next); ok && x.Index == 1 {
			if rg, ok := nx.Iter.(*ssa.Range); ok {
				if _, isMap := rg.X.Type().Underlying().(*types.Map); !isMap {
					f.add("ge0", "ltlen:"+exprKey(rg.X))
				}
			}
		}
		// a result of a helper of this repository: what holds for the value
		// at every return of the helper holds for the result (numbers only;
		// facts about lengths of the callee's own variables do not carry over)
		if call, ok := x.Tuple.(*ssa.Call); ok && depth < 4 && isIntType(x.Type()) {
			for k := range e.returnFacts(call, x.Index, depth) {
				f[k] = true
			}
		}
	case *ssa.Parameter:
		for k := range e.paramFacts(x, depth) {
			f[k] = true
		}
	case *ssa.UnOp:
		if x.Op == token.MUL {
			// load of a captured variable: facts of the single value stored
			// into the cell, as known where the closure is created
			if fv, ok := x.X.(*ssa.FreeVar); ok && depth < 5 {
				fn := fv.Parent()
				idx := -1
				for i, q := range fn.FreeVars {
					if q == fv {
						idx = i
					}
				}
				if parent := fn.Parent(); parent != nil && idx >= 0 {
					core.Instrs(parent, func(ins ssa.Instruction) {
						mc, ok := ins.(*ssa.MakeClosure)
						if !ok || mc.Fn != fn {
							return
						}
						cell, ok := mc.Bindings[idx].(*ssa.Alloc)
						if !ok {
							return
						}
						var stored []*ssa.Store
						for _, ref := range *cell.Referrers() {
							if st, ok := ref.(*ssa.Store); ok && st.Addr == cell {
								stored = append(stored, st)
							}
						}
						// single assignment, made before the closure exists
						if len(stored) == 1 && core.Precedes(stored[0], mc) {
							for k := range e.at(stored[0].Val, mc, depth+1) {
								f[k] = true
							}
							// guards in the parent test loads of the cell
							for _, ref := range *cell.Referrers() {
								if ld, ok := ref.(*ssa.UnOp); ok && ld.Op == token.MUL {
									for k := range e.at(ld, mc, depth+1) {
										f[k] = true
									}
									break
								}
							}
						}
					})
				}
			}
			// load of a local cell with a single store
			if cell, ok := x.X.(*ssa.Alloc); ok {
				var stored []ssa.Value
				okCell := true
				for _, ref := range *cell.Referrers() {
					switch u := ref.(type) {
					case *ssa.Store:
						if u.Addr == cell {
							stored = append(stored, u.Val)
						}
					case *ssa.UnOp, *ssa.DebugRef:
					default:
						okCell = false
					}
				}
				if okCell && len(stored) == 1 {
					for k := range e.intrinsic(stored[0], depth+1) {
						f[k] = true
					}
				}
				// a variable captured by a closure lives in a cell with several
				// stores: meet, over the stores that can reach this load, of the
				// facts of the stored value plus the guards on loads of the
				// cell that every path from that store to this load passes
				if len(stored) > 1 && depth < 4 && cellOnlyStoredHere(cell) {
					if mf := e.cellFacts(cell, x, depth); mf != nil {
						for k := range mf {
							f[k] = true
						}
					}
				}
			}
		}
	}
	return f
}

// shift: facts of x+n from facts of x (overflow is ignored only when the
// value has a constant upper bound).
func (e *factEngine) shift(inner factSet, n int64, out factSet) {
	for k := range inner {
		if strings.HasPrefix(k, "lo>=") {
			if lo, err := parseInt(k[4:]); err == nil && (n <= 0 || lo <= math.MaxInt64-n) && (n >= 0 || lo >= math.MinInt64-n) {
				// a lower bound survives an addition only if the sum cannot wrap:
				// require a constant upper bound on x as well when n > 0
				if n <= 0 || hasConstHi(inner) || hasLenBound(inner) {
					out.add("lo>=" + fmtInt(lo+n))
				}
			}
		}
		if strings.HasPrefix(k, "hi<=") {
			if hi, err := parseInt(k[4:]); err == nil && (n <= 0 || hi <= math.MaxInt64-n) {
				out.add("hi<=" + fmtInt(hi+n))
			}
		}
		if strings.HasPrefix(k, "ltlen:") && n == 1 {
			out.add("lelen:" + k[6:])
		}
		if strings.HasPrefix(k, "lelen:") && n == -1 {
			out.add("ltlen:" + k[6:])
		}
		if (strings.HasPrefix(k, "ltlen:") || strings.HasPrefix(k, "lelen:")) && n <= 0 {
			out.add(k)
		}
	}
	if inner["ub"] && (hasConstHi(inner) || n <= 0) {
		out.add("ub")
	}
	if inner["ub"] && n > 0 && !hasConstHi(inner) {
		// bounded by a length: len+small cannot overflow
		for k := range inner {
			if strings.HasPrefix(k, "ltlen:") || strings.HasPrefix(k, "lelen:") {
				out.add("ub")
			}
		}
	}
	if inner["ge0"] && n >= 0 && (hasConstHi(inner) || inner["ub"]) {
		out.add("ge0")
		if n > 0 {
			out.add("gt0")
		}
	}
}

func hasConstHi(f factSet) bool {
	for k := range f {
		if strings.HasPrefix(k, "hi<=") {
			return true
		}
	}
	return false
}

// paramFacts: a parameter of a repository function that is only called
// statically inherits the meet of the facts at all its call sites.
func (e *factEngine) paramFacts(prm *ssa.Parameter, depth int) factSet {
	if f, ok := e.memo[prm]; ok {
		return f
	}
	fn := prm.Parent()
	empty := factSet{}
	// the result is memoised, so it must not depend on how deep the query
	// that first asked for it was: nesting is bounded by the number of
	// parameters in progress, not by the caller's depth
	if fn == nil || e.inprog[prm] || len(e.inprog) > 5 {
		return empty
	}
	if _, isEntry := e.entries[fn]; isEntry || e.escaped[fn] {
		e.memo[prm] = empty
		return empty
	}
	// generic instantiations share call sites with the instantiation itself
	sites := e.callers[fn]
	if len(sites) == 0 {
		e.memo[prm] = empty
		return empty
	}
	idx := -1
	for i, q := range fn.Params {
		if q == prm {
			idx = i
		}
	}
	if idx < 0 {
		return empty
	}
	// exported functions/methods may be called from outside the program
	if obj := fn.Object(); obj != nil && obj.Exported() && fn.Parent() == nil {
		// still use the program's call sites: the repository is a closed
		// program (cmd/elvish); exported API misuse by third parties is out of scope.
	}
	e.inprog[prm] = true
	var acc factSet
	for _, site := range sites {
		args := site.Common().Args
		if idx >= len(args) {
			acc = factSet{}
			break
		}
		if _, isGo := site.(*ssa.Go); isGo {
			// facts at the go statement still hold for the argument values
		}
		sf := e.at(args[idx], site, 0)
		if acc == nil {
			acc = sf
		} else {
			acc = meet(acc, sf)
		}
	}
	delete(e.inprog, prm)
	if acc == nil {
		acc = factSet{}
	}
	e.memo[prm] = acc
	return acc
}
