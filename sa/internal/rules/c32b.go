package rules

import (
	"golang.org/x/tools/go/ssa"

	"verif/sa/internal/core"
)

// runInputFIFO (C32 INPUT-FIFO): events reach the loop in arrival order
// because the goroutine that supplies an event performs the send on the
// input channel itself, and a channel is first-in first-out. Every send on
// loop.inputCh is therefore executed directly by (*loop).Input - not by a
// goroutine it starts, not by a closure - and Input starts no goroutine at
// all: two events handed to two freshly started goroutines enter the channel
// in whatever order the scheduler picks.
func runInputFIFO(p *core.Program, r *core.Report) {
	const rule = "INPUT-FIFO"
	input := p.Method(pkgCLI, "loop", "Input")
	if !r.Anchor(rule, "(*cli.loop).Input", input != nil && input.Blocks != nil) {
		return
	}
	isInputCh := func(v ssa.Value) bool {
		v = resolveVal(v)
		if addr, isLd := core.IsLoad(v); isLd {
			if fa, ok := addr.(*ssa.FieldAddr); ok {
				n, f := core.FieldName(fa)
				return n != nil && n.Obj().Name() == "loop" && f == "inputCh"
			}
		}
		return false
	}
	nsend := 0
	var bad ssa.Instruction
	what := ""
	for _, fn := range p.FnsInPkg(pkgCLI) {
		core.Instrs(fn, func(ins ssa.Instruction) {
			var ch ssa.Value
			switch x := ins.(type) {
			case *ssa.Send:
				ch = x.Chan
			case *ssa.Select:
				for _, st := range x.States {
					if st.Dir == 1 && isInputCh(st.Chan) { // types.SendOnly
						ch = st.Chan
					}
				}
			}
			if ch == nil || !isInputCh(ch) {
				return
			}
			nsend++
			if fn != input && bad == nil {
				bad, what = ins, core.FnKey(fn)+" sends on the input channel; only (*loop).Input itself may"
			}
		})
	}
	core.Instrs(input, func(ins ssa.Instruction) {
		if g, ok := ins.(*ssa.Go); ok && bad == nil {
			bad, what = g, "(*loop).Input starts a goroutine"
		}
	})
	r.Count(rule+" sends on loop.inputCh", nsend)
	if !r.Anchor(rule, "a send on loop.inputCh", nsend >= 1) {
		return
	}
	construct := "events enter the loop's input channel through the supplier's own send"
	if bad == nil {
		r.OK(rule, construct, p.Pos(input.Pos()), "the only sends on inputCh are in (*loop).Input, which starts no goroutine")
	} else {
		r.Bad(rule, construct, p.InsPos(bad), what+": events handed over by separate goroutines enter the channel in scheduler order, not in arrival order, and can arrive after the loop has returned")
	}
}
