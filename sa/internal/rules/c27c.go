package rules

import (
	"go/constant"
	"go/token"
	"go/types"

	"golang.org/x/tools/go/ssa"

	"verif/sa/internal/core"
)

// runStaleOnlyRefused (C27 STALE-ONLY-REFUSED): a shell removes the socket
// file of "a crashed daemon" only when connecting to it was refused
// (ECONNREFUSED: nobody listens on the socket any more). Any other connect
// error - a full accept queue (EAGAIN), a timeout - can come from a daemon
// that is alive and owns the database; removing its socket and spawning
// another gives two daemons for one socket and database. So the status value
// on which the activation code removes the socket file is returned only on the
// success edge of errors.Is(err, <a variable initialised to ECONNREFUSED>).
func runStaleOnlyRefused(p *core.Program, r *core.Report, pkg string) {
	const rule = "STALE-ONLY-REFUSED"
	// (1) the os.Remove calls of the activation code and the status constant
	// that guards them
	type guard struct {
		rm  *ssa.Call
		k   *ssa.Const
		src *ssa.Function // function whose result is the status
	}
	var guards []guard
	for _, fn := range p.FnsInPkg(pkg) {
		core.Instrs(fn, func(ins ssa.Instruction) {
			c, ok := ins.(*ssa.Call)
			if !ok {
				return
			}
			callee := c.Call.StaticCallee()
			if callee == nil || callee.String() != "os.Remove" {
				return
			}
			for _, b := range fn.Blocks {
				if len(b.Instrs) == 0 {
					continue
				}
				iff, ok := b.Instrs[len(b.Instrs)-1].(*ssa.If)
				if !ok {
					continue
				}
				cmp, ok := iff.Cond.(*ssa.BinOp)
				if !ok || cmp.Op != token.EQL {
					continue
				}
				k, ok := cmp.Y.(*ssa.Const)
				if !ok || k.Value == nil || k.Value.Kind() != constant.Int {
					continue
				}
				if _, named := k.Type().(*types.Named); !named {
					continue
				}
				if core.EdgeTo(b, c.Block()) != 0 {
					continue
				}
				// where the compared status comes from
				var src *ssa.Function
				// the status may arrive as a parameter of a helper that is
				// called at one place (prepareForSpawn(..., status, ...))
				v := resolveVal(cmp.X)
				if ex, ok := v.(*ssa.Extract); ok {
					v = ex.Tuple
				}
				if call, ok := v.(*ssa.Call); ok {
					src = call.Call.StaticCallee()
				}
				if src != nil {
					guards = append(guards, guard{c, k, src})
				}
			}
		})
	}
	r.Count(rule+" removals of the socket file decided by a status value", len(guards))
	if !r.Anchor(rule, "an os.Remove in pkg/daemon guarded by a status returned from a detection function", len(guards) >= 1) {
		return
	}
	seen := map[string]bool{}
	for _, g := range guards {
		if g.src.Blocks == nil {
			continue
		}
		core.Instrs(g.src, func(ins ssa.Instruction) {
			ret, ok := ins.(*ssa.Return)
			if !ok || len(ret.Results) == 0 {
				return
			}
			k, ok := ret.Results[0].(*ssa.Const)
			if !ok || k.Value == nil || !constant.Compare(k.Value, token.EQL, g.k.Value) || !types.Identical(k.Type(), g.k.Type()) {
				return
			}
			construct := core.FnKey(g.src) + " reports the status on which " + core.FnKey(g.rm.Parent()) + " removes the socket file"
			if seen[construct] {
				construct += " (again)"
			}
			seen[construct] = true
			okEdge := false
			for _, b := range g.src.Blocks {
				if len(b.Instrs) == 0 {
					continue
				}
				iff, ok := b.Instrs[len(b.Instrs)-1].(*ssa.If)
				if !ok {
					continue
				}
				cond, wantEdge := iff.Cond, 0
				if u, ok := cond.(*ssa.UnOp); ok && u.Op == token.NOT {
					cond, wantEdge = u.X, 1
				}
				call, ok := cond.(*ssa.Call)
				if !ok {
					continue
				}
				callee := call.Call.StaticCallee()
				if callee == nil || callee.String() != "errors.Is" || len(call.Call.Args) != 2 {
					continue
				}
				if !isConnRefusedVar(p, call.Call.Args[1]) {
					continue
				}
				if core.EdgeTo(b, ret.Block()) == wantEdge {
					okEdge = true
				}
			}
			if okEdge {
				r.OK(rule, construct, p.InsPos(ret), "returned only on the success edge of errors.Is(err, ECONNREFUSED)")
			} else {
				r.Bad(rule, construct, p.InsPos(ret), "the 'stale socket' status can be returned for a connect error other than ECONNREFUSED: a daemon that is alive but not accepting (full accept queue, stopped process) has its socket file removed and a second daemon is spawned for the same socket and database")
			}
		})
	}
}

// isConnRefusedVar: v is (an interface made from) a load of a package-level
// variable whose only initialisation stores the errno ECONNREFUSED
// (WSAECONNREFUSED = 10061 on Windows).
func isConnRefusedVar(p *core.Program, v ssa.Value) bool {
	if mi, ok := v.(*ssa.MakeInterface); ok {
		v = mi.X
	}
	addr, isLd := core.IsLoad(v)
	if !isLd {
		return false
	}
	g, ok := addr.(*ssa.Global)
	if !ok || g.Pkg == nil {
		return false
	}
	want := map[int64]bool{10061: true}
	if sp := p.SSA.ImportedPackage("syscall"); sp != nil {
		if c, ok := sp.Pkg.Scope().Lookup("ECONNREFUSED").(*types.Const); ok {
			if n, exact := constant.Int64Val(c.Val()); exact {
				want[n] = true
			}
		}
	}
	init := g.Pkg.Func("init")
	if init == nil {
		return false
	}
	n, good := 0, true
	core.Instrs(init, func(ins ssa.Instruction) {
		st, ok := ins.(*ssa.Store)
		if !ok || st.Addr != ssa.Value(g) {
			return
		}
		n++
		val := st.Val
		if mi, ok := val.(*ssa.MakeInterface); ok {
			val = mi.X
		}
		if cv, ok := val.(*ssa.Convert); ok {
			val = cv.X
		}
		c, ok := val.(*ssa.Const)
		if !ok || c.Value == nil || c.Value.Kind() != constant.Int {
			good = false
			return
		}
		if x, exact := constant.Int64Val(c.Value); !exact || !want[x] {
			good = false
		}
	})
	return n >= 1 && good
}
