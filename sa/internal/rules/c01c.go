package rules

import (
	"go/token"
	"go/types"

	"golang.org/x/tools/go/ssa"

	"verif/sa/internal/core"
)

// runSrcIdentity (C01 SRC-IDENTITY): the parser works on the very text the
// caller holds. Every string the parser state is initialised with is a field
// of the parse.Source it was given, unchanged: the tree's ranges are offsets
// into the text the parser saw, and everybody else applies them to
// Source.Code. A parser that first trims, normalises or decodes the text (a
// byte order mark, line endings) shifts every range against the original.
func runSrcIdentity(p *core.Program, r *core.Report) {
	const rule = "SRC-IDENTITY"
	n := 0
	isSourceField := func(v ssa.Value) bool {
		switch x := v.(type) {
		case *ssa.Field:
			return core.IsNamed(x.X.Type(), pkgParse, "Source")
		case *ssa.UnOp:
			if fa, ok := x.X.(*ssa.FieldAddr); ok && x.Op == token.MUL {
				if ptr, ok := fa.X.Type().Underlying().(*types.Pointer); ok {
					return core.IsNamed(ptr.Elem(), pkgParse, "Source")
				}
			}
		}
		return false
	}
	for _, fn := range p.FnsInPkg(pkgParse) {
		core.Instrs(fn, func(ins ssa.Instruction) {
			a, ok := ins.(*ssa.Alloc)
			if !ok {
				return
			}
			ptr, ok := a.Type().(*types.Pointer)
			if !ok || !core.IsNamed(ptr.Elem(), pkgParse, "parser") {
				return
			}
			for fa, val := range fieldStoresWithAddr(a) {
				if !isStringType(val.Type()) {
					continue
				}
				n++
				_, f := core.FieldName(fa)
				construct := core.FnKey(fn) + " parser text field " + f + " is the caller's Source unchanged"
				if isSourceField(val) {
					r.OK(rule, construct, p.InsPos(a), "initialised from a field of the parse.Source argument")
				} else {
					r.Bad(rule, construct, p.InsPos(a), "the parser is given a string computed from the source instead of the source's own field: node and error ranges are offsets into that other string, while Tree.Source and every caller apply them to the original text (a stripped byte order mark shifts every range by three bytes)")
				}
			}
		})
	}
	r.Count(rule+" string fields of parser literals", n)
}
