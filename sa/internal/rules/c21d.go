package rules

import (
	"go/token"
	"go/types"

	"golang.org/x/tools/go/ssa"

	"verif/sa/internal/core"
)

// runTracebackNil (C17 TRACEBACK-NIL): a frame made for a call from Go
// (Evaler.Call: the chdir and exit hooks, editor callbacks) has no traceback.
// Every dereference of Frame.traceback - a field access on the loaded pointer -
// is therefore dominated by the non-nil edge of a comparison of the traceback
// with nil; a builtin that looks for its call site crashes the interpreter
// when it is installed as a hook.
func runTracebackNil(p *core.Program, r *core.Report) {
	const rule = "TRACEBACK-NIL"
	n := 0
	seen := map[string]bool{}
	for _, fn := range p.FnsInPkg(pkgEval) {
		core.Instrs(fn, func(ins ssa.Instruction) {
			fa, ok := ins.(*ssa.FieldAddr)
			if !ok {
				return
			}
			ld, ok := fa.X.(*ssa.UnOp)
			if !ok || ld.Op != token.MUL {
				return
			}
			src, ok := ld.X.(*ssa.FieldAddr)
			if !ok {
				return
			}
			nt, f := core.FieldName(src)
			if nt == nil || nt.Obj().Name() != "Frame" || f != "traceback" {
				return
			}
			n++
			construct := core.FnKey(fn) + " dereferences Frame.traceback"
			if seen[construct] {
				construct += " (again)"
			}
			seen[construct] = true
			if nilGuarded(ld, ins) {
				r.OK(rule, construct, p.InsPos(ins), "dominated by the non-nil edge of a comparison of the traceback with nil")
			} else {
				r.Bad(rule, construct, p.InsPos(ins), "a frame made by Evaler.Call (hooks such as before-chdir and before-exit) has a nil traceback: this dereference crashes the interpreter when the command is called from a hook (`set before-chdir = [$deprecate~]; cd /`)")
			}
		})
	}
	r.Count(rule+" dereferences of Frame.traceback", n)
}

// runDeferFork (C21 DEFER-FORK): a function registered with Frame.addDefer
// runs on the frame of the closure that is finishing, after its body and
// before the other deferred functions and restores. Calling Elvish code on
// that very frame lets Closure.Call overwrite its source and namespaces under
// the feet of the functions that run next; the callee gets a fork.
func runDeferFork(p *core.Program, r *core.Report) {
	const rule = "DEFER-FORK"
	addDefer := p.Method(pkgEval, "Frame", "addDefer")
	if !r.Anchor(rule, "(*eval.Frame).addDefer", addDefer != nil) {
		return
	}
	n := 0
	for _, fn := range p.FnsInPkg(pkgEval) {
		core.Instrs(fn, func(ins ssa.Instruction) {
			c, ok := ins.(ssa.CallInstruction)
			if !ok || c.Common().StaticCallee() != addDefer || len(c.Common().Args) < 2 {
				return
			}
			cb, ok := closureOf(c.Common().Args[1])
			if !ok || len(cb.Params) == 0 {
				return
			}
			frameParam := cb.Params[0]
			core.Instrs(cb, func(i2 ssa.Instruction) {
				call, ok := i2.(*ssa.Call)
				if !ok || !call.Call.IsInvoke() || call.Call.Method.Name() != "Call" || !core.IsNamed(call.Call.Value.Type(), pkgEval, "Callable") {
					return
				}
				n++
				construct := core.FnKey(fn) + " deferred function calls Elvish code on a fork"
				if len(call.Call.Args) > 0 && call.Call.Args[0] == ssa.Value(frameParam) {
					r.Bad(rule, construct, p.InsPos(i2), "the deferred function calls a Callable on the finishing closure's own frame: Closure.Call overwrites the frame's source and namespaces, and a restore or deferred function that fails afterwards builds its error from the wrong source (crash: slice bounds out of range)")
				} else {
					r.OK(rule, construct, p.InsPos(i2), "the callee is given "+addrDesc(call.Call.Args[0])+", not the frame itself")
				}
			})
		})
	}
	r.Count(rule+" Callable calls inside functions registered with addDefer", n)
}

// runExcNonNil (C21 EXC-NONNIL): an Exception is an interface; a pointer to
// an exception struct built around a nil error is a non-nil Exception whose
// reason is nil. Everything that tests "did it fail?" (loops, try, the
// closure epilogue that picks between the body's and the deferred functions'
// exceptions) takes it for a failure. So wherever pkg/eval builds
// &exception{reason, ...} from an error-typed value, the construction is
// dominated by the non-nil edge of a test of that value (or the value is
// made on the spot from a concrete error).
func runExcNonNil(p *core.Program, r *core.Report) {
	const rule = "EXC-NONNIL"
	n := 0
	seen := map[string]bool{}
	for _, fn := range p.FnsInPkg(pkgEval) {
		core.Instrs(fn, func(ins ssa.Instruction) {
			a, ok := ins.(*ssa.Alloc)
			if !ok || !core.IsNamed(a.Type().(*types.Pointer).Elem(), pkgEval, "exception") {
				return
			}
			var reason ssa.Value
			var at ssa.Instruction
			for _, ref := range *a.Referrers() {
				if fa, ok := ref.(*ssa.FieldAddr); ok {
					if _, f := core.FieldName(fa); f == "reason" {
						for _, r2 := range *fa.Referrers() {
							if st, ok := r2.(*ssa.Store); ok && st.Addr == ssa.Value(fa) {
								reason, at = st.Val, st
							}
						}
					}
				}
			}
			if reason == nil {
				return
			}
			n++
			construct := core.FnKey(fn) + " wraps " + addrDesc(reason) + " in an exception"
			if seen[construct] {
				construct += " (again)"
			}
			seen[construct] = true
			// an audit entry of a function also covers the pieces extracted
			// from it (helpers all of whose call sites lie in that function)
			auditWhy := excNonNilAudit[construct]
			if auditWhy == "" {
				for _, f := range uniqueCallerChain(p, fn)[1:] {
					if w := excNonNilAudit[core.FnKey(f)+" wraps "+addrDesc(reason)+" in an exception"]; w != "" {
						auditWhy = w
						break
					}
				}
			}
			switch {
			case auditWhy != "":
				r.Audit(rule, construct, p.InsPos(a), auditWhy)
			case isMadeOnTheSpot(reason) || phiNonNil(reason, at):
				r.OK(rule, construct, p.InsPos(a), "the reason is a concrete error value made here, or non-nil on every incoming path")
			case nilGuarded(reason, at) || nilGuarded(throughCell(reason), at):
				r.OK(rule, construct, p.InsPos(a), "dominated by the non-nil edge of a test of the reason")
			case paramNonNilAtAllCalls(p, reason):
				r.OK(rule, construct, p.InsPos(a), "the reason is a parameter that every caller tests or makes on the spot")
			default:
				r.Bad(rule, construct, p.InsPos(a), "the wrapped error can be nil here: the result is a non-nil Exception with a nil reason, which loops, try and the closure epilogue take for a failure (`for x [a b c] { defer { echo d } }` stops after one iteration)")
			}
		})
	}
	r.Count(rule+" constructions of an exception around an error value", n)
}

// excNonNilAudit: exceptions built around a possibly nil error that are never
// seen as exceptions. Key: construct.
var excNonNilAudit = map[string]string{
	"(*eval.formOp).exec wraps call:? in an exception":             "the only caller, the per-form function of pipelineOp.exec, hands every form's exception to MakePipelineError, which drops the ones whose reason is nil (a successful command is represented this way on purpose)",
	"eval.fg wraps call:NewExternalCmdExit in an exception":        "collected in a slice that goes through MakePipelineError, which drops exceptions whose reason is nil (exit status 0)",
	"eval.NewException wraps param:error in an exception":          "exported constructor with no caller in the repository; the reason is the caller's business",
}

// phiNonNil: v is a phi every incoming value of which is made on the spot or
// arrives over the non-nil edge of a test of it.
func phiNonNil(v ssa.Value, at ssa.Instruction) bool {
	phi, ok := v.(*ssa.Phi)
	if !ok {
		return false
	}
	for i, e := range phi.Edges {
		pred := phi.Block().Preds[i]
		if isMadeOnTheSpot(e) {
			continue
		}
		if len(pred.Instrs) > 0 && (nilGuarded(e, pred.Instrs[len(pred.Instrs)-1]) || edgeIsNonNil(e, pred, phi.Block())) {
			continue
		}
		return false
	}
	return true
}

// isMadeOnTheSpot: v is an interface made from a value of a concrete type
// (errors.New result, a struct literal, a constant error variable's load is
// not included).
func isMadeOnTheSpot(v ssa.Value) bool {
	switch x := v.(type) {
	case *ssa.MakeInterface:
		return true
	case *ssa.Call:
		// fmt.Errorf, errors.New and friends never return nil
		if callee := x.Call.StaticCallee(); callee != nil {
			switch callee.String() {
			case "fmt.Errorf", "errors.New":
				return true
			}
		}
	case *ssa.UnOp:
		// a package-level error variable
		if x.Op == token.MUL {
			if _, isG := x.X.(*ssa.Global); isG {
				return true
			}
		}
	}
	return false
}

// paramNonNilAtAllCalls: v is a parameter of an unexported function and at
// every static call site the argument is made on the spot or nil-guarded.
func paramNonNilAtAllCalls(p *core.Program, v ssa.Value) bool {
	prm, ok := v.(*ssa.Parameter)
	if !ok {
		return false
	}
	fn := prm.Parent()
	idx := -1
	for i, q := range fn.Params {
		if q == prm {
			idx = i
		}
	}
	n, all := 0, true
	for _, g := range p.FnsInPkg(core.PkgPathOf(fn)) {
		if g.Synthetic != "" {
			continue
		}
		core.Instrs(g, func(ins ssa.Instruction) {
			c, ok := ins.(ssa.CallInstruction)
			if !ok || c.Common().StaticCallee() != fn || idx >= len(c.Common().Args) {
				return
			}
			n++
			a := c.Common().Args[idx]
			if !(isMadeOnTheSpot(a) || nilGuarded(a, ins) || nilGuarded(throughCell(a), ins)) {
				all = false
			}
		})
	}
	return n > 0 && all
}
