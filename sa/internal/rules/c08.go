package rules

import (
	"go/constant"
	"go/token"
	"go/types"
	"sort"
	"strings"

	"golang.org/x/tools/go/ssa"

	"verif/sa/internal/core"
)

func init() {
	register(&core.Spec{
		ID:          "C08",
		Explanation: "Decides the clause 'if eq reports two values equal they hash identically' as an agreement between sibling implementations, type by type: (EH-PAIR) every type with a Hash method also has Equal, the receiver fields read by Hash are a subset of those Equal compares (whole-value == counts as all fields), and an address hash is only paired with identity equality; (EH-CASE) inside vals.Hash the float64 case normalises the sign of zero before taking the bit pattern (== identifies +0 and -0), the map and field-map hashers combine entries with the same commutative operator, initial value and per-entry function (a field map can be eq to a map, and iteration order of eq maps may differ), File is hashed by the same accessor eq compares; (EH-ORDER) the interface cases of vals.Equal and vals.Hash appear in an order that cannot send one value to a structural equality but a different hasher. It does not decide that the hash map honours hashes (C07).",
		NotCovered:  "quality of hashes; has-key/assoc behaviour of the map itself (C07)",
		Rules:       []string{"EH-PAIR", "EH-CASE", "EH-ORDER", "KEY-STABLE: vals.Hash and vals.Equal read no state of a value that a later operation can change (the descriptor of a file changes on close)", "COLLISION-HASH: a collision node of the hash trie is labelled with an existing collision node's hash, or built on the equal edge of a comparison of the two keys' hashes"},
		Patterns:    []string{"./pkg/eval/...", "./pkg/ui", "./pkg/edit", "./pkg/persistent/hashmap"},
		Run:         func(p *core.Program, r *core.Report) { runC08(p, r); runKeyStable(p, r); runCollisionHash(p, r) },
		MinCounts:   map[string]int{"EH-PAIR": 6, "EH-CASE": 4, "KEY-STABLE": 2, "COLLISION-HASH": 3},
		Trusted:     trustedBase,
		Controls: []core.Control{
			{Name: "collision-node-for-different-hashes-at-the-last-level", Rule: "COLLISION-HASH", File: "pkg/persistent/hashmap/hashmap.go", Old: "\tif h1 == h2 {\n\t\treturn &collisionNode{h1, []mapEntry{{k1, v1}, {k2, v2}}}", New: "\tif h1 == h2 || shift >= 30 {\n\t\treturn &collisionNode{h1, []mapEntry{{k1, v1}, {k2, v2}}}", Fire: true, Want: "createNode"},
			{Name: "benign-collision-test-inverted", Rule: "COLLISION-HASH", File: "pkg/persistent/hashmap/hashmap.go", Old: "\tif h1 == h2 {\n\t\treturn &collisionNode{h1, []mapEntry{{k1, v1}, {k2, v2}}}\n\t}\n\tn, _ := emptyBitmapNode.assoc(shift, h1, k1, v1, h, eq)\n\tn, _ = n.assoc(shift, h2, k2, v2, h, eq)\n\treturn n", New: "\tif h1 != h2 {\n\t\tn, _ := emptyBitmapNode.assoc(shift, h1, k1, v1, h, eq)\n\t\tn, _ = n.assoc(shift, h2, k2, v2, h, eq)\n\t\treturn n\n\t}\n\treturn &collisionNode{h2, []mapEntry{{k1, v1}, {k2, v2}}}", Fire: false},
			{Name: "eq-treats-nans-as-equal-hash-does-not", Rule: "EH-CASE", File: "pkg/eval/vals/equal.go", Old: "\tcase float64:\n\t\treturn x == y\n\tcase string:", New: "\tcase float64:\n\t\tif y, ok := y.(float64); ok {\n\t\t\treturn compareFloat(x, y) == CmpEqual\n\t\t}\n\t\treturn false\n\tcase string:", Fire: true, Want: "NaN", Patterns: []string{"./pkg/eval/vals"}},
			{Name: "revert-fix-float-zero-hash", Rule: "EH-CASE", File: "pkg/eval/vals/hash.go", Old: "\t\tif v == 0 {\n\t\t\t// +0.0 and -0.0 are equal, so they must have the same hash.\n\t\t\tv = 0\n\t\t}\n", New: "", Fire: true, Quick: true, Patterns: []string{"./pkg/eval/vals"}},
			{Name: "fieldmap-hash-order-dependent", Rule: "EH-CASE", File: "pkg/eval/vals/hash.go", Old: "\tvar h uint32\n\tfor i, key := range keys {\n\t\th += hash.DJB(Hash(key), Hash(value.Field(i).Interface()))", New: "\th := hash.DJBInit\n\tfor i, key := range keys {\n\t\th = hash.DJBCombine(h, hash.DJB(Hash(key), Hash(value.Field(i).Interface())))", Fire: true, Patterns: []string{"./pkg/eval/vals"}},
			{Name: "map-hash-order-dependent", Rule: "EH-CASE", File: "pkg/eval/vals/hash.go", Old: "\t\th += hash.DJB(Hash(k), Hash(v))\n\t}\n\treturn h\n}\n\nfunc hashFieldMap", New: "\t\th = hash.DJBCombine(h, hash.DJB(Hash(k), Hash(v)))\n\t}\n\treturn h\n}\n\nfunc hashFieldMap", Fire: true, Patterns: []string{"./pkg/eval/vals"}},
			{Name: "key-hash-reads-field-equal-ignores", Rule: "EH-PAIR", File: "pkg/edit/completion.go", Old: "\t// TODO: Add c.Display\n\treturn h", New: "\th = hash.DJBCombine(h, hash.Pointer(unsafe.Pointer(&c)))\n\treturn h", Edits: [][2]string{{"import (\n", "import (\n\t\"unsafe\"\n"}}, Fire: true, Patterns: []string{"./pkg/edit"}},
			{Name: "complexitem-equal-ignores-hashed-field", Rule: "EH-PAIR", File: "pkg/edit/completion.go", Old: "\treturn ok && c.Stem == rhs.Stem &&\n\t\tc.CodeSuffix == rhs.CodeSuffix && reflect.DeepEqual(c.Display, rhs.Display)", New: "\treturn ok && c.Stem == rhs.Stem && reflect.DeepEqual(c.Display, rhs.Display)", Fire: true, Patterns: []string{"./pkg/edit"}},
			{Name: "benign-xor-in-both-map-hashers", Rule: "EH-CASE", File: "pkg/eval/vals/hash.go", Old: "\t\th += hash.DJB(Hash(k), Hash(v))", New: "\t\th ^= hash.DJB(Hash(k), Hash(v))", Edits: [][2]string{{"\t\th += hash.DJB(Hash(key), Hash(value.Field(i).Interface()))", "\t\th ^= hash.DJB(Hash(key), Hash(value.Field(i).Interface()))"}}, Fire: false, Patterns: []string{"./pkg/eval/vals"}},
		},
	})
	register(&core.Spec{
		ID:          "C09",
		Explanation: "Decides two structural necessary conditions of 'compare is a transitive total preorder': (NUMSET) the sets of number representations used by the comparison machinery agree everywhere - the outer and inner type switches of cmpInner, the switch over the unified operand, getNumType, and typeOf's number class (plus int, which typeOf(0) contributes) are all exactly {int, *big.Int, *big.Rat, float64}, so no mixed pair falls through to 'uncomparable' and compare &total does not split numbers by representation; (CMP-DOMAINS) operands of one exact type must not be ordered through a lossy image while the same comparison also orders that type exactly: such a pair always yields a non-transitive triple. CMP-DOMAINS fires on today's tree (known finding: mixed exact/float comparison goes through ConvertToFloat64). Reflexivity, symmetry, NaN placement and list order are value-level and not decided.",
		NotCovered:  "reflexivity/symmetry, NaN placement, lexicographic list order",
		Rules:       []string{"NUMSET", "CMP-DOMAINS", "TOTAL-RECURSE: CmpTotal orders list elements with CmpTotal", "STRING-BYTES: two compared strings are ordered only by the built-in string comparison"},
		Patterns:    []string{"./pkg/eval/vals"},
		Run:         runC09,
		MinCounts:   map[string]int{"NUMSET": 4, "CMP-DOMAINS": 1, "TOTAL-RECURSE": 1, "STRING-BYTES": 1},
		Trusted:     trustedBase,
		Controls: []core.Control{
			{Name: "strings-ordered-by-length-first", Rule: "STRING-BYTES", File: "pkg/eval/vals/cmp.go", Old: "\t\tif b, ok := b.(string); ok {\n\t\t\treturn compareBuiltin(a, b)\n\t\t}", New: "\t\tif b, ok := b.(string); ok {\n\t\t\tif len(a) != len(b) {\n\t\t\t\treturn compareBuiltin(len(a), len(b))\n\t\t\t}\n\t\t\treturn compareBuiltin(a, b)\n\t\t}", Fire: true, Want: "cmpInner", Quick: true},
			{Name: "benign-strings-compared-inline", Rule: "STRING-BYTES", File: "pkg/eval/vals/cmp.go", Old: "\t\tif b, ok := b.(string); ok {\n\t\t\treturn compareBuiltin(a, b)\n\t\t}", New: "\t\tif b, ok := b.(string); ok {\n\t\t\tswitch {\n\t\t\tcase a < b:\n\t\t\t\treturn CmpLess\n\t\t\tcase a > b:\n\t\t\t\treturn CmpMore\n\t\t\t}\n\t\t\treturn CmpEqual\n\t\t}", Fire: false},
			{Name: "typeof-drops-bigrat", Rule: "NUMSET", File: "pkg/eval/vals/cmp.go", Old: "\tcase *big.Int, *big.Rat, float64:\n\t\treturn typeOfInt", New: "\tcase *big.Int, float64:\n\t\treturn typeOfInt", Fire: true, Quick: true},
			{Name: "cmp-inner-switch-drops-bigint", Rule: "NUMSET", File: "pkg/eval/vals/cmp.go", Old: "\t\tswitch b.(type) {\n\t\tcase int, *big.Int, *big.Rat, float64:", New: "\t\tswitch b.(type) {\n\t\tcase int, *big.Rat, float64:", Fire: true},
			{Name: "total-compare-recurses-with-partial-cmp", Rule: "TOTAL-RECURSE", File: "pkg/eval/vals/cmp.go", Old: "cmpInner(a, b, CmpTotal)", New: "cmpInner(a, b, Cmp)", Fire: true},
			{Name: "benign-reordered-cases", Rule: "NUMSET", File: "pkg/eval/vals/cmp.go", Old: "\tcase *big.Int, *big.Rat, float64:\n\t\treturn typeOfInt", New: "\tcase float64, *big.Rat, *big.Int:\n\t\treturn typeOfInt", Fire: false},
		},
	})
	register(&core.Spec{
		ID:          "C10",
		Explanation: "Decides the stability and failure-atomicity clauses of C10 structurally: (STABLE) every sort that order applies to the value slice is a stable one (sort.Stable, sort.SliceStable, slices.SortStableFunc); an unstable sort is invisible to tests below the library's insertion-sort threshold; (LATCH) every value output of order is dominated by the 'no comparator error' edge tested after sorting, and the comparator sets the error latch on every failing exit (uncomparable pair, callback error, wrong arity, non-boolean), so order outputs nothing when it throws; (SWAP-PAIR) Swap exchanges the keys whenever keys exist, keeping values and keys aligned. That the output is sorted and a permutation, and the option equivalences, are not decided.",
		NotCovered:  "sortedness and permutation of the output; &key/&less-than/&total equivalences",
		Rules:       []string{"STABLE", "LATCH", "SWAP-PAIR", "SWAP-ONLY-BY-SORT: nothing in pkg/eval calls the value slice's Swap directly (only the stable sort rearranges the values)"},
		Patterns:    []string{"./pkg/eval"},
		Run:         func(p *core.Program, r *core.Report) { runC10(p, r); runSwapOnlyBySort(p, r) },
		MinCounts:   map[string]int{"STABLE": 1, "LATCH": 4, "SWAP-PAIR": 1, "SWAP-ONLY-BY-SORT": 1},
		Trusted:     trustedBase,
		Controls: []core.Control{
			{Name: "unstable-sort-in-reverse", Rule: "STABLE", File: "pkg/eval/builtin_fn_stream.go", Old: "\t\tsort.Stable(sort.Reverse(s))", New: "\t\tsort.Sort(sort.Reverse(s))", Fire: true, Quick: true},
			{Name: "error-latch-not-tested", Rule: "LATCH", File: "pkg/eval/builtin_fn_stream.go", Old: "\tif s.err != nil {\n\t\treturn s.err\n\t}\n\n\tout := fm.ValueOutput()", New: "\tout := fm.ValueOutput()", Edits: [][2]string{{"\tfor _, v := range values {\n\t\terr := out.Put(v)\n\t\tif err != nil {\n\t\t\treturn err\n\t\t}\n\t}\n\treturn nil\n}\n\ntype slice struct", "\tfor _, v := range values {\n\t\terr := out.Put(v)\n\t\tif err != nil {\n\t\t\treturn err\n\t\t}\n\t}\n\treturn s.err\n}\n\ntype slice struct"}}, Fire: true},
			{Name: "uncomparable-not-latched", Rule: "LATCH", File: "pkg/eval/builtin_fn_stream.go", Old: "\t\tif o == vals.CmpUncomparable {\n\t\t\ts.err = ErrUncomparable\n\t\t\treturn true\n\t\t}", New: "\t\tif o == vals.CmpUncomparable {\n\t\t\treturn true\n\t\t}", Fire: true},
			{Name: "swap-forgets-keys", Rule: "SWAP-PAIR", File: "pkg/eval/builtin_fn_stream.go", Old: "\tif s.keys != nil {\n\t\ts.keys[i], s.keys[j] = s.keys[j], s.keys[i]\n\t}\n}", New: "}", Fire: true},
			{Name: "benign-slicestable", Rule: "STABLE", File: "pkg/eval/builtin_fn_stream.go", Old: "\t\tsort.Stable(s)\n\t}", New: "\t\tsort.SliceStable(s.values, func(i, j int) bool { return s.Less(i, j) })\n\t}", Fire: false},
		},
	})
	register(&core.Spec{
		ID:          "C11",
		Explanation: "Decides two structural clauses of C11: (NORM) canonical form - no value of static type *big.Int or *big.Rat is turned into an Elvish value (written to the value output, put in a list or map) without passing vals.FromGo / NormalizeBigInt / NormalizeBigRat, and goFn.Call converts every return value of a Go builtin with vals.FromGo; (EXACT-ZERO) every big-number operation that panics on zero (Rat.Inv/Quo/SetFrac, Int.Quo/Rem/Div/Mod/...) reached by script-controlled numbers is dominated by a non-zero test of its divisor, or audited with a reason - so operations without an exact result raise an exception instead of crashing. Numeric correctness of the results is not decided.",
		NotCovered:  "mathematical correctness of results; that every arithmetic builtin returns through a normalising path is decided only for direct outputs and goFn returns",
		Rules:       []string{"NORM", "GOFN-NORM", "EXACT-ZERO", "BIG-FRESH: the receiver of every result-writing math/big call in the number builtins is a number allocated in that call, never an argument"},
		Run:         func(p *core.Program, r *core.Report) { runC11(p, r); runBigFresh(p, r) },
		MinCounts:   map[string]int{"NORM": 3, "GOFN-NORM": 1, "EXACT-ZERO": 3, "BIG-FRESH": 10},
		Trusted:     trustedBase,
		Controls: []core.Control{
			{Name: "range-outputs-unnormalised-bigint", Rule: "NORM", File: "pkg/eval/builtin_fn_num.go", Old: "\t\t\terr := out.Put(vals.FromGo(cur))\n\t\t\tif err != nil {\n\t\t\t\treturn err\n\t\t\t}\n\t\t\tnext = d.newZero()", New: "\t\t\terr := out.Put(cur)\n\t\t\tif err != nil {\n\t\t\t\treturn err\n\t\t\t}\n\t\t\tnext = d.newZero()", Fire: true, Quick: true},
			{Name: "gofn-returns-unnormalised", Rule: "GOFN-NORM", File: "pkg/eval/go_fn.go", Old: "\t\t\terr := out.Put(vals.FromGo(ret.Interface()))", New: "\t\t\terr := out.Put(ret.Interface())", Fire: true},
			{Name: "revert-fix-pow-zero", Rule: "EXACT-ZERO", File: "pkg/mods/math/math.go", Old: "\t\t\tif base.Sign() == 0 {\n\t\t\t\t// A negative power of exact zero is a division by exact zero.\n\t\t\t\treturn nil, eval.ErrDivideByZero\n\t\t\t}\n", New: "", Fire: true, Quick: true},
			{Name: "rem-drop-zero-check", Rule: "EXACT-ZERO", File: "pkg/eval/builtin_fn_num.go", Old: "\tif b == 0 {\n\t\treturn 0, ErrDivideByZero\n\t}\n\tif a, ok := a.(int); ok {", New: "\tif a, ok := a.(int); ok {", Fire: true},
			{Name: "div-zero-dividend-checked-only-with-divisors", Rule: "EXACT-ZERO", File: "pkg/eval/builtin_fn_num.go", Old: "\tif rawNums[0] == 0 {\n\t\tif len(rawNums) == 1 {", New: "\tif rawNums[0] == 0 && len(rawNums) > 1 {\n\t\tif len(rawNums) == 1 {", Fire: true, Want: "div"},
			{Name: "div-drop-divisor-loop", Rule: "EXACT-ZERO", File: "pkg/eval/builtin_fn_num.go", Old: "\tfor _, num := range rawNums[1:] {\n\t\tif num == 0 {\n\t\t\treturn nil, ErrDivideByZero\n\t\t}\n\t}\n\tif rawNums[0] == 0 {", New: "\tif rawNums[0] == 0 {", Fire: true, Want: "div"},
			{Name: "benign-div-names-the-dividend", Rule: "EXACT-ZERO", File: "pkg/eval/builtin_fn_num.go", Old: "\tif rawNums[0] == 0 {\n\t\tif len(rawNums) == 1 {", New: "\tdividend := rawNums[0]\n\tif dividend == 0 {\n\t\tif len(rawNums) == 1 {", Fire: false},
		},
	})
}

// ---------- C08 ----------

type ehInfo struct {
	hash, equal *ssa.Function
}

// recvFields returns the receiver fields a method reads, whether it hashes
// or compares the receiver as a whole, and whether it uses its address.
func recvUse(fn *ssa.Function) (fields map[string]bool, whole bool, address bool) {
	fields = map[string]bool{}
	if len(fn.Params) == 0 {
		return
	}
	recv := fn.Params[0]
	isRecv := func(v ssa.Value) bool {
		if v == ssa.Value(recv) {
			return true
		}
		// spilled value receiver: load of the local copy
		if addr, ok := core.IsLoad(v); ok {
			if cell, ok := addr.(*ssa.Alloc); ok {
				for _, ref := range *cell.Referrers() {
					if st, ok := ref.(*ssa.Store); ok && st.Addr == cell && st.Val == ssa.Value(recv) {
						return true
					}
				}
			}
		}
		return false
	}
	isRecvCell := func(v ssa.Value) bool {
		if cell, ok := v.(*ssa.Alloc); ok {
			for _, ref := range *cell.Referrers() {
				if st, ok := ref.(*ssa.Store); ok && st.Addr == cell && st.Val == ssa.Value(recv) {
					return true
				}
			}
		}
		return false
	}
	core.Instrs(fn, func(ins ssa.Instruction) {
		switch x := ins.(type) {
		case *ssa.FieldAddr:
			if isRecv(x.X) || isRecvCell(x.X) {
				_, f := core.FieldName(x)
				fields[f] = true
			}
		case *ssa.Field:
			if isRecv(x.X) {
				_, f := core.FieldOfValue(x)
				fields[f] = true
			}
		case *ssa.MakeInterface:
			if isRecv(x.X) {
				// the whole receiver is compared / passed on
				for _, ref := range *x.Referrers() {
					if b, ok := ref.(*ssa.BinOp); ok && (b.Op == token.EQL || b.Op == token.NEQ) {
						whole = true
					}
					if c, ok := ref.(ssa.CallInstruction); ok {
						if callee := c.Common().StaticCallee(); callee != nil && callee.String() == "reflect.DeepEqual" {
							whole = true
						}
					}
				}
			}
		case *ssa.BinOp:
			if (x.Op == token.EQL || x.Op == token.NEQ) && (isRecv(x.X) || isRecv(x.Y)) {
				whole = true
			}
		case *ssa.Convert:
			// unsafe.Pointer(recv) or unsafe.Pointer(&recvcopy)
			if strings.HasSuffix(x.Type().String(), "unsafe.Pointer") && (isRecv(x.X) || isRecvCell(x.X)) {
				address = true
			}
		}
	})
	return
}

func runC08(p *core.Program, r *core.Report) {
	// EH-PAIR
	pairs := map[string]*ehInfo{}
	for _, fn := range p.RepoFns {
		if fn.Parent() != nil || fn.Signature.Recv() == nil || fn.Synthetic != "" {
			continue
		}
		tn := core.FnKey(fn)
		tn = tn[:strings.LastIndex(tn, ".")]
		sig := fn.Signature
		switch fn.Name() {
		case "Hash":
			if sig.Params().Len() == 0 && sig.Results().Len() == 1 && sig.Results().At(0).Type().String() == "uint32" {
				if pairs[tn] == nil {
					pairs[tn] = &ehInfo{}
				}
				pairs[tn].hash = fn
			}
		case "Equal":
			if sig.Params().Len() == 1 && !sig.Variadic() && sig.Results().Len() == 1 && sig.Results().At(0).Type().String() == "bool" {
				if pairs[tn] == nil {
					pairs[tn] = &ehInfo{}
				}
				pairs[tn].equal = fn
			}
		}
	}
	var names []string
	for n := range pairs {
		names = append(names, n)
	}
	sort.Strings(names)
	for _, n := range names {
		inf := pairs[n]
		construct := n + " Equal/Hash agreement"
		if inf.hash == nil {
			r.OK("EH-PAIR", construct, p.Pos(inf.equal.Pos()), "Equal without Hash: vals.Hash falls back to the constant 0, which is consistent with any equality")
			continue
		}
		if inf.equal == nil {
			r.Bad("EH-PAIR", construct, p.Pos(inf.hash.Pos()), "the type defines Hash but not Equal: vals.Equal falls back to reflect.DeepEqual, which can identify values that Hash distinguishes")
			continue
		}
		hf, hWhole, hAddr := recvUse(inf.hash)
		ef, eWhole, _ := recvUse(inf.equal)
		_, ptrRecv := inf.hash.Signature.Recv().Type().(*types.Pointer)
		_ = hWhole
		switch {
		case hAddr && ptrRecv:
			// identity hash: equality must be identity (pointer comparison of the receiver)
			if eWhole && len(ef) == 0 {
				r.OK("EH-PAIR", construct, p.Pos(inf.hash.Pos()), "address hash paired with pointer-identity equality")
			} else {
				r.Bad("EH-PAIR", construct, p.Pos(inf.hash.Pos()), "Hash hashes the receiver's address but Equal is structural: two equal values at different addresses hash differently")
			}
		case hAddr && !ptrRecv:
			r.Bad("EH-PAIR", construct, p.Pos(inf.hash.Pos()), "Hash mixes in the address of a value receiver's copy: equal values (even the same value) hash differently from call to call")
		case eWhole:
			r.OK("EH-PAIR", construct, p.Pos(inf.hash.Pos()), "Equal compares the whole value; Hash reads only its fields ["+joinKeys(hf)+"]")
		default:
			var extra []string
			for f := range hf {
				if !ef[f] {
					extra = append(extra, f)
				}
			}
			sort.Strings(extra)
			if len(extra) == 0 {
				r.OK("EH-PAIR", construct, p.Pos(inf.hash.Pos()), "fields hashed ["+joinKeys(hf)+"] are a subset of the fields compared ["+joinKeys(ef)+"]")
			} else {
				r.Bad("EH-PAIR", construct, p.Pos(inf.hash.Pos()), "Hash reads field(s) "+strings.Join(extra, ",")+" that Equal does not compare: two values that are eq can hash differently")
			}
		}
	}

	// EH-CASE
	hashFn := p.Func(pkgVals, "Hash")
	equalFn := p.Func(pkgVals, "Equal")
	hashMap := p.Func(pkgVals, "hashMap")
	hashFieldMap := p.Func(pkgVals, "hashFieldMap")
	if !r.Anchor("EH-CASE", "vals.Hash, vals.Equal, vals.hashMap, vals.hashFieldMap", hashFn != nil && equalFn != nil && hashMap != nil && hashFieldMap != nil) {
		return
	}
	// float64: argument of math.Float64bits is zero-normalised
	nbits := 0
	// the float case may live in a helper that vals.Hash calls
	hashFns := []*ssa.Function{hashFn}
	core.Instrs(hashFn, func(ins ssa.Instruction) {
		if c, ok := ins.(*ssa.Call); ok {
			if callee := c.Call.StaticCallee(); callee != nil && core.PkgPathOf(callee) == pkgVals && callee != hashFn && callee.Blocks != nil {
				hashFns = append(hashFns, callee)
			}
		}
	})
	for _, hashFn := range hashFns {
		core.Instrs(hashFn, func(ins ssa.Instruction) {
			c, ok := ins.(*ssa.Call)
			if !ok || c.Call.StaticCallee() == nil || c.Call.StaticCallee().String() != "math.Float64bits" {
				return
			}
			nbits++
			arg := c.Call.Args[0]
			norm := false
			switch x := arg.(type) {
			case *ssa.Phi:
				// one edge is the constant 0 coming from the `v == 0` true edge
				for i, e := range x.Edges {
					if k, ok := e.(*ssa.Const); ok && k.Value != nil && k.Float64() == 0 && !strings.HasPrefix(k.Value.String(), "-") {
						pred := x.Block().Preds[i]
						// pred (or its dominator) is the true edge of v == 0
						for _, b := range hashFn.Blocks {
							if len(b.Instrs) == 0 {
								continue
							}
							iff, ok := b.Instrs[len(b.Instrs)-1].(*ssa.If)
							if !ok {
								continue
							}
							cmp, ok := iff.Cond.(*ssa.BinOp)
							if !ok || cmp.Op != token.EQL {
								continue
							}
							if kk, ok := cmp.Y.(*ssa.Const); ok && kk.Value != nil && kk.Float64() == 0 {
								if (b.Succs[0] == pred || b.Succs[0].Dominates(pred)) || (b == pred && b.Succs[0] == x.Block()) {
									norm = true
								}
							}
						}
					}
				}
			case *ssa.BinOp:
				if x.Op == token.ADD {
					if k, ok := x.Y.(*ssa.Const); ok && k.Value != nil && k.Float64() == 0 {
						norm = true // v + 0 maps -0 to +0
					}
				}
			}
			if norm {
				r.OK("EH-CASE", "vals.Hash float64: sign of zero normalised before Float64bits", p.InsPos(ins), "the bit pattern is taken of a value in which -0 has been replaced by +0")
			} else {
				r.Bad("EH-CASE", "vals.Hash float64: sign of zero normalised before Float64bits", p.InsPos(ins), "vals.Equal uses ==, which identifies +0.0 and -0.0, but their bit patterns (and so their hashes) differ: a map can hold both as distinct keys / miss one of them")
			}
		})
	}
	r.Anchor("EH-CASE", "math.Float64bits in vals.Hash", nbits >= 1)

	// float64, NaN: the hash is the bit pattern, and NaNs produced by
	// different operations have different bit patterns. That agrees with eq
	// only as long as eq compares floats with IEEE ==, under which no NaN
	// equals anything. If vals.Equal hands a float to some other comparison
	// (e.g. one that treats all NaNs as equal, as compare does), the hash has
	// to map every NaN to one value first.
	customFloatEq := ""
	var floatEqPos ssa.Instruction
	core.Instrs(equalFn, func(ins ssa.Instruction) {
		c, ok := ins.(*ssa.Call)
		if !ok {
			return
		}
		if _, isB := c.Call.Value.(*ssa.Builtin); isB {
			return
		}
		for _, a := range c.Call.Args {
			v := a
			if mi, ok := v.(*ssa.MakeInterface); ok {
				v = mi.X
			}
			if b, ok := v.Type().Underlying().(*types.Basic); ok && b.Kind() == types.Float64 {
				name := "a function value"
				if callee := c.Call.StaticCallee(); callee != nil {
					name = core.FnKey(callee)
				}
				customFloatEq, floatEqPos = name, ins
			}
		}
	})
	nanNormalised := false
	for _, hf := range hashFns {
		core.Instrs(hf, func(ins ssa.Instruction) {
			switch x := ins.(type) {
			case *ssa.Call:
				if callee := x.Call.StaticCallee(); callee != nil && callee.String() == "math.IsNaN" {
					nanNormalised = true
				}
			case *ssa.BinOp:
				if (x.Op == token.NEQ || x.Op == token.EQL) && x.X == x.Y {
					if b, ok := x.X.Type().Underlying().(*types.Basic); ok && b.Kind() == types.Float64 {
						nanNormalised = true // v != v
					}
				}
			}
		})
	}
	switch {
	case customFloatEq == "":
		r.OK("EH-CASE", "vals.Equal compares floats with ==, or vals.Hash maps all NaNs to one hash", p.Pos(equalFn.Pos()), "no float is handed to another comparison inside vals.Equal: IEEE == equates no NaN, so differing NaN bit patterns never hash eq values apart")
	case nanNormalised:
		r.OK("EH-CASE", "vals.Equal compares floats with ==, or vals.Hash maps all NaNs to one hash", p.InsPos(floatEqPos), "vals.Equal uses "+customFloatEq+" for floats and vals.Hash tests for NaN before taking the bit pattern")
	default:
		r.Bad("EH-CASE", "vals.Equal compares floats with ==, or vals.Hash maps all NaNs to one hash", p.InsPos(floatEqPos), "vals.Equal compares floats through "+customFloatEq+" instead of ==, but vals.Hash still hashes the raw bit pattern without a NaN case: if that comparison equates NaNs (as the ordering functions do), NaNs with different bit patterns (num NaN vs. Inf-Inf) are eq and hash differently - a map misses or duplicates the key")
	}

	// map hashers: commutative accumulation, same operator / init / per-entry function
	type accInfo struct {
		op     token.Token
		init   string
		entry  string
		ok     bool
		detail string
		pos    string
	}
	analyse := func(fn *ssa.Function) accInfo {
		inf := accInfo{pos: p.Pos(fn.Pos())}
		core.Instrs(fn, func(ins ssa.Instruction) {
			phi, ok := ins.(*ssa.Phi)
			if !ok || phi.Type().String() != "uint32" {
				return
			}
			for _, e := range phi.Edges {
				switch x := e.(type) {
				case *ssa.Const:
					inf.init = x.Value.String()
				case *ssa.BinOp:
					var other ssa.Value
					if x.X == ssa.Value(phi) {
						other = x.Y
					} else if x.Y == ssa.Value(phi) {
						other = x.X
					}
					if other == nil {
						continue
					}
					inf.op = x.Op
					if c, ok := other.(*ssa.Call); ok && c.Call.StaticCallee() != nil {
						inf.entry = c.Call.StaticCallee().String()
						// must not depend on the accumulator
						dep := false
						for _, a := range c.Call.Args {
							if a == ssa.Value(phi) {
								dep = true
							}
						}
						inf.ok = !dep && (x.Op == token.ADD || x.Op == token.XOR)
					}
				case *ssa.Call:
					// h = combine(h, ...): order dependent
					for _, a := range x.Call.Args {
						if a == ssa.Value(phi) {
							inf.op = token.ILLEGAL
							inf.detail = "the accumulator is fed through " + x.Call.Value.Name() + ", which is order-dependent"
						}
					}
				}
			}
		})
		return inf
	}
	hm, hf := analyse(hashMap), analyse(hashFieldMap)
	for name, inf := range map[string]accInfo{"vals.hashMap": hm, "vals.hashFieldMap": hf} {
		if inf.ok {
			r.OK("EH-CASE", name+" combines entries commutatively", inf.pos, "h "+inf.op.String()+"= "+inf.entry+"(...) with the entry hash independent of h")
		} else {
			d := inf.detail
			if d == "" {
				d = "the per-entry hashes are not combined with + or ^ of an accumulator-independent term"
			}
			r.Bad("EH-CASE", name+" combines entries commutatively", inf.pos, d+": maps that are eq but iterate in different orders (keys with equal hashes inserted in different order, or a field map vs a map) hash differently")
		}
	}
	if hm.ok && hf.ok {
		if hm.op == hf.op && hm.init == hf.init && hm.entry == hf.entry {
			r.OK("EH-CASE", "vals.hashMap and vals.hashFieldMap agree", hm.pos, "same operator, initial value and per-entry function: a field map hashes like the map it is eq to")
		} else {
			r.Bad("EH-CASE", "vals.hashMap and vals.hashFieldMap agree", hf.pos, "the two hashers differ in operator, initial value or per-entry function, but a field map can be eq to a map")
		}
	}

	// EH-ORDER: relative order of the interface cases
	order := func(fn *ssa.Function) []string {
		var out []string
		subj := fn.Params[0]
		core.Instrs(fn, func(ins ssa.Instruction) {
			if ta, ok := ins.(*ssa.TypeAssert); ok && ta.CommaOk && ta.X == ssa.Value(subj) {
				out = append(out, shortType(ta.AssertedType))
			}
		})
		return out
	}
	eo, ho := order(equalFn), order(hashFn)
	pos := func(list []string, t string) int {
		for i, x := range list {
			if x == t {
				return i
			}
		}
		return -1
	}
	// Equaler must not come before a structural case that Hash handles before Hasher, and vice versa
	okOrder := true
	detail := ""
	for _, t := range []string{"vals.List", "vals.Map", "vals.File", "string", "float64", "int", "*big.Int", "*big.Rat", "bool"} {
		ei, hi := pos(eo, t), pos(ho, t)
		eq, hs := pos(eo, "vals.Equaler"), pos(ho, "vals.Hasher")
		if ei < 0 || hi < 0 || eq < 0 || hs < 0 {
			continue
		}
		if (ei < eq) != (hi < hs) {
			// a value that is both T and Equaler/Hasher is compared by one regime and hashed by the other
			if _, isIface := typeByShortName(p, t).(*types.Interface); isIface {
				okOrder = false
				detail = t + " is tested before Equaler in vals.Equal but after Hasher in vals.Hash (or vice versa)"
			}
		}
	}
	if okOrder {
		r.OK("EH-ORDER", "vals.Equal / vals.Hash interface cases are ordered consistently", p.Pos(hashFn.Pos()), "Equal cases ["+strings.Join(eo, " ")+"], Hash cases ["+strings.Join(ho, " ")+"]")
	} else {
		r.Bad("EH-ORDER", "vals.Equal / vals.Hash interface cases are ordered consistently", p.Pos(hashFn.Pos()), detail)
	}
}

func typeByShortName(p *core.Program, short string) types.Type {
	if !strings.HasPrefix(short, "vals.") {
		return types.Typ[types.Int]
	}
	n := p.NamedType(pkgVals, strings.TrimPrefix(short, "vals."))
	if n == nil {
		return types.Typ[types.Int]
	}
	return n.Underlying()
}

func joinKeys(m map[string]bool) string {
	var ks []string
	for k := range m {
		ks = append(ks, k)
	}
	sort.Strings(ks)
	return strings.Join(ks, ",")
}

// ---------- C09 ----------

var numTypeNames = map[string]bool{"int": true, "*big.Int": true, "*big.Rat": true, "float64": true}

// numCaseSets returns, per switch subject, the set of number types asserted.
func numCaseSets(fn *ssa.Function) map[ssa.Value]map[string]bool {
	out := map[ssa.Value]map[string]bool{}
	core.Instrs(fn, func(ins ssa.Instruction) {
		ta, ok := ins.(*ssa.TypeAssert)
		if !ok || !ta.CommaOk {
			return
		}
		t := shortType(ta.AssertedType)
		if !numTypeNames[t] {
			return
		}
		if out[ta.X] == nil {
			out[ta.X] = map[string]bool{}
		}
		out[ta.X][t] = true
	})
	return out
}

func runC09(p *core.Program, r *core.Report) {
	cmpFn := p.Func(pkgVals, "Cmp")
	cmpTotal := p.Func(pkgVals, "CmpTotal")
	typeOf := p.Func(pkgVals, "typeOf")
	getNumType := p.Func(pkgVals, "getNumType")
	unify2 := p.Func(pkgVals, "UnifyNums2")
	if !r.Anchor("NUMSET", "vals.Cmp, CmpTotal, typeOf, getNumType, UnifyNums2", cmpFn != nil && cmpTotal != nil && typeOf != nil && getNumType != nil && unify2 != nil) {
		return
	}
	// the function that does the per-type comparison: the one reachable from
	// Cmp (in package vals, not through UnifyNums2) with the most number switches
	var cmpInner *ssa.Function
	var cmpReach []*ssa.Function
	{
		best := -1
		seenF := map[*ssa.Function]bool{}
		var walk func(f *ssa.Function)
		walk = func(f *ssa.Function) {
			if f == nil || seenF[f] || f.Blocks == nil || core.PkgPathOf(f) != pkgVals || f == unify2 {
				return
			}
			seenF[f] = true
			if f != getNumType && f != typeOf {
				cmpReach = append(cmpReach, f)
			}
			n := 0
			for _, s := range numCaseSets(f) {
				if len(s) > 1 {
					n++
				}
			}
			if n > best {
				best, cmpInner = n, f
			}
			core.Instrs(f, func(ins ssa.Instruction) {
				if c, ok := ins.(ssa.CallInstruction); ok {
					walk(c.Common().StaticCallee())
				}
			})
		}
		walk(cmpFn)
	}
	if !r.Anchor("NUMSET", "the per-type comparison function reachable from vals.Cmp", cmpInner != nil) {
		return
	}
	runTotalRecurse(p, r, cmpFn, cmpTotal)
	runStringBytes(p, r, cmpReach)
	full := "*big.Int,*big.Rat,float64,int"
	check := func(fn *ssa.Function, label string, want string, minGroups int, more ...*ssa.Function) {
		n := 0
		var keys []string
		bySig := map[string]bool{}
		for _, s := range numCaseSets(fn) {
			keys = append(keys, joinKeys(s))
		}
		// the comparison may be spread over helpers (compareNums): their
		// switches over at least three number representations count too
		for _, g := range more {
			if g == fn {
				continue
			}
			for _, s := range numCaseSets(g) {
				if len(s) >= 3 {
					keys = append(keys, joinKeys(s))
				}
			}
		}
		sort.Strings(keys)
		for _, k := range keys {
			// a switch that mentions a single number type among many other cases is not a number switch
			if !strings.Contains(k, ",") {
				continue
			}
			n++
			bySig[k] = true
		}
		construct := label + " number representations"
		bad := ""
		for k := range bySig {
			if k != want {
				bad = k
			}
		}
		switch {
		case n < minGroups:
			r.Bad("NUMSET", construct, p.Pos(fn.Pos()), "cannot find the type switch(es) over the number representations")
		case bad != "":
			r.Bad("NUMSET", construct, p.Pos(fn.Pos()), "a type switch over numbers handles {"+bad+"} instead of {"+want+"}: a number in the missing representation compares as 'uncomparable' or sorts as a different type under compare &total")
		default:
			r.OK("NUMSET", construct, p.Pos(fn.Pos()), itoa(n)+" number switch(es), each over exactly {"+want+"}")
		}
	}
	check(cmpInner, "the per-type comparison of vals.Cmp", full, 3, cmpReach...)
	check(getNumType, "vals.getNumType", full, 1)
	check(typeOf, "vals.typeOf", "*big.Int,*big.Rat,float64", 1)
	// typeOfInt is typeOf(0): the int representation joins the class
	initFn := p.Pkg(pkgVals).Func("init")
	okInit := false
	if initFn != nil {
		for _, f := range append([]*ssa.Function{initFn}, p.FnsInPkg(pkgVals)...) {
			if !strings.HasPrefix(f.Name(), "init") {
				continue
			}
			core.Instrs(f, func(ins ssa.Instruction) {
				if c, ok := ins.(*ssa.Call); ok && c.Call.StaticCallee() == typeOf {
					if mi, ok := c.Call.Args[0].(*ssa.MakeInterface); ok {
						if k, ok := mi.X.(*ssa.Const); ok && shortType(k.Type()) == "int" {
							for _, ref := range *c.Referrers() {
								if st, ok := ref.(*ssa.Store); ok {
									if g, ok := st.Addr.(*ssa.Global); ok && g.Name() == "typeOfInt" {
										okInit = true
									}
								}
							}
						}
					}
				}
			})
		}
	}
	if okInit {
		r.OK("NUMSET", "vals.typeOfInt is the type word of int", p.Pos(typeOf.Pos()), "typeOfInt = typeOf(0): int joins the class that *big.Int, *big.Rat and float64 are mapped to")
	} else {
		r.Bad("NUMSET", "vals.typeOfInt is the type word of int", p.Pos(typeOf.Pos()), "typeOfInt is not initialised from an int value: compare &total separates int from the other number representations")
	}

	// CMP-DOMAINS: does the comparison path convert exact operands to float64?
	lossy := ""
	var where ssa.Instruction
	seen := map[*ssa.Function]bool{}
	var visit func(f *ssa.Function, path string)
	visit = func(f *ssa.Function, path string) {
		if f == nil || seen[f] || f.Blocks == nil || core.PkgPathOf(f) != pkgVals {
			return
		}
		seen[f] = true
		core.Instrs(f, func(ins ssa.Instruction) {
			c, ok := ins.(ssa.CallInstruction)
			if !ok {
				if cv, ok := ins.(*ssa.Convert); ok && isIntType(cv.X.Type()) && cv.Type().String() == "float64" && f.Name() == "ConvertToFloat64" && lossy == "" {
					lossy, where = path+" -> float64(int)", ins
				}
				return
			}
			callee := c.Common().StaticCallee()
			if callee == nil {
				return
			}
			switch callee.String() {
			case "(*math/big.Rat).Float64", "(*math/big.Int).Float64", "(*math/big.Float).Float64":
				if lossy == "" {
					lossy, where = path+" -> "+callee.Name(), ins
				}
			}
			if f != cmpInner || callee.Name() == "UnifyNums2" {
				visit(callee, path+" -> "+callee.Name())
			}
		})
	}
	visit(cmpInner, "vals."+cmpInner.Name())
	// the unification may be called by another piece of the comparison than
	// the one that holds the switches
	for _, f := range cmpReach {
		core.Instrs(f, func(ins ssa.Instruction) {
			if c, ok := ins.(ssa.CallInstruction); ok && c.Common().StaticCallee() == unify2 && lossy == "" {
				visit(unify2, "vals."+f.Name()+" -> UnifyNums2")
			}
		})
	}
	construct := "vals.cmpInner -> UnifyNums2 -> ConvertToFloat64 orders exact numbers through float64"
	if lossy != "" {
		r.Bad("CMP-DOMAINS", construct, p.InsPos(where), "a mixed exact/inexact pair is compared after converting the exact operand to float64 ("+lossy+"), while exact pairs are compared exactly: compare 9007199254740993 (float64 9007199254740992) = 0 and compare (float64 9007199254740992) 9007199254740992 = 0 but compare 9007199254740993 9007199254740992 = 1, so compare is not transitive")
	} else {
		r.OK("CMP-DOMAINS", "vals.cmpInner compares mixed pairs without a lossy conversion", p.Pos(cmpInner.Pos()), "no conversion of an exact operand to float64 on the comparison path")
	}
}

// runTotalRecurse: the total comparison must also be total on list
// elements: whatever compares the elements of two lists on behalf of
// CmpTotal must be CmpTotal itself (passed as the recursion callback), not
// the partial comparison.
func runTotalRecurse(p *core.Program, r *core.Report, cmpFn, cmpTotal *ssa.Function) {
	const construct = "vals.CmpTotal compares list elements with the total comparison"
	// find, among the functions CmpTotal reaches in package vals, the call that compares two iterator elements
	type elemCmp struct {
		fn   *ssa.Function
		call *ssa.Call
	}
	var found []elemCmp
	seenF := map[*ssa.Function]bool{}
	var passed []ssa.Value // function values CmpTotal passes down
	var walk func(f *ssa.Function)
	walk = func(f *ssa.Function) {
		if f == nil || seenF[f] || f.Blocks == nil || core.PkgPathOf(f) != pkgVals {
			return
		}
		seenF[f] = true
		core.Instrs(f, func(ins ssa.Instruction) {
			c, ok := ins.(*ssa.Call)
			if !ok {
				return
			}
			// a call whose two arguments are both results of an iterator's Elem()
			if len(c.Call.Args) >= 2 {
				n := 0
				for _, a := range c.Call.Args {
					if ec, ok := a.(*ssa.Call); ok && ec.Call.IsInvoke() && ec.Call.Method.Name() == "Elem" {
						n++
					}
				}
				if n == 2 && c.Type().String() != "bool" {
					found = append(found, elemCmp{f, c})
				}
			}
			if f == cmpTotal {
				for _, a := range c.Call.Args {
					if fv := fnOfValue(a); fv != nil {
						passed = append(passed, fv)
					}
				}
			}
			if callee := c.Call.StaticCallee(); callee != nil && callee.Name() != "Equal" {
				walk(callee)
			}
		})
	}
	walk(cmpTotal)
	if len(found) == 0 {
		r.Bad("TOTAL-RECURSE", construct, p.Pos(cmpTotal.Pos()), "cannot find where list elements are compared on behalf of compare &total")
		return
	}
	for _, ec := range found {
		okRec := false
		detail := ""
		if callee := ec.call.Call.StaticCallee(); callee != nil {
			okRec = callee == cmpTotal
			detail = "list elements are compared with " + callee.Name() + " even when the comparison was started by CmpTotal"
		} else if prm, ok := ec.call.Call.Value.(*ssa.Parameter); ok {
			// a callback parameter: CmpTotal must pass itself
			for _, v := range passed {
				if v == ssa.Value(cmpTotal) {
					okRec = true
				}
			}
			detail = "CmpTotal does not pass itself as the recursion callback " + prm.Name()
		}
		if okRec {
			r.OK("TOTAL-RECURSE", construct, p.InsPos(ec.call), "the element comparison is CmpTotal itself (directly or as the recursion callback)")
		} else {
			r.Bad("TOTAL-RECURSE", construct, p.InsPos(ec.call), detail+": inside lists, compare &total stops grouping values by type and treats the first uncomparable pair as 'equal', so it is neither total nor transitive on lists")
		}
	}
}

// ---------- C10 ----------

func runC10(p *core.Program, r *core.Report) {
	order := builtinFn(p, "eval:order", pkgEval, "order")
	sorter := orderSorterName(p, order)
	less := p.Method(pkgEval, sorter, "Less")
	swap := p.Method(pkgEval, sorter, "Swap")
	if !r.Anchor("STABLE", "eval.order, (*eval.slice).Less, (*eval.slice).Swap", order != nil && less != nil && swap != nil) {
		return
	}
	stable := map[string]bool{"sort.Stable": true, "sort.SliceStable": true, "slices.SortStableFunc": true}
	unstable := map[string]bool{"sort.Sort": true, "sort.Slice": true, "slices.Sort": true, "slices.SortFunc": true, "sort.Strings": true, "sort.Ints": true}
	var sorts []ssa.Instruction
	var all []*ssa.Function
	var collect func(f *ssa.Function)
	collect = func(f *ssa.Function) {
		all = append(all, f)
		for _, a := range f.AnonFuncs {
			collect(a)
		}
	}
	collect(order)
	for _, f := range all {
		core.Instrs(f, func(ins ssa.Instruction) {
			c, ok := ins.(ssa.CallInstruction)
			if !ok {
				return
			}
			callee := c.Common().StaticCallee()
			if callee == nil {
				return
			}
			name := core.Origin(callee).String()
			if i := strings.Index(name, "["); i >= 0 {
				name = name[:i]
			}
			switch {
			case stable[name]:
				sorts = append(sorts, ins)
				r.OK("STABLE", "eval.order sorts with "+name, p.InsPos(ins), "stable sort")
			case unstable[name]:
				sorts = append(sorts, ins)
				r.Bad("STABLE", "eval.order sorts with "+name, p.InsPos(ins), "order uses an unstable sort: values that compare equal can change their relative order (only visible above the library's insertion-sort threshold of 12 elements)")
			}
		})
	}
	r.Anchor("STABLE", "sort calls in eval.order", len(sorts) >= 1)

	// LATCH (a): outputs dominated by the no-error edge of s.err tested after the sorts
	isErrLoad := func(v ssa.Value) bool {
		addr, ok := core.IsLoad(v)
		if !ok {
			return false
		}
		fa, ok := addr.(*ssa.FieldAddr)
		if !ok {
			return false
		}
		n, f := core.FieldName(fa)
		return n != nil && n.Obj().Name() == sorter && (f == "err" || fa.Type().(*types.Pointer).Elem().String() == "error")
	}
	nput := 0
	core.Instrs(order, func(ins ssa.Instruction) {
		c, ok := ins.(*ssa.Call)
		if !ok {
			return
		}
		// an output: out.Put(v), or a call of a helper of the package that
		// does the Puts (putValues(out, values))
		isOutput := c.Call.IsInvoke() && c.Call.Method.Name() == "Put"
		if callee := c.Call.StaticCallee(); !isOutput && callee != nil && callee.Blocks != nil && core.PkgPathOf(callee) == pkgEval {
			takesOutput := false
			for _, a := range c.Call.Args {
				if strings.HasSuffix(a.Type().String(), "eval.ValueOutput") {
					takesOutput = true
				}
			}
			if takesOutput {
				core.Instrs(callee, func(i2 ssa.Instruction) {
					if c2, ok := i2.(*ssa.Call); ok && c2.Call.IsInvoke() && c2.Call.Method.Name() == "Put" {
						isOutput = true
					}
				})
			}
		}
		if !isOutput {
			return
		}
		nput++
		okLatch := false
		for _, b := range order.Blocks {
			if len(b.Instrs) == 0 {
				continue
			}
			iff, ok := b.Instrs[len(b.Instrs)-1].(*ssa.If)
			if !ok {
				continue
			}
			cmp, ok := iff.Cond.(*ssa.BinOp)
			if !ok || !isErrLoad(cmp.X) {
				continue
			}
			edge := core.EdgeTo(b, ins.Block())
			if !((cmp.Op == token.NEQ && edge == 1) || (cmp.Op == token.EQL && edge == 0)) {
				continue
			}
			// the test comes after every sort
			after := true
			for _, s := range sorts {
				if s.Parent() == order && !core.Precedes(s, cmp) && reachesIns(cmp, s) {
					after = false
				}
			}
			if after {
				okLatch = true
			}
		}
		if okLatch {
			r.OK("LATCH", "eval.order outputs only after the comparator-error test", p.InsPos(ins), "every Put is dominated by the s.err == nil edge tested after sorting")
		} else {
			r.Bad("LATCH", "eval.order outputs only after the comparator-error test", p.InsPos(ins), "values are output although the comparator may have failed: order throws after having produced (partially sorted) output")
		}
	})
	r.Anchor("LATCH", "value outputs in eval.order", nput >= 1)
	// LATCH (b): every `return true` of Less that is not the early exit sets s.err
	nconst := 0
	// Less and the methods of the same receiver it hands the comparison to
	lessFns := []*ssa.Function{less}
	core.Instrs(less, func(ins ssa.Instruction) {
		if c, ok := ins.(*ssa.Call); ok {
			if callee := c.Call.StaticCallee(); callee != nil && callee != less && callee.Blocks != nil && core.PkgPathOf(callee) == pkgEval && len(c.Call.Args) > 0 && len(less.Params) > 0 && c.Call.Args[0] == ssa.Value(less.Params[0]) {
				if res := callee.Signature.Results(); res.Len() == 1 && isBoolType(res.At(0).Type()) {
					lessFns = append(lessFns, callee)
				}
			}
		}
	})
	for _, less := range lessFns {
		core.Instrs(less, func(ins ssa.Instruction) {
			ret, ok := ins.(*ssa.Return)
			if !ok || len(ret.Results) != 1 {
				return
			}
			k, ok := ret.Results[0].(*ssa.Const)
			if !ok || !constBool(k) {
				return
			}
			nconst++
			blk := ins.Block()
			sets := false
			for _, x := range blk.Instrs {
				if st, ok := x.(*ssa.Store); ok {
					if fa, ok := st.Addr.(*ssa.FieldAddr); ok {
						if _, f := core.FieldName(fa); f == "err" {
							sets = true
						}
					}
				}
			}
			early := false
			for _, b := range less.Blocks {
				if len(b.Instrs) == 0 {
					continue
				}
				if iff, ok := b.Instrs[len(b.Instrs)-1].(*ssa.If); ok {
					if cmp, ok := iff.Cond.(*ssa.BinOp); ok && cmp.Op == token.NEQ && isErrLoad(cmp.X) && core.EdgeTo(b, blk) == 0 {
						early = true
					}
				}
			}
			construct := "(*eval.slice).Less failing exit latches the error"
			switch {
			case orderingSaysLess(p, less, blk):
				// `case vals.CmpLess: return true`: an answer, not a failure
				nconst--
				r.OK("LATCH", "(*eval.slice).Less returns true for a value the comparison called less", p.InsPos(ins), "the return is on the equal edge of a test of the ordering against a constant other than CmpUncomparable")
			case sets:
				r.OK("LATCH", construct+" #"+itoa(nconst), p.InsPos(ins), "s.err is set in the block that returns true")
			case early:
				r.OK("LATCH", construct+" (early exit)", p.InsPos(ins), "the error is already latched")
			default:
				r.Bad("LATCH", construct+" #"+itoa(nconst), p.InsPos(ins), "a failing comparison returns without recording the error: order outputs a result instead of throwing")
			}
		})
	}
	r.Anchor("LATCH", "constant-true returns in Less", nconst >= 3)

	// SWAP-PAIR
	vs, ks := 0, 0
	core.Instrs(swap, func(ins ssa.Instruction) {
		st, ok := ins.(*ssa.Store)
		if !ok {
			return
		}
		ia, ok := st.Addr.(*ssa.IndexAddr)
		if !ok {
			return
		}
		switch {
		case strings.HasSuffix(exprKey(ia.X), ".values"):
			vs++
		case strings.HasSuffix(exprKey(ia.X), ".keys"):
			ks++
		}
	})
	if vs >= 2 && ks >= 2 {
		r.OK("SWAP-PAIR", "(*eval.slice).Swap exchanges values and keys together", p.Pos(swap.Pos()), "two stores into values and two into keys")
	} else {
		r.Bad("SWAP-PAIR", "(*eval.slice).Swap exchanges values and keys together", p.Pos(swap.Pos()), "Swap does not exchange the keys along with the values: with &key the values are sorted by the keys of other values")
	}
}

// ---------- C11 ----------

func isBigPtr(t types.Type) bool {
	s := t.String()
	return s == "*math/big.Int" || s == "*math/big.Rat"
}

func runC11(p *core.Program, r *core.Report) {
	// NORM
	n := 0
	for _, fn := range p.RepoFns {
		pp := core.PkgPathOf(fn)
		if !(pp == pkgEval || strings.HasPrefix(pp, "src.elv.sh/pkg/mods/")) {
			continue
		}
		core.Instrs(fn, func(ins ssa.Instruction) {
			mi, ok := ins.(*ssa.MakeInterface)
			if !ok || !isBigPtr(mi.X.Type()) {
				return
			}
			for _, ref := range *mi.Referrers() {
				bad := ""
				switch u := ref.(type) {
				case *ssa.Call:
					if u.Call.IsInvoke() && u.Call.Method.Name() == "Put" {
						bad = "written to the value output"
					}
					if u.Call.IsInvoke() && (u.Call.Method.Name() == "Conj" || u.Call.Method.Name() == "Assoc") {
						bad = "stored in a list/map"
					}
				case *ssa.Store:
					// element of the variadic slice of vals.MakeList
					if ia, ok := u.Addr.(*ssa.IndexAddr); ok {
						for _, r2 := range *ia.X.Referrers() {
							if sl, ok := r2.(*ssa.Slice); ok {
								for _, r3 := range *sl.Referrers() {
									if c, ok := r3.(*ssa.Call); ok && c.Call.StaticCallee() != nil && c.Call.StaticCallee().Name() == "MakeList" {
										bad = "stored in a list"
									}
								}
							}
						}
					}
				}
				if bad != "" {
					n++
					r.Bad("NORM", core.FnKey(fn)+" un-normalised "+shortType(mi.X.Type())+" "+bad, p.InsPos(ref), "a "+shortType(mi.X.Type())+" is "+bad+" without vals.FromGo/NormalizeBig*: a small integer stays a big integer (or an integral rational stays a rational), which is not the canonical form and is not eq to the same number produced elsewhere")
				}
			}
		})
	}
	// count the normalising sites as discharged obligations
	for _, fn := range p.RepoFns {
		pp := core.PkgPathOf(fn)
		if !(pp == pkgEval || strings.HasPrefix(pp, "src.elv.sh/pkg/mods/")) {
			continue
		}
		core.Instrs(fn, func(ins ssa.Instruction) {
			c, ok := ins.(*ssa.Call)
			if !ok || c.Call.StaticCallee() == nil || core.PkgPathOf(c.Call.StaticCallee()) != pkgVals {
				return
			}
			switch c.Call.StaticCallee().Name() {
			case "FromGo", "NormalizeBigInt", "NormalizeBigRat":
				r.OK("NORM", core.FnKey(fn)+" normalises with "+c.Call.StaticCallee().Name(), p.InsPos(ins), "big number passes a normalising function before becoming an Elvish value")
			}
		})
	}
	// GOFN-NORM
	gocall := p.Method(pkgEval, "goFn", "Call")
	if r.Anchor("GOFN-NORM", "(*eval.goFn).Call", gocall != nil) {
		nput := 0
		// the output of return values may sit in a helper that Call uses
		putFns := []*ssa.Function{gocall}
		core.Instrs(gocall, func(ins ssa.Instruction) {
			if c, ok := ins.(*ssa.Call); ok {
				if callee := c.Call.StaticCallee(); callee != nil && core.PkgPathOf(callee) == pkgEval && callee.Blocks != nil && callee != gocall {
					for _, prm := range callee.Params {
						if strings.HasSuffix(prm.Type().String(), "eval.ValueOutput") {
							putFns = append(putFns, callee)
						}
					}
				}
			}
		})
		for _, gocall := range putFns {
			core.Instrs(gocall, func(ins ssa.Instruction) {
				c, ok := ins.(*ssa.Call)
				if !ok || !c.Call.IsInvoke() || c.Call.Method.Name() != "Put" {
					return
				}
				nput++
				arg := c.Call.Args[0]
				if fc, ok := arg.(*ssa.Call); ok && fc.Call.StaticCallee() != nil && fc.Call.StaticCallee().Name() == "FromGo" {
					r.OK("GOFN-NORM", "(*eval.goFn).Call converts return values with vals.FromGo #"+itoa(nput), p.InsPos(ins), "the value written is vals.FromGo(...)")
				} else {
					r.Bad("GOFN-NORM", "(*eval.goFn).Call converts return values with vals.FromGo #"+itoa(nput), p.InsPos(ins), "a Go builtin's return value is output without vals.FromGo: big numbers returned by arithmetic builtins are not brought to canonical form")
				}
			})
		}
		r.Anchor("GOFN-NORM", "value outputs in goFn.Call", nput >= 1)
	}
	// EXACT-ZERO
	e := newPanicEngine(p)
	e.run(r, "EXACT-ZERO", func(s sink) bool {
		return strings.HasPrefix(s.kind, "lib:(*math/big.") || s.kind == "lib:math/big.NewRat" || s.kind == "intdiv"
	})
}

// orderSorterName: the name of the sort.Interface implementation that order
// hands to the sort package (today "slice"), found from the call rather than
// by name so that renaming the type does not lose the anchor.
func orderSorterName(p *core.Program, order *ssa.Function) string {
	name := "slice"
	if order == nil {
		return name
	}
	seen := map[*ssa.Function]bool{}
	var scan func(fn *ssa.Function, depth int)
	scan = func(fn *ssa.Function, depth int) {
		if fn == nil || seen[fn] || fn.Blocks == nil || depth > 2 {
			return
		}
		seen[fn] = true
		core.Instrs(fn, func(ins ssa.Instruction) {
			c, ok := ins.(*ssa.Call)
			if !ok {
				return
			}
			callee := c.Call.StaticCallee()
			if callee == nil {
				return
			}
			if core.PkgPathOf(callee) == "sort" && len(c.Call.Args) == 1 {
				if mi, ok := c.Call.Args[0].(*ssa.MakeInterface); ok {
					t := mi.X.Type()
					if ptr, ok := t.(*types.Pointer); ok {
						t = ptr.Elem()
					}
					if n, ok := t.(*types.Named); ok && n.Obj().Pkg() != nil && n.Obj().Pkg().Path() == pkgEval {
						name = n.Obj().Name()
					}
				}
			}
			if core.PkgPathOf(callee) == pkgEval {
				scan(callee, depth+1)
			}
		})
	}
	scan(order, 0)
	return name
}

// orderingSaysLess: blk is entered over the equal edge of a comparison of a
// vals.Cmp / vals.CmpTotal result with an Ordering constant other than
// CmpUncomparable.
func orderingSaysLess(p *core.Program, fn *ssa.Function, blk *ssa.BasicBlock) bool {
	var unc int64 = -999
	if pk := p.ByPath[pkgVals]; pk != nil && pk.Types != nil {
		if c, ok := pk.Types.Scope().Lookup("CmpUncomparable").(*types.Const); ok {
			if v, exact := constant.Int64Val(c.Val()); exact {
				unc = v
			}
		}
	}
	if unc == -999 {
		return false
	}
	for _, b := range fn.Blocks {
		if len(b.Instrs) == 0 {
			continue
		}
		iff, ok := b.Instrs[len(b.Instrs)-1].(*ssa.If)
		if !ok {
			continue
		}
		cmp, ok := iff.Cond.(*ssa.BinOp)
		if !ok || cmp.Op != token.EQL {
			continue
		}
		call, ok := cmp.X.(*ssa.Call)
		k, isC := constInt(cmp.Y)
		if !ok || !isC {
			continue
		}
		callee := call.Call.StaticCallee()
		if callee == nil || core.PkgPathOf(callee) != pkgVals || (callee.Name() != "Cmp" && callee.Name() != "CmpTotal") {
			continue
		}
		if k != unc && core.EdgeTo(b, blk) == 0 {
			return true
		}
	}
	return false
}
