package rules

import (
	"go/token"
	"go/types"
	"sort"
	"strings"

	"golang.org/x/tools/go/ssa"

	"verif/sa/internal/core"
)

// resultIndexAudit: constant-index operations that are in range for a reason
// the length analysis cannot express. Key: construct.
var resultIndexAudit = map[string]string{}

// runConstIndex (C17 RESULT-INDEX): in the builtin commands and modules, an
// element access s[k] on a list of values handed back by the interpreter
// (vals.Collect of a user-supplied sequence, the captured output of a
// callback, ...) needs a proven bound on len(s) on every path: the number of
// elements is whatever the running program produces, and a belief about it
// derived from another measure of the same value (vals.Len counts the bytes of
// a string, Collect yields its codepoints) is not a bound.
// userLenSlice: v is the []any result of a repository function (vals.Collect,
// Frame.CaptureOutput, ...): a list whose length the running program decides.
func userLenSlice(v ssa.Value) string {
	if e, ok := v.(*ssa.Extract); ok {
		v = e.Tuple
	}
	c, ok := v.(*ssa.Call)
	if !ok {
		return ""
	}
	callee := c.Call.StaticCallee()
	if callee == nil || !strings.HasPrefix(core.PkgPathOf(callee), "src.elv.sh/") {
		return ""
	}
	res := callee.Signature.Results()
	if res.Len() == 0 {
		return ""
	}
	sl, ok := res.At(0).Type().Underlying().(*types.Slice)
	if !ok {
		return ""
	}
	if it, ok := sl.Elem().Underlying().(*types.Interface); !ok || !it.Empty() {
		return ""
	}
	return callee.Name()
}

func runConstIndex(p *core.Program, r *core.Report) {
	const rule = "RESULT-INDEX"
	inScope := func(f *ssa.Function) bool {
		pp := core.PkgPathOf(f)
		if core.IsTestPkgPath(pp) {
			return false
		}
		return pp == pkgEval || strings.HasPrefix(pp, "src.elv.sh/pkg/mods")
	}
	var fns []*ssa.Function
	for _, fn := range p.RepoFns {
		if inScope(fn) {
			fns = append(fns, fn)
		}
	}
	sort.Slice(fns, func(i, j int) bool { return fns[i].String() < fns[j].String() })
	fe := newFactEngine(p, map[*ssa.Function]string{})
	seen := map[string]bool{}
	n := 0
	for _, fn := range fns {
		fk := core.FnKey(fn)
		core.Instrs(fn, func(ins ssa.Instruction) {
			x, ok := ins.(*ssa.IndexAddr)
			if !ok {
				return
			}
			if _, isSlice := x.X.Type().Underlying().(*types.Slice); !isSlice {
				return
			}
			src := userLenSlice(x.X)
			if src == "" {
				return
			}
			n++
			construct := fk + " index " + addrDesc(x.X) + "[" + idxDesc(x.Index) + "]"
			if seen[construct] {
				construct += " (again)"
			}
			seen[construct] = true
			pos := p.InsPos(ins)
			ok2, why := indexSafe(fe, x.X, x.Index, "index", ins)
			switch {
			case ok2:
				r.OK(rule, construct, pos, why)
			case resultIndexAudit[construct] != "":
				r.Audit(rule, construct, pos, resultIndexAudit[construct])
			default:
				r.Bad(rule, construct, pos, "a list of values whose length the running program decides (result of "+src+") is indexed without a proven bound on its length ("+why+"): a runtime panic in a builtin kills the interpreter")
			}
		})
	}
	r.Count(rule+" element accesses on value lists returned by the interpreter", n)
}

// isEmptyIface: the static type is interface{} / any.
func isEmptyIface(t types.Type) bool {
	it, ok := t.Underlying().(*types.Interface)
	return ok && it.Empty()
}

// fromConcrete: the interface value was built from a value of a comparable
// concrete type (MakeInterface of a string, number, pointer, ...), so the
// comparison cannot meet two uncomparable operands.
// knownNil: at ins, v is known to be nil - control came over the nil edge of a
// comparison of v with nil (`case nil:` of a type switch).
func knownNil(v ssa.Value, ins ssa.Instruction) bool {
	fn := ins.Parent()
	for _, b := range fn.Blocks {
		if len(b.Instrs) == 0 {
			continue
		}
		iff, ok := b.Instrs[len(b.Instrs)-1].(*ssa.If)
		if !ok {
			continue
		}
		cmp, ok := iff.Cond.(*ssa.BinOp)
		if !ok || (cmp.Op != token.EQL && cmp.Op != token.NEQ) {
			continue
		}
		var other ssa.Value
		switch {
		case isNilConst(cmp.Y):
			other = cmp.X
		case isNilConst(cmp.X):
			other = cmp.Y
		default:
			continue
		}
		if other != v {
			continue
		}
		e := core.EdgeTo(b, ins.Block())
		if (cmp.Op == token.EQL && e == 0) || (cmp.Op == token.NEQ && e == 1) {
			return true
		}
	}
	return false
}

// recoversPanic: the function defers a closure that calls recover(), so a
// run-time panic raised in its body does not leave it.
func recoversPanic(fn *ssa.Function) bool {
	found := false
	core.Instrs(fn, func(ins ssa.Instruction) {
		d, ok := ins.(*ssa.Defer)
		if !ok {
			return
		}
		cf, ok := closureOf(d.Call.Value)
		if !ok {
			return
		}
		core.Instrs(cf, func(i2 ssa.Instruction) {
			if c, ok := i2.(ssa.CallInstruction); ok {
				if b, ok := c.Common().Value.(*ssa.Builtin); ok && b.Name() == "recover" {
					found = true
				}
			}
		})
	})
	return found
}

func fromConcrete(v ssa.Value) bool {
	mi, ok := v.(*ssa.MakeInterface)
	if !ok {
		return false
	}
	return types.Comparable(mi.X.Type())
}
