package rules

import (
	"go/constant"
	"go/token"
	"go/types"

	"golang.org/x/tools/go/ssa"

	"verif/sa/internal/core"
)

// lspIndexAudit: element accesses in pkg/lsp that are in range for a reason
// the length analysis cannot express. Key: construct.
var lspIndexAudit = map[string]string{}

// runLspIndex (C44 LSP-INDEX): the server has no recover, and everything it
// looks at - document text, the parse tree built from it, names found in it -
// comes from the client. Every element access s[k] with a constant k on a
// string or slice in pkg/lsp therefore needs a length bound proven on every
// path ("$" followed by nothing is a variable node with an empty name: name[0]
// on it ends the server).
func runLspIndex(p *core.Program, r *core.Report, fns []*ssa.Function) {
	const rule = "LSP-INDEX"
	fe := newFactEngine(p, map[*ssa.Function]string{})
	seen := map[string]bool{}
	n := 0
	for _, fn := range fns {
		fk := core.FnKey(fn)
		core.Instrs(fn, func(ins ssa.Instruction) {
			var base, idx ssa.Value
			switch x := ins.(type) {
			case *ssa.IndexAddr:
				if _, isSlice := x.X.Type().Underlying().(*types.Slice); isSlice {
					base, idx = x.X, x.Index
				}
			case *ssa.Lookup:
				if isStringType(x.X.Type()) {
					base, idx = x.X, x.Index
				}
			case *ssa.Index:
				if isStringType(x.X.Type()) {
					base, idx = x.X, x.Index
				}
			}
			if base == nil {
				return
			}
			if _, isConst := constInt(idx); !isConst {
				return
			}
			n++
			construct := fk + " index " + addrDesc(base) + "[" + idxDesc(idx) + "]"
			if seen[construct] {
				construct += " (again)"
			}
			seen[construct] = true
			ok, why := indexSafe(fe, base, idx, "index", ins)
			switch {
			case ok:
				r.OK(rule, construct, p.InsPos(ins), why)
			case lspIndexAudit[construct] != "":
				r.Audit(rule, construct, p.InsPos(ins), lspIndexAudit[construct])
			default:
				r.Bad(rule, construct, p.InsPos(ins), "a string or list that comes from the client's document is indexed at a fixed position without a proven length ("+why+"): an unusual document (a `$` with no name after it) ends the server with an index-out-of-range panic")
			}
		})
	}
	r.Count(rule+" constant-index element accesses in pkg/lsp", n)
}

// runDiagOrder (C44 DIAG-ORDER): publishDiagnostics notifications carry no
// version, so what the client shows is whatever arrived last. When the server
// publishes from a goroutine started per update, the notification is sent
// with a mutex held and only past a comparison with a number captured from
// the update that started the goroutine (its sequence number): diagnostics of
// an older text are dropped once those of a newer one are out. Publishing
// synchronously from the handler needs neither.
func runDiagOrder(p *core.Program, r *core.Report, fns []*ssa.Function) {
	const rule = "DIAG-ORDER"
	n := 0
	for _, fn := range fns {
		core.Instrs(fn, func(ins ssa.Instruction) {
			c, ok := ins.(*ssa.Call)
			if !ok || len(c.Call.Args) < 3 {
				return
			}
			callee := c.Call.StaticCallee()
			if callee == nil || callee.Name() != "Notify" || core.PkgPathOf(callee) != pkgRPC {
				return
			}
			isPublish := false
			for _, a := range c.Call.Args {
				if k, ok := a.(*ssa.Const); ok && k.Value != nil && k.Value.Kind() == constant.String && constant.StringVal(k.Value) == "textDocument/publishDiagnostics" {
					isPublish = true
				}
			}
			if !isPublish {
				return
			}
			n++
			construct := core.FnKey(fn) + " publishes diagnostics in the order of the updates"
			// is the publishing function started with go?
			async := false
			for _, g := range fns {
				core.Instrs(g, func(x ssa.Instruction) {
					if gi, ok := x.(*ssa.Go); ok {
						if cf, ok := closureOf(gi.Call.Value); ok && cf == fn {
							async = true
						}
						if gi.Call.StaticCallee() == fn {
							async = true
						}
					}
				})
			}
			if !async {
				r.OK(rule, construct, p.InsPos(ins), "published synchronously by the handler of the update")
				return
			}
			locked := anyMutexHeldAt(ins)
			// a comparison of integers, one of which comes from outside the
			// goroutine (captured variable or parameter), decides whether the
			// notification is sent
			versioned := false
			for _, b := range fn.Blocks {
				if len(b.Instrs) == 0 {
					continue
				}
				iff, ok := b.Instrs[len(b.Instrs)-1].(*ssa.If)
				if !ok {
					continue
				}
				cmp, ok := iff.Cond.(*ssa.BinOp)
				if !ok || !isIntType(cmp.X.Type()) {
					continue
				}
				switch cmp.Op {
				case token.LSS, token.LEQ, token.GTR, token.GEQ, token.EQL, token.NEQ:
				default:
					continue
				}
				fromOutside := func(v ssa.Value) bool {
					v = throughCell(v)
					switch x := v.(type) {
					case *ssa.FreeVar, *ssa.Parameter:
						return true
					case *ssa.UnOp:
						if x.Op == token.MUL {
							_, isFree := x.X.(*ssa.FreeVar)
							return isFree
						}
					}
					return false
				}
				if !(fromOutside(cmp.X) || fromOutside(cmp.Y)) {
					continue
				}
				// one edge reaches the publish, the other does not
				r0, r1 := blockReaches(b.Succs[0], c.Block()) || b.Succs[0] == c.Block(), blockReaches(b.Succs[1], c.Block()) || b.Succs[1] == c.Block()
				if r0 != r1 {
					versioned = true
				}
			}
			switch {
			case locked && versioned:
				r.OK(rule, construct, p.InsPos(ins), "sent with a mutex held, past a comparison with the sequence number of the update that started the goroutine")
			case !locked:
				r.Bad(rule, construct, p.InsPos(ins), "diagnostics are published from a goroutine per update with nothing ordering them: after a burst of changes the last notification the client receives can be the one of an older text")
			default:
				r.Bad(rule, construct, p.InsPos(ins), "the goroutines are serialized but nothing drops the diagnostics of an update older than the one already published: they still arrive in scheduler order")
			}
		})
	}
	r.Count(rule+" publishDiagnostics notifications", n)
}
