package rules

import (
	"go/constant"
	"go/token"
	"go/types"
	"strings"

	"golang.org/x/tools/go/ssa"

	"verif/sa/internal/core"
)

func hasLenBound(f factSet) bool {
	for k := range f {
		if strings.HasPrefix(k, "ltlen:") || strings.HasPrefix(k, "lelen:") {
			return true
		}
	}
	return false
}

// runOwnPair: bookkeeping of form-owned ports in redirections.
//
//	(a) after fop.close(port) through a slot, the slot's ownership record is
//	    reset on every path before the function returns - otherwise the form's
//	    epilogue closes whatever port is installed in that fd next (a port
//	    that belongs to someone else);
//	(b) an ownership record is only cleared / overwritten through the slot it
//	    was just closed through - otherwise a file that is still open loses its
//	    owner and is never closed.
func runOwnPair(p *core.Program, r *core.Report, rule string) {
	exec := p.Method(pkgEval, "redirOp", "exec")
	if !r.Anchor(rule, "(*eval.redirOp).exec", exec != nil) {
		return
	}
	fns := redirFamily(p)
	slotOf := func(addr ssa.Value) ssa.Value {
		// whole slot address, or the slot behind a field address
		if fa, ok := addr.(*ssa.FieldAddr); ok {
			if nT, _ := core.FieldName(fa); nT != nil && nT.Obj().Name() == "formOwnedPort" {
				addr = fa.X
			}
		}
		return resolveAddr(addr)
	}
	isFopAddr := func(addr ssa.Value) bool {
		if fa, ok := addr.(*ssa.FieldAddr); ok {
			nT, _ := core.FieldName(fa)
			if isLocalLiteral(fa.X) {
				return false
			}
			return nT != nil && nT.Obj().Name() == "formOwnedPort"
		}
		pt, ok := addr.Type().(*types.Pointer)
		if !ok {
			return false
		}
		n, ok := pt.Elem().(*types.Named)
		return ok && n.Obj().Name() == "formOwnedPort" && !isLocalLiteral(addr)
	}
	nclose, nreset := 0, 0
	for _, fn := range fns {
		var closes []*ssa.Call
		core.Instrs(fn, func(ins ssa.Instruction) {
			if c, ok := ins.(*ssa.Call); ok {
				if callee := c.Call.StaticCallee(); callee != nil && core.IsFunc(callee, pkgEval, "formOwnedPort", "close") {
					closes = append(closes, c)
				}
			}
		})
		closeSlot := func(c *ssa.Call) ssa.Value {
			recv := c.Call.Args[0]
			if addr, ok := core.IsLoad(recv); ok {
				return resolveAddr(addr)
			}
			return resolveAddr(recv) // pointer receiver
		}
		// (a)
		for _, c := range closes {
			nclose++
			slot := closeSlot(c)
			isReset := func(x ssa.Instruction) bool {
				st, ok := x.(*ssa.Store)
				return ok && isFopAddr(st.Addr) && slotOf(st.Addr) == slot
			}
			ok, exit := core.MustPass(c, isReset, nil)
			construct := core.FnKey(fn) + " ownership record reset after closing the old port"
			if ok {
				r.OK(rule, construct, p.InsPos(c), "every path from fop.close to a return stores a new ownership record into the same slot")
			} else {
				r.Bad(rule, construct, p.InsPos(exit), "the old port is closed but its ownership record stays set: when another port is then installed in that fd (n>&m), the form's epilogue closes that other port's file although it belongs to the enclosing form; later writes to it fail with 'file already closed'")
			}
		}
		// (c) a port that a redirection replaces is closed only after it was
		// compared with the other ports of the table: after n>&m two fds use
		// one port, and closing it under the other fd's feet loses its data
		// ("echo foo >b 2>&1 >&2": write b: file already closed)
		for _, c := range closes {
			isPortEq := func(v ssa.Value) bool {
				cmp, ok := v.(*ssa.BinOp)
				if !ok || cmp.Op != token.EQL {
					return false
				}
				isPort := func(t types.Type) bool {
					ptr, ok := t.(*types.Pointer)
					return ok && core.IsNamed(ptr.Elem(), pkgEval, "Port")
				}
				return isPort(cmp.X.Type()) && isPort(cmp.Y.Type())
			}
			compared := false
			core.Instrs(fn, func(x ssa.Instruction) {
				if b, ok := x.(*ssa.BinOp); ok && isPortEq(b) && b.Parent() == c.Parent() && blockReaches(b.Block(), c.Block()) && !dominatedByCondEdge(c.Parent(), isPortEq, true, c.Block()) {
					compared = true
				}
			})
			construct := core.FnKey(fn) + " closes the replaced port only when no other fd shares it"
			if compared {
				r.OK(rule, construct, p.InsPos(c), "the close is reached only past a comparison of the port with the ports of the other fds, on its unequal side")
			} else {
				r.Bad(rule, construct, p.InsPos(c), "the old port of the destination fd is closed without looking for another fd that uses the same port (after n>&m): `echo foo >b 2>&1 >&2` fails with 'file already closed', and a pipe shared that way loses its data")
			}
		}
		// (b)
		core.Instrs(fn, func(ins ssa.Instruction) {
			st, ok := ins.(*ssa.Store)
			if !ok || !isFopAddr(st.Addr) {
				return
			}
			// stores that only set ownership (constant true) are fine
			if c, ok := st.Val.(*ssa.Const); ok && c.Value != nil && c.Value.Kind() == constant.Bool && constant.BoolVal(c.Value) {
				return
			}
			nreset++
			slot := slotOf(st.Addr)
			okPre := false
			for _, c := range closes {
				if closeSlot(c) == slot && core.Precedes(c, st) {
					okPre = true
				}
			}
			construct := core.FnKey(fn) + " ownership record cleared only after closing through the same slot"
			// handing the ownership over: the record of one slot is moved to
			// the slot of another fd that uses the same port
			// (*growAccess(fops, i) = *dstFop; *dstFop = formOwnedPort{}),
			// where the two ports were found to be the same
			movedFrom := func(v ssa.Value) ssa.Value {
				if addr, isLd := core.IsLoad(v); isLd && isFopAddr(addr) {
					return slotOf(addr)
				}
				return nil
			}
			samePortGuard := func(at ssa.Instruction) bool {
				isPortCmp := func(v ssa.Value, op token.Token) bool {
					cmp, ok := v.(*ssa.BinOp)
					if !ok || cmp.Op != op {
						return false
					}
					isPort := func(t types.Type) bool {
						ptr, ok := t.(*types.Pointer)
						return ok && core.IsNamed(ptr.Elem(), pkgEval, "Port")
					}
					return isPort(cmp.X.Type()) && isPort(cmp.Y.Type())
				}
				isPortEq := func(v ssa.Value) bool { return isPortCmp(v, token.EQL) }
				isPortNeq := func(v ssa.Value) bool { return isPortCmp(v, token.NEQ) }
				return dominatedByCondEdge(at.Parent(), isPortEq, true, at.Block()) || dominatedByCondEdge(at.Parent(), isPortNeq, false, at.Block())
			}
			if src := movedFrom(st.Val); src != nil && src != slot && samePortGuard(st) {
				// (d) only an owner has something to hand over: the record
				// that is overwritten may be the one that owns the port
				if movedRecordOwns(st, src, slotOf) {
					r.OK(rule, construct+" (record moved to the fd that shares the port)", p.InsPos(ins), "the record is copied from another slot on the equal edge of a comparison of the two ports, and only when it owns a file or a channel")
				} else {
					r.Bad(rule, construct+" (record moved to the fd that shares the port)", p.InsPos(ins), "the ownership record of the fd being replaced is copied over the record of the fd that shares its port without a test that it owns anything: when the replaced fd merely shared the port (`echo foo >out 3>&1 3>&-`) the owner's record is wiped and the file is never closed (one descriptor leaks per evaluation)")
				}
				return
			}
			moved := false
			core.Instrs(fn, func(x ssa.Instruction) {
				if st2, ok := x.(*ssa.Store); ok && st2 != st && isFopAddr(st2.Addr) && movedFrom(st2.Val) == slot && slotOf(st2.Addr) != slot && core.Precedes(st2, st) && samePortGuard(st2) {
					moved = true
				}
			})
			if moved {
				r.OK(rule, construct+" (after its record was moved)", p.InsPos(ins), "the record was first copied to the slot of the fd that shares the port")
				return
			}
			if okPre {
				r.OK(rule, construct, p.InsPos(ins), "a fop.close through the same slot dominates this store")
			} else {
				r.Bad(rule, construct, p.InsPos(ins), "the ownership record of a slot is cleared or overwritten although the port recorded there was not closed through it: a file the form opened loses its owner and is never closed (descriptor leak)")
			}
		})
	}
	r.Anchor(rule, "fop.close calls and ownership resets in redirOp.exec", nclose >= 1 && nreset >= 1)
}

// resolveAddr: look through captured cells / single-assignment locals so
// that `dstFop` in a closure and in its parent denote the same slot.
func resolveAddr(v ssa.Value) ssa.Value {
	for i := 0; i < 5; i++ {
		switch x := v.(type) {
		case *ssa.UnOp:
			if addr, ok := core.IsLoad(x); ok {
				switch a := addr.(type) {
				case *ssa.FieldAddr:
					// a field of a local struct that is written once: either the
					// struct is a by-value parameter spilled to a cell (the
					// field then denotes one pointer for the whole function; the
					// first address taken of it stands for all of them), or the
					// field is assigned exactly once
					if w, canon := localFieldValue(a); w != nil {
						v = w
						continue
					} else if canon != nil {
						return canon
					}
				case *ssa.Alloc:
					var stored []ssa.Value
					for _, ref := range *a.Referrers() {
						if st, ok := ref.(*ssa.Store); ok && st.Addr == ssa.Value(a) {
							stored = append(stored, st.Val)
						}
					}
					if len(stored) == 1 {
						v = stored[0]
						continue
					}
				case *ssa.FreeVar:
					if b := bindingOf(a); b != nil {
						// the binding is the cell: resolve a load of it
						if cell, ok := b.(*ssa.Alloc); ok {
							var stored []ssa.Value
							for _, ref := range *cell.Referrers() {
								if st, ok := ref.(*ssa.Store); ok && st.Addr == ssa.Value(cell) {
									stored = append(stored, st.Val)
								}
							}
							if len(stored) == 1 {
								v = stored[0]
								continue
							}
						}
					}
				}
			}
			return v
		case *ssa.FreeVar:
			if b := bindingOf(x); b != nil {
				v = b
				continue
			}
			return v
		default:
			return v
		}
	}
	return v
}

func bindingOf(fv *ssa.FreeVar) ssa.Value {
	fn := fv.Parent()
	idx := -1
	for i, q := range fn.FreeVars {
		if q == fv {
			idx = i
		}
	}
	var out ssa.Value
	if parent := fn.Parent(); parent != nil && idx >= 0 {
		core.Instrs(parent, func(ins ssa.Instruction) {
			if mc, ok := ins.(*ssa.MakeClosure); ok && mc.Fn == fn {
				out = mc.Bindings[idx]
			}
		})
	}
	return out
}

// isLocalLiteral: the address is a local composite literal being built.
func isLocalLiteral(addr ssa.Value) bool {
	// an element of the temporary array behind a variadic argument list or a
	// slice literal (append(*fops, formOwnedPort{}))
	if ia, ok := addr.(*ssa.IndexAddr); ok {
		if arr, ok := ia.X.(*ssa.Alloc); ok {
			if _, isArr := arr.Type().Underlying().(*types.Pointer).Elem().Underlying().(*types.Array); isArr {
				return true
			}
		}
	}
	a, ok := addr.(*ssa.Alloc)
	if !ok {
		return false
	}
	// a literal temp: only field stores and one whole load
	for _, ref := range *a.Referrers() {
		if st, ok := ref.(*ssa.Store); ok && st.Addr == ssa.Value(a) {
			return false
		}
	}
	return true
}

// localFieldValue: fa addresses field f of a local struct cell that does not
// escape (it is only loaded, stored to as a whole, or has its fields
// addressed, and those field addresses are only loaded from and stored to).
// When field f is assigned exactly once and the cell is never assigned as a
// whole, the assigned value is returned. When the cell is assigned as a whole
// exactly once, from a parameter, and field f is never assigned, a canonical
// stand-in for "the value of that field" is returned (the first address
// taken of the field), so that two reads of it compare equal.
func localFieldValue(fa *ssa.FieldAddr) (stored ssa.Value, canon ssa.Value) {
	cell, ok := fa.X.(*ssa.Alloc)
	if !ok {
		return nil, nil
	}
	var whole []ssa.Value
	var fieldStores []ssa.Value
	var first *ssa.FieldAddr
	for _, ref := range *cell.Referrers() {
		switch x := ref.(type) {
		case *ssa.Store:
			if x.Addr != ssa.Value(cell) {
				return nil, nil // the cell's address is stored somewhere
			}
			whole = append(whole, x.Val)
		case *ssa.UnOp:
			if x.Op != token.MUL {
				return nil, nil
			}
		case *ssa.FieldAddr:
			for _, r2 := range *x.Referrers() {
				switch y := r2.(type) {
				case *ssa.Store:
					if y.Addr != ssa.Value(x) {
						return nil, nil
					}
					if x.Field == fa.Field {
						fieldStores = append(fieldStores, y.Val)
					}
				case *ssa.UnOp:
					if y.Op != token.MUL {
						return nil, nil
					}
				case *ssa.DebugRef:
				default:
					return nil, nil
				}
			}
			if x.Field == fa.Field && first == nil {
				first = x
			}
		case *ssa.DebugRef:
		default:
			return nil, nil
		}
	}
	switch {
	case len(whole) == 0 && len(fieldStores) == 1:
		return fieldStores[0], nil
	case len(whole) == 1 && len(fieldStores) == 0:
		if _, isParam := whole[0].(*ssa.Parameter); isParam {
			return nil, first
		}
	}
	return nil, nil
}

// movedRecordOwns: the store that moves an ownership record is entered only
// over true edges of tests of the File / Chan fields of the record being
// moved (`if rec.File || rec.Chan { *other = *rec }`).
func movedRecordOwns(st *ssa.Store, src ssa.Value, slotOf func(ssa.Value) ssa.Value) bool {
	isOwnTest := func(v ssa.Value) bool {
		ld, ok := v.(*ssa.UnOp)
		if !ok || ld.Op != token.MUL {
			return false
		}
		fa, ok := ld.X.(*ssa.FieldAddr)
		if !ok {
			return false
		}
		nT, f := core.FieldName(fa)
		if nT == nil || nT.Obj().Name() != "formOwnedPort" || (f != "File" && f != "Chan") {
			return false
		}
		return slotOf(fa) == src
	}
	blk := st.Block()
	// climb to the block that is entered over the guard's edges: the store
	// may share its block with the load of the record
	for len(blk.Preds) == 1 {
		pred := blk.Preds[0]
		if len(pred.Instrs) > 0 {
			if iff, ok := pred.Instrs[len(pred.Instrs)-1].(*ssa.If); ok && isOwnTest(iff.Cond) {
				break
			}
		}
		if len(pred.Succs) != 1 {
			break
		}
		blk = pred
	}
	if len(blk.Preds) == 0 {
		return false
	}
	for _, pred := range blk.Preds {
		if len(pred.Instrs) == 0 {
			return false
		}
		iff, ok := pred.Instrs[len(pred.Instrs)-1].(*ssa.If)
		if !ok || !isOwnTest(iff.Cond) || pred.Succs[0] != blk {
			return false
		}
	}
	return true
}

// runStableRecords (C40 OWN-PAIR, clause (e) STABLE-RECORDS): the redirection
// code keeps a pointer to the ownership record of its destination
// (growAccess(fops, dst)) across the hand-over, which takes the record of
// another fd with a second growAccess on the same table. growAccess
// reallocates the table when it has to grow, and the first pointer then
// points into the old array: what is recorded through it afterwards (the file
// just opened is owned by the form) is lost, and the file is never closed. So
// wherever a function of the redirection family takes a record pointer while
// some function of the family takes another one, the table has been grown to
// the size of the port table first: a loop `for len(*fops) < len(fm.ports)`
// that appends dominates the first growAccess.
func runStableRecords(p *core.Program, r *core.Report, rule string) {
	fam := redirFamily(p)
	if len(fam) == 0 {
		return
	}
	isRecordGrow := func(ins ssa.Instruction) *ssa.Call {
		c, ok := ins.(*ssa.Call)
		if !ok {
			return nil
		}
		callee := c.Call.StaticCallee()
		if callee == nil || core.Origin(callee).Name() != "growAccess" {
			return nil
		}
		pt, ok := c.Type().(*types.Pointer)
		if !ok || !core.IsNamed(pt.Elem(), pkgEval, "formOwnedPort") {
			return nil
		}
		return c
	}
	type site struct {
		fn   *ssa.Function
		call *ssa.Call
	}
	var sites []site
	for _, fn := range fam {
		fn := fn
		core.Instrs(fn, func(ins ssa.Instruction) {
			if c := isRecordGrow(ins); c != nil {
				sites = append(sites, site{fn, c})
			}
		})
	}
	if len(sites) < 2 {
		// a single pointer into the table: nothing can move under it
		r.Count(rule+" record pointers taken by the redirection code", len(sites))
		return
	}
	n := 0
	for _, s := range sites {
		// the pointer that is kept: its value is used after another call
		// (stored through, loaded from, or passed on) - any pointer that is
		// not dereferenced at once in the same instruction sequence
		kept := false
		if refs := s.call.Referrers(); refs != nil {
			for _, ref := range *refs {
				switch x := ref.(type) {
				case *ssa.Store:
					if x.Addr == ssa.Value(s.call) && x.Block() == s.call.Block() {
						continue // *growAccess(fops, i) = v
					}
					kept = true
				default:
					kept = true
				}
			}
		}
		if !kept {
			continue
		}
		n++
		construct := core.FnKey(s.fn) + " record pointer stays valid while other records are taken"
		if preGrown(s.fn, s.call) {
			r.OK(rule, construct, p.InsPos(s.call), "the ownership table is grown to the size of the port table before the pointer is taken, so a later growAccess never reallocates it")
		} else {
			r.Bad(rule, construct, p.InsPos(s.call), "a pointer to an ownership record is kept while the hand-over takes another record with growAccess, and the table was not grown to the size of the port table first: growAccess reallocates, the kept pointer then points into the old array, and the ownership recorded through it (`{ echo foo > out } 3>&1`: the file just opened) is lost - the file is never closed")
		}
	}
	r.Count(rule+" record pointers kept across another growAccess", n)
}

// preGrown: a loop whose condition compares the length of the ownership table
// with the length of the port table, and which appends to the table,
// dominates the call.
func preGrown(fn *ssa.Function, call *ssa.Call) bool {
	table := call.Call.Args[0]
	for _, b := range fn.Blocks {
		if len(b.Instrs) == 0 || !b.Dominates(call.Block()) {
			continue
		}
		iff, ok := b.Instrs[len(b.Instrs)-1].(*ssa.If)
		if !ok {
			continue
		}
		cmp, ok := iff.Cond.(*ssa.BinOp)
		if !ok || (cmp.Op != token.LSS && cmp.Op != token.GTR) {
			continue
		}
		small, big := cmp.X, cmp.Y
		if cmp.Op == token.GTR {
			small, big = big, small
		}
		ls, lb := lenArg(small), lenArg(big)
		if ls == nil || lb == nil {
			continue
		}
		addr, ok := core.IsLoad(ls)
		if !ok || exprKey(addr) != exprKey(table) {
			continue
		}
		if !strings.HasSuffix(exprKey(lb), ".ports") {
			continue
		}
		// the loop body appends to the table
		body := b.Succs[0]
		appends := false
		for _, x := range body.Instrs {
			if c, ok := x.(*ssa.Call); ok {
				if bi, ok := c.Call.Value.(*ssa.Builtin); ok && bi.Name() == "append" {
					appends = true
				}
			}
		}
		if appends {
			return true
		}
	}
	return false
}
