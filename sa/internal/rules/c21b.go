package rules

import (
	"golang.org/x/tools/go/ssa"

	"verif/sa/internal/core"
)

// runRCDirect (C21 RESTORE-DEFER, clause "collector passed on unchanged"): a
// function that receives a restore collector and hands a collector on to the
// code that performs the individual assignments (doAssign -> set) hands on
// the very collector it was given. set() registers a variable's restore
// function the moment the variable has been set; a wrapper that buffers the
// restore functions and registers them later loses them on every early
// return in between (a later variable of the same assignment fails to be
// set), and the variables already changed keep their temporary values.
func runRCDirect(p *core.Program, r *core.Report) {
	const rule = "RESTORE-DEFER"
	rcT := p.NamedType(pkgEval, "restoreCollector")
	if !r.Anchor(rule, "eval.restoreCollector", rcT != nil) {
		return
	}
	isRC := func(v ssa.Value) bool { return core.IsNamed(v.Type(), pkgEval, "restoreCollector") }
	// A collector a function "received": its own collector parameter, or a
	// collector-typed field of a struct it was handed (the stores into such
	// fields are sinks of this rule themselves, so a field only ever holds a
	// received collector).
	n := 0
	for _, fn := range p.FnsInPkg(pkgEval) {
		if fn.Parent() != nil {
			continue
		}
		var prm *ssa.Parameter
		for _, q := range fn.Params {
			if isRC(q) {
				prm = q
			}
		}
		var received func(a ssa.Value, depth int) bool
		received = func(a ssa.Value, depth int) bool {
			if depth > 4 {
				return false
			}
			if prm != nil && a == ssa.Value(prm) {
				return true
			}
			switch x := a.(type) {
			case *ssa.Field:
				return isRC(x)
			case *ssa.ChangeType:
				return received(x.X, depth+1)
			}
			if addr, ok := core.IsLoad(a); ok {
				switch cell := addr.(type) {
				case *ssa.Alloc:
					if w := singleStoreOf(cell); w != nil {
						return received(w, depth+1)
					}
				case *ssa.FieldAddr:
					return isRC(a)
				}
			}
			return false
		}
		readsField := false
		core.Instrs(fn, func(ins ssa.Instruction) {
			if v, ok := ins.(ssa.Value); ok && isRC(v) {
				switch x := ins.(type) {
				case *ssa.Field:
					readsField = true
				case *ssa.UnOp:
					if _, ok := x.X.(*ssa.FieldAddr); ok {
						readsField = true
					}
				}
			}
		})
		if prm == nil && !readsField {
			continue
		}
		const bad = "the collector handed to the code that sets the variables is not the one this function received (it was replaced or wrapped): restore functions are no longer registered the moment a variable is set, so an early return between the set and the late registration leaves variables with their temporary values"
		core.Instrs(fn, func(ins ssa.Instruction) {
			if st, ok := ins.(*ssa.Store); ok && isRC(st.Val) {
				fa, ok := st.Addr.(*ssa.FieldAddr)
				if !ok {
					return
				}
				n++
				construct := core.FnKey(fn) + " stores its collector in field " + fieldNameOf(fa) + " unchanged"
				if received(st.Val, 0) {
					r.OK(rule, construct, p.InsPos(ins), "the stored value is the collector this function received")
				} else {
					r.Bad(rule, construct, p.InsPos(ins), bad)
				}
				return
			}
			c, ok := ins.(*ssa.Call)
			if !ok {
				return
			}
			callee := c.Call.StaticCallee()
			if callee == nil || core.PkgPathOf(callee) != pkgEval {
				return
			}
			for i, a := range c.Call.Args {
				if i >= len(callee.Params) || !isRC(callee.Params[i]) {
					continue
				}
				n++
				construct := core.FnKey(fn) + " passes its collector to " + callee.Name() + " unchanged"
				if received(a, 0) {
					r.OK(rule, construct, p.InsPos(ins), "the argument is the collector this function received (its parameter, or the collector field of the struct it was handed)")
				} else {
					r.Bad(rule, construct, p.InsPos(ins), bad)
				}
			}
		})
	}
	r.Anchor(rule, "a function that receives a restore collector passes one on", n >= 3)
}

// isAtomicStoreMethod: a call of a Store/Swap/CompareAndSwap/Add method of a
// sync/atomic type.
func isAtomicStoreMethod(x ssa.Instruction) bool {
	c, ok := x.(ssa.CallInstruction)
	if !ok {
		return false
	}
	callee := c.Common().StaticCallee()
	if callee == nil || core.PkgPathOf(callee) != "sync/atomic" || callee.Signature.Recv() == nil {
		return false
	}
	switch callee.Name() {
	case "Store", "Swap", "CompareAndSwap", "Add":
		return true
	}
	return false
}
