package rules

import (
	"golang.org/x/tools/go/ssa"

	"verif/sa/internal/core"
)

// anyMutexHeldAt: on every path from the entry of its function to target,
// some sync.Mutex / sync.RWMutex has been write-locked and not yet released
// (a deferred Unlock runs after target and does not count as a release).
func anyMutexHeldAt(target ssa.Instruction) bool {
	isLock := func(ins ssa.Instruction, names ...string) bool {
		c, ok := ins.(*ssa.Call)
		if !ok {
			return false
		}
		callee := c.Call.StaticCallee()
		if callee == nil || core.PkgPathOf(callee) != "sync" || callee.Signature.Recv() == nil {
			return false
		}
		rn := core.RecvName(callee.Signature.Recv().Type())
		if rn != "Mutex" && rn != "RWMutex" {
			return false
		}
		for _, n := range names {
			if callee.Name() == n {
				return true
			}
		}
		return false
	}
	fn := target.Parent()
	type st struct {
		b    *ssa.BasicBlock
		held bool
	}
	seen := map[st]bool{}
	ok, found := true, false
	var walk func(b *ssa.BasicBlock, held bool)
	walk = func(b *ssa.BasicBlock, held bool) {
		if seen[st{b, held}] || !ok {
			return
		}
		seen[st{b, held}] = true
		for _, ins := range b.Instrs {
			if ins == target {
				found = true
				if !held {
					ok = false
				}
				return
			}
			if isLock(ins, "Lock") {
				held = true
			}
			if isLock(ins, "Unlock") {
				held = false
			}
		}
		for _, s := range b.Succs {
			walk(s, held)
		}
	}
	if len(fn.Blocks) == 0 {
		return false
	}
	walk(fn.Blocks[0], false)
	return ok && found
}
