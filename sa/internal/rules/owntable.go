package rules

import (
	"go/types"

	"golang.org/x/tools/go/ssa"

	"verif/sa/internal/core"
)

// runOwnTableShared (OWN-TABLE): redirections record which ports a form owns
// in a table that they may have to grow, so they get a *pointer* to it; the
// form's epilogue closes what the table says. Both must see one table: a
// function that hands a table pointer to the redirection code either passes
// on the pointer it received itself, or passes the address of the very
// variable whose elements its own close loop walks afterwards. The address of
// a private copy (a slice taken by value) makes growth and later entries
// invisible to the epilogue: files opened for new fds are never closed, and
// stale entries close ports the form no longer owns.
func runOwnTableShared(p *core.Program, r *core.Report, rule string) {
	isTablePtr := func(t types.Type) bool {
		ptr, ok := t.(*types.Pointer)
		if !ok {
			return false
		}
		sl, ok := ptr.Elem().Underlying().(*types.Slice)
		return ok && core.IsNamed(sl.Elem(), pkgEval, "formOwnedPort")
	}
	n := 0
	for _, fn := range p.FnsInPkg(pkgEval) {
		core.Instrs(fn, func(ins ssa.Instruction) {
			c, ok := ins.(*ssa.Call)
			if !ok {
				return
			}
			callee := c.Call.StaticCallee()
			// the execution methods (formOp.exec, redirOp.exec); the generic
			// slice helper growAccess works on whatever table it is given
			if callee == nil || core.PkgPathOf(callee) != pkgEval || callee.Signature.Recv() == nil {
				return
			}
			for i, a := range c.Call.Args {
				if i >= len(callee.Params) || !isTablePtr(callee.Params[i].Type()) {
					continue
				}
				n++
				construct := core.FnKey(fn) + " gives " + callee.Name() + " the ownership table its epilogue reads"
				pos := p.InsPos(ins)
				if prm, ok := a.(*ssa.Parameter); ok && isTablePtr(prm.Type()) {
					r.OK(rule, construct, pos, "passes on the table pointer it received")
					continue
				}
				// the table variable: a local (or spilled parameter) cell, or
				// a field of a struct the function works on
				var cell ssa.Value
				cellKey := ""
				switch x := a.(type) {
				case *ssa.Alloc:
					cell = x
				case *ssa.FieldAddr:
					cell, cellKey = x, exprKey(x)
				}
				if cell == nil {
					r.Bad(rule, construct, pos, "cannot identify the ownership table handed to the redirection code")
					continue
				}
				// the same variable is walked by a close loop in this function
				walked := false
				closes := false
				core.Instrs(fn, func(x ssa.Instruction) {
					if ia, ok := x.(*ssa.IndexAddr); ok {
						if addr, ok := core.IsLoad(ia.X); ok && (addr == cell || (cellKey != "" && exprKey(addr) == cellKey)) {
							walked = true
						}
					}
					if c2, ok := x.(*ssa.Call); ok {
						if f := c2.Call.StaticCallee(); f != nil && core.IsFunc(f, pkgEval, "formOwnedPort", "close") {
							closes = true
						}
					}
				})
				if walked && closes {
					r.OK(rule, construct, pos, "the address of the variable whose elements the function's own close loop walks")
				} else {
					r.Bad(rule, construct, pos, "the redirection code updates (and may grow) a table that nothing closes from afterwards - the address of a private copy is passed: ownership recorded for a new fd is lost (the file is never closed) and the caller's stale table closes ports the form no longer owns")
				}
			}
		})
	}
	r.Anchor(rule, "call sites that pass a *[]formOwnedPort", n >= 1)
}

// callersExclude: fn is an unexported method whose send channel is a field of
// its receiver, and at every call site the same receiver's field was compared
// unequal to the placeholder g on a dominating edge.
func callersExclude(p *core.Program, fn *ssa.Function, ch ssa.Value, g *ssa.Global) bool {
	if fn.Parent() != nil || fn.Signature.Recv() == nil || len(fn.Params) == 0 {
		return false
	}
	if obj := fn.Object(); obj == nil || obj.Exported() {
		return false
	}
	// the channel is <receiver>.<field>
	field := ""
	if addr, ok := core.IsLoad(ch); ok {
		if fa, ok := addr.(*ssa.FieldAddr); ok {
			_, field = core.FieldName(fa)
			base := fa.X
			if a, ok := base.(*ssa.Alloc); ok {
				if w := singleStoreOf(a); w != ssa.Value(fn.Params[0]) {
					return false
				}
			} else if base != ssa.Value(fn.Params[0]) {
				return false
			}
		}
	}
	if field == "" {
		return false
	}
	n := 0
	ok := true
	// synthetic wrappers of fn (pointer-receiver wrapper, bound-method thunk)
	// are harmless only while nothing uses them
	wrappers := map[*ssa.Function]bool{}
	for w := range p.AllFns {
		if w.Synthetic == "" {
			continue
		}
		core.Instrs(w, func(ins ssa.Instruction) {
			if c, isCall := ins.(ssa.CallInstruction); isCall && c.Common().StaticCallee() == fn {
				wrappers[w] = true
			}
		})
	}
	for _, user := range p.RepoFns {
		if user.Synthetic != "" {
			continue
		}
		core.Instrs(user, func(ins ssa.Instruction) {
			for _, op := range ins.Operands(nil) {
				if *op == nil {
					continue
				}
				if f, isF := (*op).(*ssa.Function); isF && wrappers[f] {
					ok = false
				}
				if mc, isMC := (*op).(*ssa.MakeClosure); isMC {
					if f, isF := mc.Fn.(*ssa.Function); isF && wrappers[f] {
						ok = false
					}
				}
			}
		})
	}
	for _, caller := range p.RepoFns {
		if caller.Synthetic != "" {
			continue // see above
		}
		core.Instrs(caller, func(ins ssa.Instruction) {
			c, isCall := ins.(ssa.CallInstruction)
			if !isCall {
				return
			}
			if c.Common().StaticCallee() != fn {
				// the method value escaping anywhere defeats the argument
				for _, op := range ins.Operands(nil) {
					if *op == ssa.Value(fn) {
						ok = false
					}
				}
				return
			}
			n++
			recv := c.Common().Args[0]
			// find the cell the receiver value was loaded from
			var cell ssa.Value
			if addr, isLd := core.IsLoad(recv); isLd {
				cell = addr
			}
			guarded := false
			core.Instrs(caller, func(x ssa.Instruction) {
				ld, isLd := x.(*ssa.UnOp)
				if !isLd {
					return
				}
				fa, isFA := ld.X.(*ssa.FieldAddr)
				if !isFA {
					return
				}
				if _, f := core.FieldName(fa); f != field {
					return
				}
				if cell == nil || fa.X != cell {
					return
				}
				if comparedUnequal(ld, g, ins) {
					guarded = true
				}
			})
			if !guarded {
				ok = false
			}
		})
	}
	return ok && n > 0
}
