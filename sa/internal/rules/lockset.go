package rules

import (
	"fmt"
	"go/token"
	"go/types"
	"sort"
	"strings"

	"golang.org/x/tools/go/ssa"

	"verif/sa/internal/core"
)

// E2: lockset analysis with boolean-correlated path sensitivity.

type guardSpec struct {
	pkg, structName, mutex string
	fields                 map[string]bool
	// derefUses: the guarded field holds a pointer to the protected data, so
	// every call that receives the loaded value is an access; the function
	// returns the lock level that call needs.
	derefUses func(call ssa.CallInstruction) int
	// unlocked: instructions that must execute with the mutex NOT held
	// (e.g. a channel send that may block); returns a description or "".
	unlocked func(ins ssa.Instruction) string
	// mapAfterUnlock: values of map type loaded from a guarded field must not
	// be used after the lock is released.
}

type lockState struct {
	held     int // 0 none, 1 read, 2 write
	deferred bool
	assume   string // sorted "name=T;name=F"
}

type lockEvent struct {
	desc string
	need int
}

// mutexOp classifies a call as Lock/RLock/Unlock/RUnlock on the spec's mutex.
func mutexOp(c ssa.CallInstruction, spec guardSpec) string {
	cc := c.Common()
	callee := cc.StaticCallee()
	if callee == nil || len(cc.Args) == 0 {
		return ""
	}
	if core.PkgPathOf(callee) != "sync" {
		return ""
	}
	name := callee.Name()
	switch name {
	case "Lock", "Unlock", "RLock", "RUnlock":
	default:
		return ""
	}
	var fa *ssa.FieldAddr
	switch a := cc.Args[0].(type) {
	case *ssa.FieldAddr:
		fa = a
	case *ssa.UnOp:
		if f2, ok := a.X.(*ssa.FieldAddr); ok && a.Op == token.MUL {
			fa = f2
		}
	}
	if fa == nil {
		return ""
	}
	n, f := core.FieldName(fa)
	if n == nil || n.Obj().Pkg() == nil || n.Obj().Pkg().Path() != spec.pkg || n.Obj().Name() != spec.structName || f != spec.mutex {
		return ""
	}
	return name
}

// freshBase reports whether the struct pointer is an object allocated in this
// function (constructor exemption), looking through a captured-variable cell.
func freshBase(v ssa.Value) bool {
	switch x := v.(type) {
	case *ssa.Alloc:
		// a spilled parameter/receiver (whole-value store into the cell) is
		// not a fresh object; a composite literal is initialised field-wise
		for _, r := range *x.Referrers() {
			if st, ok := r.(*ssa.Store); ok && st.Addr == x {
				return false
			}
		}
		return true
	case *ssa.UnOp:
		if x.Op != token.MUL {
			return false
		}
		cell, ok := x.X.(*ssa.Alloc)
		if !ok {
			return false
		}
		n, ok2 := 0, true
		for _, r := range *cell.Referrers() {
			if st, ok := r.(*ssa.Store); ok && st.Addr == cell {
				n++
				if a, isAlloc := st.Val.(*ssa.Alloc); !isAlloc || !freshBase(a) {
					ok2 = false
				}
			}
		}
		return n == 1 && ok2
	}
	return false
}

// lockExit: the lock state with which a helper returns, and the boolean
// constants it returns on that exit ("1=T": result #1 is true).
type lockExit struct {
	held  int
	bools string
}

// lockHelperSummaries finds the functions that hand the mutex to their caller:
// unexported functions with static callers only that lock spec.mutex and
// return with it held on some exit (no deferred unlock). Exits with different
// lock states must be told apart by a boolean constant they return, so that
// the caller's later test of that boolean selects the right state.
func lockHelperSummaries(p *core.Program, spec guardSpec, fns []*ssa.Function) map[*ssa.Function][]lockExit {
	out := map[*ssa.Function][]lockExit{}
	called := map[*ssa.Function]bool{}
	escaped := map[*ssa.Function]bool{}
	for _, fn := range fns {
		core.Instrs(fn, func(ins ssa.Instruction) {
			if c, ok := ins.(ssa.CallInstruction); ok {
				if callee := c.Common().StaticCallee(); callee != nil {
					called[callee] = true
				}
			}
			for _, op := range ins.Operands(nil) {
				if *op == nil {
					continue
				}
				if f, ok := (*op).(*ssa.Function); ok {
					if c, isCall := ins.(ssa.CallInstruction); !isCall || c.Common().Value != *op {
						escaped[f] = true
					}
				}
			}
		})
	}
	for _, fn := range fns {
		if fn.Parent() != nil || fn.Blocks == nil || !called[fn] || escaped[fn] {
			continue
		}
		if obj := fn.Object(); obj == nil || obj.Exported() {
			continue
		}
		ops := map[ssa.Instruction]string{}
		deferred := false
		core.Instrs(fn, func(ins ssa.Instruction) {
			c, ok := ins.(ssa.CallInstruction)
			if !ok {
				return
			}
			if d, isDefer := ins.(*ssa.Defer); isDefer {
				// defer func() { mu.Unlock() }()
				if mc, ok := d.Call.Value.(*ssa.MakeClosure); ok {
					core.Instrs(mc.Fn.(*ssa.Function), func(x ssa.Instruction) {
						if c2, ok := x.(ssa.CallInstruction); ok && mutexOp(c2, spec) != "" {
							deferred = true
						}
					})
				}
			}
			if op := mutexOp(c, spec); op != "" {
				if _, isDefer := ins.(*ssa.Defer); isDefer {
					deferred = true
				} else {
					ops[ins] = op
				}
			}
		})
		if len(ops) == 0 || deferred {
			continue
		}
		type key struct {
			b    *ssa.BasicBlock
			held int
		}
		seen := map[key]bool{}
		exits := map[lockExit]bool{}
		var walk func(b *ssa.BasicBlock, held int)
		walk = func(b *ssa.BasicBlock, held int) {
			if seen[key{b, held}] {
				return
			}
			seen[key{b, held}] = true
			for _, ins := range b.Instrs {
				switch ops[ins] {
				case "Lock":
					held = 2
				case "RLock":
					held = 1
				case "Unlock", "RUnlock":
					held = 0
				}
				if ret, ok := ins.(*ssa.Return); ok {
					var bs []string
					for i, v := range ret.Results {
						if c, isC := v.(*ssa.Const); isC && isBoolType(c.Type()) {
							if constBool(c) {
								bs = append(bs, fmtInt(int64(i))+"=T")
							} else {
								bs = append(bs, fmtInt(int64(i))+"=F")
							}
						}
					}
					exits[lockExit{held, strings.Join(bs, ";")}] = true
				}
			}
			for _, succ := range b.Succs {
				walk(succ, held)
			}
		}
		walk(fn.Blocks[0], 0)
		handsOff := false
		var list []lockExit
		for e := range exits {
			list = append(list, e)
			if e.held != 0 {
				handsOff = true
			}
		}
		if !handsOff {
			continue
		}
		sort.Slice(list, func(i, j int) bool {
			if list[i].held != list[j].held {
				return list[i].held < list[j].held
			}
			return list[i].bools < list[j].bools
		})
		// exits with different lock states must differ in a returned boolean
		ok := true
		for i := range list {
			for j := i + 1; j < len(list); j++ {
				if list[i].held != list[j].held && (list[i].bools == "" || list[j].bools == "" || list[i].bools == list[j].bools) {
					ok = false
				}
			}
		}
		if ok {
			out[fn] = list
		}
	}
	return out
}

// runLockset checks one spec over the given functions.
// entryLockLevels: unexported functions that are only ever called (never used
// as values) and whose every call site, in the analysed functions, is reached
// with the mutex held start their own analysis at the weakest level their
// callers hold (a helper extracted from a critical section:
// v.canHoldAnyValue() called between v.mutex.Lock() and Unlock()).
func entryLockLevels(p *core.Program, spec guardSpec, fns []*ssa.Function) map[*ssa.Function]int {
	inSet := map[*ssa.Function]bool{}
	for _, f := range fns {
		inSet[f] = true
	}
	usedAsValue := map[*ssa.Function]bool{}
	sites := map[*ssa.Function][]ssa.CallInstruction{}
	for _, fn := range p.RepoFns {
		if fn.Synthetic != "" {
			// pointer-receiver and bound-method wrappers: not code of the repository
			continue
		}
		core.Instrs(fn, func(ins ssa.Instruction) {
			var callee *ssa.Function
			if c, ok := ins.(ssa.CallInstruction); ok {
				callee = c.Common().StaticCallee()
				if callee != nil {
					_, isGo := ins.(*ssa.Go)
					_, isDefer := ins.(*ssa.Defer)
					if isGo || isDefer {
						usedAsValue[callee] = true
					} else {
						sites[callee] = append(sites[callee], c)
					}
				}
			}
			for _, op := range ins.Operands(nil) {
				if *op == nil {
					continue
				}
				if f, ok := (*op).(*ssa.Function); ok && f != callee {
					usedAsValue[f] = true
					if f.Synthetic != "" {
						// a bound-method or pointer-receiver wrapper used as a
						// value: the method it wraps is used as a value
						core.Instrs(f, func(i2 ssa.Instruction) {
							if c2, ok := i2.(ssa.CallInstruction); ok {
								if g := c2.Common().StaticCallee(); g != nil {
									usedAsValue[g] = true
								}
							}
						})
					}
				}
			}
		})
	}
	entry := map[*ssa.Function]int{}
	levelAt := func(target ssa.Instruction) int {
		fn := target.Parent()
		type st struct {
			b    *ssa.BasicBlock
			held int
		}
		seen := map[st]bool{}
		min, found := 3, false
		var walk func(b *ssa.BasicBlock, held int)
		walk = func(b *ssa.BasicBlock, held int) {
			if seen[st{b, held}] {
				return
			}
			seen[st{b, held}] = true
			for _, ins := range b.Instrs {
				if ins == target {
					found = true
					if held < min {
						min = held
					}
					return
				}
				if c, ok := ins.(ssa.CallInstruction); ok {
					if _, isDefer := ins.(*ssa.Defer); !isDefer {
						switch mutexOp(c, spec) {
						case "Lock":
							held = 2
						case "RLock":
							held = 1
						case "Unlock", "RUnlock":
							held = 0
						}
					}
				}
			}
			for _, s := range b.Succs {
				walk(s, held)
			}
		}
		if len(fn.Blocks) > 0 {
			walk(fn.Blocks[0], entry[fn])
		}
		if !found {
			return 0
		}
		return min
	}
	for round := 0; round < 3; round++ {
		for _, fn := range fns {
			if fn.Parent() != nil || usedAsValue[fn] || len(sites[fn]) == 0 {
				continue
			}
			if obj := fn.Object(); obj == nil || obj.Exported() {
				continue
			}
			lvl := 3
			for _, c := range sites[fn] {
				if !inSet[core.Outer(c.Parent())] {
					lvl = 0
					break
				}
				if l := levelAt(c); l < lvl {
					lvl = l
				}
			}
			if lvl == 3 {
				lvl = 0
			}
			entry[fn] = lvl
		}
	}
	return entry
}

func runLockset(p *core.Program, r *core.Report, rule string, spec guardSpec, fns []*ssa.Function) {
	spec = resolveGuardSpec(p, spec)
	helpers := lockHelperSummaries(p, spec, fns)
	entryHeld := entryLockLevels(p, spec, fns)
	for _, fn := range fns {
		evs := map[ssa.Instruction][]lockEvent{}
		helperCalls := map[ssa.Instruction]*ssa.Function{}
		lockOps := map[ssa.Instruction]string{}
		deferUnlock := false
		relevant := false
		hasLockOp := false
		condUses := map[ssa.Value]int{}
		for _, b := range fn.Blocks {
			for _, ins := range b.Instrs {
				if iff, ok := ins.(*ssa.If); ok {
					condUses[stripNot(iff.Cond)]++
				}
				switch v := ins.(type) {
				case *ssa.FieldAddr:
					n, f := core.FieldName(v)
					if n == nil || n.Obj().Pkg() == nil || n.Obj().Pkg().Path() != spec.pkg || n.Obj().Name() != spec.structName || !spec.fields[f] {
						continue
					}
					if freshBase(v.X) {
						r.OK(rule, core.FnKey(fn)+" "+spec.structName+"."+f+" (constructor)", p.InsPos(ins), "trivial")
						continue
					}
					relevant = true
					for _, ref := range *v.Referrers() {
						switch u := ref.(type) {
						case *ssa.Store:
							if u.Addr == v {
								evs[u] = append(evs[u], lockEvent{"store " + f, 2})
							}
						case *ssa.UnOp:
							evs[u] = append(evs[u], lockEvent{"load " + f, 1})
							if spec.derefUses != nil {
								for _, use := range *u.Referrers() {
									if w, ok := use.(ssa.CallInstruction); ok {
										evs[w] = append(evs[w], lockEvent{"use of *" + f + " by " + w.Common().Value.Name(), spec.derefUses(w)})
									}
								}
							}
							if _, isMap := u.Type().Underlying().(*types.Map); isMap {
								for _, use := range *u.Referrers() {
									switch w := use.(type) {
									case *ssa.MapUpdate:
										evs[w] = append(evs[w], lockEvent{"map update of " + f, 2})
									case *ssa.Lookup:
										evs[w] = append(evs[w], lockEvent{"map lookup in " + f, 1})
									case *ssa.Range:
										evs[w] = append(evs[w], lockEvent{"map range over " + f, 1})
									case ssa.CallInstruction:
										need := 1
										if bi, ok := w.Common().Value.(*ssa.Builtin); ok && (bi.Name() == "delete" || bi.Name() == "clear") {
											need = 2
										}
										evs[w] = append(evs[w], lockEvent{"map " + f + " passed to " + w.Common().Value.Name(), need})
									case *ssa.Store:
										// the map escapes into another variable: every later use is invisible
										evs[w] = append(evs[w], lockEvent{"map " + f + " stored elsewhere (escapes the critical section)", 3})
									case *ssa.Return:
										evs[w] = append(evs[w], lockEvent{"map " + f + " returned (escapes the critical section)", 3})
									}
								}
							}
						case *ssa.FieldAddr, *ssa.IndexAddr:
							// sub-field access (hl.cache.code): treat loads/stores through it
							for _, r2 := range *u.(ssa.Value).Referrers() {
								switch w := r2.(type) {
								case *ssa.Store:
									if w.Addr == u.(ssa.Value) {
										evs[w] = append(evs[w], lockEvent{"store " + f + ".*", 2})
									}
								case *ssa.UnOp:
									evs[w] = append(evs[w], lockEvent{"load " + f + ".*", 1})
								}
							}
						case ssa.CallInstruction:
							okEsc := false
							for _, a := range u.Common().Args {
								if fa, ok := a.(*ssa.FieldAddr); ok {
									if n2, f2 := core.FieldName(fa); n2 == n && f2 == spec.mutex {
										okEsc = true
									}
								}
							}
							if okEsc {
								r.OK(rule, core.FnKey(fn)+" &"+spec.structName+"."+f+" escapes with &"+spec.mutex, p.InsPos(u), "the field's address is handed out together with its mutex (vars.FromPtrWithMutex locks it on every access)")
							} else {
								evs[u] = append(evs[u], lockEvent{"&" + f + " escapes", 2})
							}
						}
					}
				case *ssa.Send, *ssa.Select:
					if spec.unlocked != nil {
						if d := spec.unlocked(ins); d != "" {
							evs[ins] = append(evs[ins], lockEvent{d, -1})
						}
					}
				case ssa.CallInstruction:
					if d, isDefer := ins.(*ssa.Defer); isDefer {
						// defer func() { mu.Unlock() }()
						if mc, ok := d.Call.Value.(*ssa.MakeClosure); ok {
							core.Instrs(mc.Fn.(*ssa.Function), func(x ssa.Instruction) {
								if c, ok := x.(ssa.CallInstruction); ok {
									if op := mutexOp(c, spec); op == "Unlock" || op == "RUnlock" {
										deferUnlock, hasLockOp = true, true
									}
								}
							})
						}
					}
					if callee := v.Common().StaticCallee(); callee != nil && helpers[callee] != nil {
						if _, isDefer := ins.(*ssa.Defer); !isDefer {
							helperCalls[ins] = callee
							hasLockOp = true
						}
					}
					op := mutexOp(v, spec)
					if op == "" {
						continue
					}
					hasLockOp = true
					if _, isDefer := ins.(*ssa.Defer); isDefer {
						deferUnlock = true
						continue
					}
					lockOps[ins] = op
				}
			}
		}
		if !relevant && !hasLockOp {
			continue
		}
		r.Count(rule+" functions with guarded accesses or lock operations", 1)
		// path-sensitive walk
		type key struct {
			b     *ssa.BasicBlock
			start int
			s     lockState
		}
		seen := map[key]bool{}
		type res struct {
			bad    bool
			detail string
			pos    string
		}
		results := map[string]*res{}
		record := func(construct string, ins ssa.Instruction, bad bool, detail string) {
			x := results[construct]
			if x == nil {
				x = &res{pos: p.InsPos(ins)}
				results[construct] = x
			}
			if bad && !x.bad {
				x.bad, x.detail, x.pos = true, detail, p.InsPos(ins)
			}
		}
		fk := core.FnKey(fn)
		steps := 0
		withAssume := func(s lockState, name, val string) lockState {
			parts := []string{}
			if s.assume != "" {
				parts = strings.Split(s.assume, ";")
			}
			parts = append(parts, name+"="+val)
			sort.Strings(parts)
			s.assume = strings.Join(parts, ";")
			return s
		}
		var walk func(b *ssa.BasicBlock, s lockState)
		var walkFrom func(b *ssa.BasicBlock, start int, s lockState)
		walk = func(b *ssa.BasicBlock, s lockState) { walkFrom(b, 0, s) }
		walkFrom = func(b *ssa.BasicBlock, start int, s lockState) {
			k := key{b, start, s}
			if seen[k] {
				return
			}
			seen[k] = true
			steps++
			if steps > 200000 {
				panic("lockset: state explosion in " + fn.String())
			}
			for idx := start; idx < len(b.Instrs); idx++ {
				ins := b.Instrs[idx]
				if callee, ok := helperCalls[ins]; ok {
					// a helper that hands the mutex over: continue with each
					// of its exit states, remembering which returned boolean
					// goes with it
					exits := helpers[callee]
					if len(exits) == 1 {
						s.held = exits[0].held
					} else {
						call := ins.(ssa.Value)
						for _, e := range exits {
							ns := s
							ns.held = e.held
							for _, kv := range strings.Split(e.bools, ";") {
								if kv == "" {
									continue
								}
								i, _ := parseInt(kv[:strings.Index(kv, "=")])
								val := kv[strings.Index(kv, "=")+1:]
								name := ""
								if tup, isTuple := call.Type().(*types.Tuple); isTuple && tup.Len() > 1 {
									for _, ref := range *call.Referrers() {
										if ex, ok := ref.(*ssa.Extract); ok && int64(ex.Index) == i {
											name = ex.Name()
										}
									}
								} else if i == 0 {
									name = call.Name()
								}
								if name != "" {
									ns = withAssume(ns, name, val)
								}
							}
							walkFrom(b, idx+1, ns)
						}
						return
					}
				}
				if op, ok := lockOps[ins]; ok {
					switch op {
					case "Lock":
						if s.held != 0 {
							record(fk+" "+spec.mutex+".Lock while held", ins, true, "the mutex is locked again on a path where it is already held (self-deadlock)")
						}
						s.held = 2
					case "RLock":
						s.held = 1
					case "Unlock", "RUnlock":
						if s.held == 0 && fn.Parent() == nil {
							record(fk+" "+spec.mutex+"."+op+" while not held", ins, true, "the mutex is released on a path where it is not held (runtime fatal error)")
						}
						s.held = 0
					}
				}
				for _, e := range evs[ins] {
					construct := fk + " " + e.desc
					switch {
					case e.need == -1:
						if s.held != 0 {
							record(construct, ins, true, "a potentially blocking operation ("+e.desc+") executes while "+spec.structName+"."+spec.mutex+" is held")
						} else {
							record(construct, ins, false, "")
						}
					case e.need == 3:
						record(construct, ins, true, "a map loaded from a guarded field leaves the critical section; later uses race with writers")
					case s.held < e.need:
						record(construct, ins, true, fmt.Sprintf("%s.%s accessed (%s) with %s: needs %s", spec.structName, spec.mutex, e.desc, heldStr(s.held), heldStr(e.need)))
					default:
						record(construct, ins, false, "")
					}
				}
				if _, isRet := ins.(*ssa.Return); isRet {
					if helpers[fn] != nil {
						record(fk+" returns holding "+spec.mutex, ins, false, "")
					} else if s.held != 0 && !s.deferred && entryHeld[fn] == 0 {
						record(fk+" returns holding "+spec.mutex, ins, true, "a path returns with the mutex still held and no deferred unlock: the next locker blocks forever")
					} else if hasLockOp {
						record(fk+" returns holding "+spec.mutex, ins, false, "")
					}
				}
			}
			if len(b.Instrs) == 0 {
				return
			}
			if iff, ok := b.Instrs[len(b.Instrs)-1].(*ssa.If); ok {
				cond := iff.Cond
				neg := false
				if u, ok := cond.(*ssa.UnOp); ok && u.Op == token.NOT {
					cond, neg = u.X, true
				}
				_, isConst := cond.(*ssa.Const)
				name := cond.Name()
				has := func(val string) bool { return strings.Contains(";"+s.assume+";", ";"+name+"="+val+";") }
				track := !isConst && (condUses[cond] >= 2 || has("T") || has("F"))
				add := func(val string) lockState {
					if !track {
						return s
					}
					parts := []string{}
					if s.assume != "" {
						parts = strings.Split(s.assume, ";")
					}
					parts = append(parts, name+"="+val)
					sort.Strings(parts)
					ns := s
					ns.assume = strings.Join(parts, ";")
					return ns
				}
				tv, fv := "T", "F"
				if neg {
					tv, fv = "F", "T"
				}
				switch {
				case track && has(tv):
					walk(b.Succs[0], s)
				case track && has(fv):
					walk(b.Succs[1], s)
				default:
					walk(b.Succs[0], add(tv))
					walk(b.Succs[1], add(fv))
				}
				return
			}
			for _, succ := range b.Succs {
				walk(succ, s)
			}
		}
		walk(fn.Blocks[0], lockState{deferred: deferUnlock, held: entryHeld[fn]})
		var keys []string
		for k := range results {
			keys = append(keys, k)
		}
		sort.Strings(keys)
		for _, k := range keys {
			x := results[k]
			if x.bad {
				r.Bad(rule, k, x.pos, x.detail)
			} else {
				r.OK(rule, k, x.pos, "mutex held (at the required level) on every path reaching the access; paths correlated on repeated boolean conditions")
			}
		}
	}
}

func stripNot(v ssa.Value) ssa.Value {
	if u, ok := v.(*ssa.UnOp); ok && u.Op == token.NOT {
		return u.X
	}
	return v
}

func heldStr(h int) string {
	switch h {
	case 0:
		return "no lock"
	case 1:
		return "the read lock"
	default:
		return "the write lock"
	}
}

// runRLockWrite is a contradiction rule: a function that holds only the READ
// lock of a struct's RWMutex must not write a field of that same struct
// (other readers may run concurrently). It applies to every struct in the
// program that embeds or contains a sync.RWMutex, with no table.
func runRLockWrite(p *core.Program, r *core.Report, rule string) {
	isRW := func(callee *ssa.Function, names ...string) bool {
		if callee == nil || core.PkgPathOf(callee) != "sync" || callee.Signature.Recv() == nil || core.RecvName(callee.Signature.Recv().Type()) != "RWMutex" {
			return false
		}
		for _, n := range names {
			if callee.Name() == n {
				return true
			}
		}
		return false
	}
	// mutexBase returns the struct pointer whose field is the mutex operand.
	mutexBase := func(v ssa.Value) (ssa.Value, string) {
		switch a := v.(type) {
		case *ssa.FieldAddr:
			_, f := core.FieldName(a)
			return a.X, f
		case *ssa.UnOp:
			if fa, ok := a.X.(*ssa.FieldAddr); ok && a.Op == token.MUL {
				_, f := core.FieldName(fa)
				return fa.X, f
			}
		case *ssa.Global:
			// a package-level mutex guards the package-level variables
			return a, a.Name()
		}
		return nil, ""
	}
	nfn := 0
	for _, fn := range p.RepoFns {
		var base ssa.Value
		mfield := ""
		ops := map[ssa.Instruction]string{}
		deferUnlock := false
		core.Instrs(fn, func(ins ssa.Instruction) {
			c, ok := ins.(ssa.CallInstruction)
			if !ok {
				return
			}
			callee := c.Common().StaticCallee()
			if !isRW(callee, "RLock", "RUnlock", "Lock", "Unlock") || len(c.Common().Args) == 0 {
				return
			}
			b, f := mutexBase(c.Common().Args[0])
			if b == nil {
				return
			}
			if base == nil {
				base, mfield = b, f
			}
			if b != base || f != mfield {
				return
			}
			if _, isDefer := ins.(*ssa.Defer); isDefer {
				deferUnlock = true
				return
			}
			ops[ins] = callee.Name()
		})
		hasR := false
		for _, op := range ops {
			if op == "RLock" {
				hasR = true
			}
		}
		if base == nil || !hasR {
			continue
		}
		nfn++
		// stores into fields of the same base
		writes := map[ssa.Instruction]string{}
		core.Instrs(fn, func(ins ssa.Instruction) {
			var addr ssa.Value
			switch x := ins.(type) {
			case *ssa.Store:
				addr = x.Addr
			case *ssa.MapUpdate:
				if ld, ok := core.IsLoad(x.Map); ok {
					addr = ld
				}
			}
			if addr == nil {
				return
			}
			root := addr
			path := ""
			for {
				if fa, ok := root.(*ssa.FieldAddr); ok {
					_, f := core.FieldName(fa)
					path = "." + f + path
					root = fa.X
					continue
				}
				if ia, ok := root.(*ssa.IndexAddr); ok {
					root = ia.X
					path = "[]" + path
					continue
				}
				break
			}
			if root == base && path != "" {
				writes[ins] = path
			}
			if bg, ok := base.(*ssa.Global); ok {
				if g, ok := root.(*ssa.Global); ok && g != bg && g.Pkg == bg.Pkg {
					writes[ins] = " package variable " + g.Name() + path
				}
			}
		})
		if len(writes) == 0 {
			r.OK(rule, core.FnKey(fn)+" holds "+mfield+".RLock and writes no field of the same struct", p.Pos(fn.Pos()), "no store into the receiver while only the read lock is held")
			continue
		}
		type key struct {
			b    *ssa.BasicBlock
			held int
		}
		seen := map[key]bool{}
		bad := map[string]ssa.Instruction{}
		okw := map[string]ssa.Instruction{}
		var walk func(b *ssa.BasicBlock, held int)
		walk = func(b *ssa.BasicBlock, held int) {
			k := key{b, held}
			if seen[k] {
				return
			}
			seen[k] = true
			for _, ins := range b.Instrs {
				switch ops[ins] {
				case "Lock":
					held = 2
				case "RLock":
					held = 1
				case "Unlock", "RUnlock":
					held = 0
				}
				if path, ok := writes[ins]; ok {
					if held == 1 {
						bad[path] = ins
					} else {
						okw[path] = ins
					}
				}
			}
			for _, s := range b.Succs {
				walk(s, held)
			}
		}
		_ = deferUnlock
		walk(fn.Blocks[0], 0)
		for path, ins := range bad {
			r.Bad(rule, core.FnKey(fn)+" writes "+path+" under "+mfield+".RLock", p.InsPos(ins), "shared state guarded by the mutex is written while only its read lock is held: concurrent readers race on it (for a map: fatal error: concurrent map writes)")
		}
		for path, ins := range okw {
			if _, isBad := bad[path]; !isBad {
				r.OK(rule, core.FnKey(fn)+" writes "+path+" outside the read-locked region", p.InsPos(ins), "write lock held or no lock region")
			}
		}
	}
	r.Count(rule+" functions taking a read lock", nfn)
}

// resolveGuardSpec: the mutex of the guarded struct is found by its type when
// no field has the expected name (the field was renamed): the only field of
// type sync.Mutex or sync.RWMutex.
func resolveGuardSpec(p *core.Program, spec guardSpec) guardSpec {
	n := p.NamedType(spec.pkg, spec.structName)
	if n == nil {
		return spec
	}
	st, ok := n.Underlying().(*types.Struct)
	if !ok {
		return spec
	}
	var mutexes []string
	for i := 0; i < st.NumFields(); i++ {
		f := st.Field(i)
		if f.Name() == spec.mutex {
			return spec
		}
		if t := strings.TrimPrefix(f.Type().String(), "*"); t == "sync.Mutex" || t == "sync.RWMutex" {
			mutexes = append(mutexes, f.Name())
		}
	}
	if len(mutexes) == 1 {
		spec.mutex = mutexes[0]
	}
	return spec
}
