package rules

import (
	"go/token"
	"go/types"
	"sort"
	"strings"

	"golang.org/x/tools/go/ssa"

	"verif/sa/internal/core"
)

// globalMapAudit: writes to package-level maps that cannot race for a reason
// the rule does not see. Key: construct.
var globalMapAudit = map[string]string{}

// runGlobalMapWrite (C17 GLOBAL-MAP-WRITE): a write to a package-level map
// (m[k] = v, delete(m, k)) that can run after program initialisation happens
// with a mutex write-locked, in the function itself or at every call site
// that leads to it. Builtin commands run concurrently (peach, run-parallel,
// pipelines, background jobs), and two unsynchronised writers - or a writer
// and a reader - of one Go map abort the whole process with "fatal error:
// concurrent map writes", which no recover can stop.
func runGlobalMapWrite(p *core.Program, r *core.Report) {
	const rule = "GLOBAL-MAP-WRITE"
	inScope := func(f *ssa.Function) bool {
		pp := core.PkgPathOf(f)
		if core.IsTestPkgPath(pp) {
			return false
		}
		return pp == pkgEval || strings.HasPrefix(pp, pkgEval+"/") || strings.HasPrefix(pp, "src.elv.sh/pkg/mods")
	}
	// static callers
	callers := map[*ssa.Function][]ssa.CallInstruction{}
	referenced := map[*ssa.Function]bool{} // used as a value somewhere
	for _, fn := range p.RepoFns {
		core.Instrs(fn, func(ins ssa.Instruction) {
			if c, ok := ins.(ssa.CallInstruction); ok {
				if callee := c.Common().StaticCallee(); callee != nil {
					callers[callee] = append(callers[callee], c)
				}
			}
			for _, op := range ins.Operands(nil) {
				if *op == nil {
					continue
				}
				if f, ok := (*op).(*ssa.Function); ok {
					if c, isCall := ins.(ssa.CallInstruction); !isCall || c.Common().Value != *op {
						referenced[f] = true
					}
				}
				if mc, ok := (*op).(*ssa.MakeClosure); ok {
					if f, ok := mc.Fn.(*ssa.Function); ok {
						referenced[f] = true
					}
				}
			}
		})
	}
	// an unexported function nobody calls or refers to does not run on this
	// platform (helpers kept for other operating systems)
	unreachable := func(f *ssa.Function) bool {
		f = core.Outer(f)
		if obj := f.Object(); obj == nil || obj.Exported() {
			return false
		}
		return len(callers[f]) == 0 && !referenced[f] && f.Name() != "init" && !strings.HasPrefix(f.Name(), "init#") && f.Signature.Recv() == nil
	}
	isLockCall := func(ins ssa.Instruction, names ...string) bool {
		c, ok := ins.(*ssa.Call)
		if !ok {
			return false
		}
		callee := c.Call.StaticCallee()
		if callee == nil || core.PkgPathOf(callee) != "sync" || callee.Signature.Recv() == nil {
			return false
		}
		rn := core.RecvName(callee.Signature.Recv().Type())
		if rn != "Mutex" && rn != "RWMutex" {
			return false
		}
		for _, n := range names {
			if callee.Name() == n {
				return true
			}
		}
		return false
	}
	// lockedAt: on every path from the function entry to ins, a Lock() has
	// been called and not yet released.
	lockedAt := func(target ssa.Instruction) bool {
		fn := target.Parent()
		type st struct {
			b    *ssa.BasicBlock
			held bool
		}
		seen := map[st]bool{}
		ok := true
		found := false
		var walk func(b *ssa.BasicBlock, held bool)
		walk = func(b *ssa.BasicBlock, held bool) {
			if seen[st{b, held}] || !ok {
				return
			}
			seen[st{b, held}] = true
			for _, ins := range b.Instrs {
				if ins == target {
					found = true
					if !held {
						ok = false
					}
					return
				}
				if isLockCall(ins, "Lock") {
					held = true
				}
				if isLockCall(ins, "Unlock") {
					held = false
				}
			}
			for _, s := range b.Succs {
				walk(s, held)
			}
		}
		walk(fn.Blocks[0], false)
		return ok && found
	}
	initOnly := map[*ssa.Function]bool{}
	var isInitOnly func(f *ssa.Function, depth int) bool
	isInitOnly = func(f *ssa.Function, depth int) bool {
		if f.Name() == "init" || strings.HasPrefix(f.Name(), "init#") {
			return true
		}
		if v, ok := initOnly[f]; ok {
			return v
		}
		if depth > 4 {
			return false
		}
		initOnly[f] = false
		cs := callers[f]
		if len(cs) == 0 {
			return false
		}
		for _, c := range cs {
			if !isInitOnly(core.Outer(c.Parent()), depth+1) {
				return false
			}
		}
		initOnly[f] = true
		return true
	}
	var guarded func(ins ssa.Instruction, depth int) bool
	guarded = func(ins ssa.Instruction, depth int) bool {
		if lockedAt(ins) {
			return true
		}
		fn := ins.Parent()
		if fn.Parent() != nil || depth > 3 {
			return false
		}
		cs := callers[fn]
		if len(cs) == 0 {
			return false
		}
		for _, c := range cs {
			if !guarded(c, depth+1) {
				return false
			}
		}
		return true
	}
	type site struct {
		ins ssa.Instruction
		g   *ssa.Global
	}
	var sites []site
	for _, fn := range p.RepoFns {
		if !inScope(fn) {
			continue
		}
		core.Instrs(fn, func(ins ssa.Instruction) {
			var m ssa.Value
			switch x := ins.(type) {
			case *ssa.MapUpdate:
				m = x.Map
			case *ssa.Call:
				if b, ok := x.Call.Value.(*ssa.Builtin); ok && b.Name() == "delete" {
					m = x.Call.Args[0]
				}
			}
			if m == nil {
				return
			}
			if _, isMap := m.Type().Underlying().(*types.Map); !isMap {
				return
			}
			if u, ok := m.(*ssa.UnOp); ok && u.Op == token.MUL {
				if g, ok := u.X.(*ssa.Global); ok {
					sites = append(sites, site{ins, g})
				}
			}
		})
	}
	sort.Slice(sites, func(i, j int) bool { return p.InsPos(sites[i].ins) < p.InsPos(sites[j].ins) })
	r.Count(rule+" writes to package-level maps in pkg/eval and pkg/mods", len(sites))
	seen := map[string]bool{}
	for _, s := range sites {
		fn := s.ins.Parent()
		construct := core.FnKey(fn) + " writes package map " + s.g.Name()
		if seen[construct] {
			continue
		}
		seen[construct] = true
		pos := p.InsPos(s.ins)
		switch {
		case unreachable(fn):
			r.OK(rule, construct, pos, "the function is not called or referred to in this build configuration")
		case isInitOnly(core.Outer(fn), 0):
			r.OK(rule, construct, pos, "runs only during package initialisation (single goroutine)")
		case guarded(s.ins, 0):
			r.OK(rule, construct, pos, "a mutex is write-locked here, or at every call site leading here")
		case globalMapAudit[construct] != "":
			r.Audit(rule, construct, pos, globalMapAudit[construct])
		default:
			r.Bad(rule, construct, pos, "a package-level map is written after initialisation without a write lock on every path: two commands running concurrently (peach, run-parallel, pipeline stages) abort the interpreter with 'fatal error: concurrent map writes'")
		}
	}
}
