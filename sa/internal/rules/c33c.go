package rules

import (
	"strings"

	"golang.org/x/tools/go/ssa"

	"verif/sa/internal/core"
)

// runTextElemStore (C33 TEXT-ELEM-STORE): outside pkg/ui nobody writes an
// element of a styled Text in place. A Text handed out by pkg/ui is in normal
// form; replacing one of its segments by a segment of unknown text and style
// (the result of a script's styling function) can leave an empty segment or
// two neighbours of one style. Texts are assembled through the normalising
// API (TextBuilder, Concat, T, TextFromSegment).
func runTextElemStore(p *core.Program, r *core.Report) {
	const rule = "TEXT-ELEM-STORE"
	n := 0
	nfn := 0
	for _, fn := range p.RepoFns {
		pp := core.PkgPathOf(fn)
		if pp == pkgUI || strings.HasPrefix(pp, pkgUI+"/") || core.IsTestPkgPath(pp) || strings.Contains(pp, "/examples/") {
			continue
		}
		nfn++
		core.Instrs(fn, func(ins ssa.Instruction) {
			st, ok := ins.(*ssa.Store)
			if !ok {
				return
			}
			ia, ok := st.Addr.(*ssa.IndexAddr)
			if !ok || !core.IsNamed(ia.X.Type(), pkgUI, "Text") {
				return
			}
			n++
			r.Bad(rule, core.FnKey(fn)+" replaces a segment of a styled text in place", p.InsPos(ins), "a segment of a ui.Text is overwritten outside pkg/ui: the new segment may be empty or have the style of its neighbour, so the text is no longer in normal form (`styled ab {|s| put (styled-segment '')}` gave a text with an empty segment); assemble the result with ui.TextBuilder")
		})
	}
	if n == 0 && nfn > 0 {
		r.OK(rule, "no function outside pkg/ui writes an element of a ui.Text", "-", "searched "+fmtInt(int64(nfn))+" functions of the loaded packages outside pkg/ui")
	}
	r.Count(rule+" functions searched", nfn)
}
