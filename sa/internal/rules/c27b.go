package rules

import (
	"go/constant"
	"go/token"

	"golang.org/x/tools/go/ssa"

	"verif/sa/internal/core"
)

// chanOrigins: the make(chan) instructions a channel value can come from,
// through phis, single-assignment cells and captured variables.
func chanOrigins(v ssa.Value, seen map[ssa.Value]bool, out map[*ssa.MakeChan]bool) {
	if v == nil || seen[v] {
		return
	}
	seen[v] = true
	v = resolveVal(v)
	switch x := v.(type) {
	case *ssa.MakeChan:
		out[x] = true
	case *ssa.Phi:
		for _, e := range x.Edges {
			chanOrigins(e, seen, out)
		}
	case *ssa.ChangeType:
		chanOrigins(x.X, seen, out)
	case *ssa.UnOp:
		if x.Op == token.MUL {
			// a cell assigned more than once: every stored value
			var cell *ssa.Alloc
			switch a := x.X.(type) {
			case *ssa.Alloc:
				cell = a
			case *ssa.FreeVar:
				if b, ok := bindingOf(a).(*ssa.Alloc); ok {
					cell = b
				}
			}
			if cell != nil {
				for _, ref := range *cell.Referrers() {
					if st, ok := ref.(*ssa.Store); ok && st.Addr == ssa.Value(cell) {
						chanOrigins(st.Val, seen, out)
					}
				}
			}
		}
	}
}

// runRecvClosedOnce (C27 RECV-CLOSED-ONCE): a receive from a closed channel
// never blocks. A select inside a loop that has a receive case on a channel
// which some goroutine closes therefore either leaves the loop when that case
// fires, or stops selecting on the channel (the loop variable is set to nil);
// otherwise the loop spins on that case for ever - the daemon burns a CPU,
// floods its log, and its other cases (new connections, signals) starve.
func runRecvClosedOnce(p *core.Program, r *core.Report, pkg string) {
	const rule = "RECV-CLOSED-ONCE"
	closed := map[*ssa.MakeChan]ssa.Instruction{}
	fns := p.FnsInPkg(pkg)
	for _, fn := range fns {
		core.Instrs(fn, func(ins ssa.Instruction) {
			c, ok := ins.(ssa.CallInstruction)
			if !ok {
				return
			}
			if b, ok := c.Common().Value.(*ssa.Builtin); ok && b.Name() == "close" && len(c.Common().Args) == 1 {
				o := map[*ssa.MakeChan]bool{}
				chanOrigins(c.Common().Args[0], map[ssa.Value]bool{}, o)
				for m := range o {
					closed[m] = ins
				}
			}
		})
	}
	n := 0
	for _, fn := range fns {
		core.Instrs(fn, func(ins ssa.Instruction) {
			sel, ok := ins.(*ssa.Select)
			if !ok {
				return
			}
			inLoop := false
			for _, s := range sel.Block().Succs {
				if blockReaches(s, sel.Block()) {
					inLoop = true
				}
			}
			if !inLoop {
				return
			}
			for k, st := range sel.States {
				if st.Dir != 2 { // types.RecvOnly
					continue
				}
				o := map[*ssa.MakeChan]bool{}
				chanOrigins(st.Chan, map[ssa.Value]bool{}, o)
				var closer ssa.Instruction
				for m := range o {
					if c, ok := closed[m]; ok {
						closer = c
					}
				}
				if closer == nil {
					continue
				}
				n++
				construct := core.FnKey(fn) + " select case " + fmtInt(int64(k)) + " receives from a channel that is closed elsewhere"
				pos := p.InsPos(sel)
				// (i) the selected channel is a loop variable that is set to nil
				disabled := false
				if phi, ok := st.Chan.(*ssa.Phi); ok {
					for _, e := range phi.Edges {
						if isNilConst(e) {
							disabled = true
						}
					}
				}
				// (ii) the case's body cannot get back to the select
				leaves := false
				idx := selectIndex(sel)
				if idx != nil {
					for _, b := range fn.Blocks {
						if len(b.Instrs) == 0 {
							continue
						}
						iff, ok := b.Instrs[len(b.Instrs)-1].(*ssa.If)
						if !ok {
							continue
						}
						cmp, ok := iff.Cond.(*ssa.BinOp)
						if !ok || cmp.Op != token.EQL || cmp.X != idx {
							continue
						}
						if c, ok := cmp.Y.(*ssa.Const); ok && c.Value != nil && c.Value.Kind() == constant.Int {
							if v, _ := constant.Int64Val(c.Value); v == int64(k) {
								leaves = !blockReaches(b.Succs[0], sel.Block())
							}
						}
					}
				}
				switch {
				case disabled:
					r.OK(rule, construct, pos, "the selected channel is a loop variable that is set to nil after the case fires")
				case leaves:
					r.OK(rule, construct, pos, "the case leaves the loop on every path")
				default:
					r.Bad(rule, construct, pos, "the channel is closed at "+p.InsPos(closer)+" and the loop keeps selecting on it: once closed the case fires on every iteration (busy loop, log flood, the other cases starve)")
				}
			}
		})
	}
	r.Count(rule+" receive cases in loops on channels that are closed somewhere", n)
}

// selectIndex: the value holding the index of the case a select chose.
func selectIndex(sel *ssa.Select) ssa.Value {
	for _, ref := range *sel.Referrers() {
		if ex, ok := ref.(*ssa.Extract); ok && ex.Index == 0 {
			return ex
		}
	}
	return nil
}

// runUnlinkOnce (C27 UNLINK-ONCE): a function that listens on a unix socket
// path and also removes that path itself tells the listener not to unlink on
// Close. Go's UnixListener.Close unlinks the path it was created with; after
// the explicit removal the path may already belong to the socket of another
// daemon, which would lose its socket file ("removes only the socket it
// created").
func runUnlinkOnce(p *core.Program, r *core.Report, pkg string) {
	const rule = "UNLINK-ONCE"
	n := 0
	for _, fn := range p.FnsInPkg(pkg) {
		var listen *ssa.Call
		var removes []*ssa.Call
		var setFalse bool
		core.Instrs(fn, func(ins ssa.Instruction) {
			c, ok := ins.(*ssa.Call)
			if !ok {
				return
			}
			callee := c.Call.StaticCallee()
			if callee == nil {
				return
			}
			switch callee.String() {
			case "net.Listen":
				if k, ok := c.Call.Args[0].(*ssa.Const); ok && k.Value != nil && k.Value.Kind() == constant.String && constant.StringVal(k.Value) == "unix" {
					listen = c
				}
			case "os.Remove":
				removes = append(removes, c)
			case "(*net.UnixListener).SetUnlinkOnClose":
				if k, ok := c.Call.Args[1].(*ssa.Const); ok && k.Value != nil && k.Value.Kind() == constant.Bool && !constant.BoolVal(k.Value) {
					setFalse = true
				}
			}
		})
		if listen == nil {
			continue
		}
		for _, rm := range removes {
			if originKey(rm.Call.Args[0]) != originKey(listen.Call.Args[1]) {
				continue
			}
			n++
			construct := core.FnKey(fn) + " removes the path of the unix socket it listens on"
			if setFalse {
				r.OK(rule, construct, p.InsPos(rm), "the listener is told not to unlink on Close (SetUnlinkOnClose(false))")
			} else {
				r.Bad(rule, construct, p.InsPos(rm), "the path is removed here and again by the listener's Close (UnixListener.Close unlinks the path it was created with): a daemon that bound the path in between loses its socket file")
			}
		}
	}
	r.Count(rule+" functions that listen on a unix socket path and remove it themselves", n)
}
