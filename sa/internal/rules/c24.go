package rules

import (
	"go/constant"
	"go/token"
	"go/types"
	"strings"

	"golang.org/x/tools/go/ssa"

	"verif/sa/internal/core"
)

const (
	pkgBolt = "go.etcd.io/bbolt"
)

func init() {
	register(&core.Spec{
		ID: "C02",
		Explanation: "Decides clause 2 of C02 and the agreement clause structurally: (PARTIAL-DEF) the Partial flag of a parse error is only ever written as the result of comparing the START of the error's range with the length of the very source being parsed (or as constant false), so every error marked partial starts at the end of the input; (ENTER-AGREE) the predicate the editor's Enter key uses to decide between inserting a newline and submitting returns 'incomplete' exactly when some parse error is partial by that same definition (its Partial flag, or its start equal to the length of the code handed to the parser). That every proper prefix of a valid program yields only end-of-input errors is a fact about the grammar and is not decided.",
		NotCovered:  "clause 1 as a whole (prefixes of valid programs only produce errors at the end of input) is a language-level fact; ERROR-AT-POS decides only its structural part, that no error is reported at a saved or node position",
		Rules:       []string{"PARTIAL-DEF", "ENTER-AGREE", "ERROR-AT-POS: every parse error is reported at the parser's position at the report or a constant number of bytes before it"},
		Patterns:    []string{"./pkg/parse", "./pkg/edit", "./pkg/diag"},
		Run:         func(p *core.Program, r *core.Report) { runC02(p, r); runErrorAtPos(p, r) },
		MinCounts:   map[string]int{"PARTIAL-DEF": 1, "ENTER-AGREE": 1, "ERROR-AT-POS": 2},
		Trusted:     trustedBase,
		Controls: []core.Control{
			{Name: "partial-from-range-end", Rule: "PARTIAL-DEF", File: "pkg/parse/parser.go", Old: "Partial: r.Range().From == len(ps.src),", New: "Partial: r.Range().To == len(ps.src),", Fire: true, Quick: true, Patterns: []string{"./pkg/parse"}},
			{Name: "partial-always-true-at-eof-position", Rule: "PARTIAL-DEF", File: "pkg/parse/parser.go", Old: "Partial: r.Range().From == len(ps.src),", New: "Partial: ps.pos == len(ps.src),", Fire: true, Patterns: []string{"./pkg/parse"}},
			{Name: "enter-tests-range-end", Rule: "ENTER-AGREE", File: "pkg/edit/builtins.go", Old: "\t\tif e.Context.From == len(code) {", New: "\t\tif e.Context.To == len(code) {", Fire: true, Quick: true},
			{Name: "missing-operand-reported-after-operator", Rule: "ERROR-AT-POS", File: "pkg/parse/parser.go", Old: "func (ps *parser) error(e error) {\n\tend := ps.pos\n", New: "func (ps *parser) errorAt(at int, e error) {\n\tps.errorp(diag.PointRanging(at), e)\n}\n\nfunc (ps *parser) error(e error) {\n\tend := ps.pos\n", Fire: true, Want: "errorAt", Patterns: []string{"./pkg/parse"}},
			{Name: "benign-operands-swapped", Rule: "PARTIAL-DEF", File: "pkg/parse/parser.go", Old: "Partial: r.Range().From == len(ps.src),", New: "Partial: len(ps.src) == r.Range().From,", Fire: false},
			{Name: "benign-enter-uses-partial-flag", Rule: "ENTER-AGREE", File: "pkg/edit/builtins.go", Old: "\t\tif e.Context.From == len(code) {", New: "\t\tif e.Partial {", Fire: false},
		},
	})
	register(&core.Spec{
		ID: "C24",
		Explanation: "Decides structural necessary conditions of C24's sequence-number and ordering clauses: (SEQ-SOURCE) the key of every command added to the history is derived from bbolt's NextSequence() in the same transaction and from nothing else, the bucket's sequence is never set by hand, and 'next sequence number' is derived from the bucket's Sequence() (so numbers strictly increase and are never reused, even after deletions); (KEY-ORDER) the keys that cursor operations (Seek/Next/Prev/Last) compare are produced by one encoder that writes a fixed-width 8-byte big-endian integer and are read back by a decoder of the same width and byte order (byte-wise key order equals numeric order). Search semantics and directory scores are value-level and not decided.",
		NotCovered:  "prefix-search results, listing contents, directory score arithmetic",
		Rules:       []string{"SEQ-SOURCE", "KEY-ORDER", "ONE-TX: every store operation, listings included, runs at most one transaction (a listing walks one cursor over one snapshot)"},
		Patterns:    []string{"./pkg/store/..."},
		Run: func(p *core.Program, r *core.Report) {
			runC24(p, r)
			runOneTx(p, r, "the operation runs two transactions (or one in a loop) on some path: a listing assembled from several snapshots can repeat or skip commands when the history changes, or when the place to resume is computed from what the previous batch returned, so it is no longer in sequence order")
		},
		MinCounts:   map[string]int{"SEQ-SOURCE": 3, "KEY-ORDER": 3, "ONE-TX": 8},
		Trusted:     append([]string{"bbolt's NextSequence/Sequence semantics"}, trustedBase...),
		Controls: []core.Control{
			{Name: "key-from-sequence-plus-one", Rule: "SEQ-SOURCE", File: "pkg/store/cmd.go", Old: "\t\tseq, err = b.NextSequence()\n\t\tif err != nil {\n\t\t\treturn err\n\t\t}\n", New: "\t\tseq = b.Sequence() + 1\n", Fire: true, Quick: true},
			{Name: "next-seq-from-last-key", Rule: "SEQ-SOURCE", File: "pkg/store/cmd.go", Old: "\t\tseq = b.Sequence() + 1\n\t\treturn nil", New: "\t\tk, _ := b.Cursor().Last()\n\t\tif k != nil {\n\t\t\tseq = unmarshalSeq(k) + 1\n\t\t} else {\n\t\t\tseq = 1\n\t\t}\n\t\treturn nil", Fire: true},
			{Name: "little-endian-keys", Rule: "KEY-ORDER", File: "pkg/store/cmd.go", Old: "\tbinary.BigEndian.PutUint64(b, seq)", New: "\tbinary.LittleEndian.PutUint64(b, seq)", Edits: [][2]string{{"\treturn binary.BigEndian.Uint64(key)", "\treturn binary.LittleEndian.Uint64(key)"}}, Fire: true, Quick: true},
			{Name: "benign-append-uint64", Rule: "KEY-ORDER", File: "pkg/store/cmd.go", Old: "\tb := make([]byte, 8)\n\tbinary.BigEndian.PutUint64(b, seq)\n\treturn b", New: "\treturn binary.BigEndian.AppendUint64(nil, seq)", Fire: false},
		},
	})
	register(&core.Spec{
		ID: "C25",
		Explanation: "Decides that the history store delegates durability to bbolt correctly (bbolt itself is trusted): (TX-ONLY) every mutation of the database (Put, Delete, NextSequence, bucket creation/deletion) happens inside a function run by DB.Update (or registered in the initDB table, which only runs inside Update), never inside DB.View; (SYNC-ON) the options the persistent store is opened with do not disable fsync (NoSync/NoGrowSync) and carry a non-zero lock timeout, and no code turns syncing off afterwards; the in-memory test store that does disable it is audited; (ACK-AFTER-COMMIT) every store method returns to its caller the error of the Update/View it ran, so an operation is acknowledged only after its transaction committed. bbolt's own crash behaviour and reopening are not decided.",
		NotCovered:  "bbolt's crash consistency, behaviour of reopening after a kill",
		Rules:       []string{"TX-ONLY", "INIT-ALWAYS", "SYNC-ON", "ACK-AFTER-COMMIT", "ONE-TX: an acknowledged operation is one bbolt transaction, so a crash leaves either all or none of it"},
		Patterns:    []string{"./pkg/store/..."},
		Run: func(p *core.Program, r *core.Report) {
			runC25(p, r)
			runOneTx(p, r, "the operation runs two transactions (or one in a loop) on some path: a crash between their commits leaves a state that is not the state after any prefix of the acknowledged operations (for AddCmd: the command stored but the sequence not advanced, so the next command overwrites it)")
		},
		MinCounts:   map[string]int{"TX-ONLY": 6, "SYNC-ON": 1, "ACK-AFTER-COMMIT": 8, "ONE-TX": 8},
		Trusted:     append([]string{"bbolt transactions (Update commits atomically and durably unless NoSync is set)"}, trustedBase...),
		Controls: []core.Control{
			{Name: "put-inside-view", Rule: "TX-ONLY", File: "pkg/store/cmd.go", Old: "func (s *dbStore) DelCmd(seq int) error {\n\treturn s.db.Update(func(tx *bolt.Tx) error {", New: "func (s *dbStore) DelCmd(seq int) error {\n\treturn s.db.View(func(tx *bolt.Tx) error {", Fire: true, Quick: true},
			{Name: "nosync-in-default-options", Rule: "SYNC-ON", File: "pkg/store/db_store.go", Old: "\t\t\tTimeout: 1 * time.Second,\n", New: "\t\t\tTimeout: 1 * time.Second,\n\t\t\tNoSync:  true,\n", Fire: true, Quick: true},
			{Name: "no-lock-timeout", Rule: "SYNC-ON", File: "pkg/store/db_store.go", Old: "\t\t&bolt.Options{\n\t\t\tTimeout: 1 * time.Second,\n\t\t})", New: "\t\t&bolt.Options{})", Edits: [][2]string{{"\t\"sync\"\n\t\"time\"\n", "\t\"sync\"\n"}}, Fire: true},
			{Name: "addcmd-drops-commit-error", Rule: "ACK-AFTER-COMMIT", File: "pkg/store/cmd.go", Old: "\t\treturn b.Put(marshalSeq(seq), []byte(cmd))\n\t})\n\treturn int(seq), err", New: "\t\treturn b.Put(marshalSeq(seq), []byte(cmd))\n\t})\n\treturn int(seq), nil", Fire: true},
		},
	})
	register(&core.Spec{
		ID: "C26",
		Explanation: "Decides the structural argument behind C26: (ONE-TX) every operation of the store executes at most one bbolt transaction on any path, so each operation takes effect atomically at its transaction (bbolt serialises transactions); (STATELESS-SERVICE) the daemon's RPC handlers keep no state of their own - no handler writes a field of the service and each forwards to exactly one store operation - so the service adds no interleavings of its own. The client's reconnect logic, gob encoding and real interleavings are not decided.",
		NotCovered:  "client-side reconnect races, RPC transport, real schedules",
		Rules:       []string{"ONE-TX", "STATELESS-SERVICE", "REPLY-FRESH: the argument and reply objects of an RPC request are made by reflect.New when the request is read, never shared between requests"},
		Patterns:    []string{"./pkg/store/...", "./pkg/daemon/...", "./pkg/rpc"},
		Run:         func(p *core.Program, r *core.Report) { runC26(p, r); runReplyFresh(p, r) },
		MinCounts:   map[string]int{"ONE-TX": 8, "STATELESS-SERVICE": 8, "REPLY-FRESH": 2},
		Trusted:     append([]string{"bbolt serialises read-write transactions"}, trustedBase...),
		Controls: []core.Control{
			{Name: "reply-objects-from-a-shared-slot", Rule: "REPLY-FRESH", File: "pkg/rpc/server.go", Old: "\treplyv = reflect.New(mtype.ReplyType.Elem())\n", New: "\tif !lastReply.IsValid() || lastReply.Type() != mtype.ReplyType {\n\t\tlastReply = reflect.New(mtype.ReplyType.Elem())\n\t}\n\treplyv = lastReply\n", Edits: [][2]string{{"func (server *Server) readRequest(", "var lastReply reflect.Value\n\nfunc (server *Server) readRequest("}}, Fire: true, Want: "readRequest", Patterns: []string{"./pkg/rpc"}},
			{Name: "service-caches-command-texts", Rule: "STATELESS-SERVICE", File: "pkg/daemon/service.go", Old: "func (s *service) DelCmd(req *api.DelCmdRequest, res *api.DelCmdResponse) error {\n", New: "func (s *service) DelCmd(req *api.DelCmdRequest, res *api.DelCmdResponse) error {\n\ts.version++\n", Fire: true, Want: "DelCmd", Patterns: []string{"./pkg/daemon"}},
			{Name: "addcmd-split-into-view-and-update", Rule: "ONE-TX", File: "pkg/store/cmd.go", Old: "\terr = s.db.Update(func(tx *bolt.Tx) error {\n\t\tb := tx.Bucket([]byte(bucketCmd))\n\t\tseq, err = b.NextSequence()", New: "\ts.db.View(func(tx *bolt.Tx) error {\n\t\t_ = tx.Bucket([]byte(bucketCmd)).Sequence()\n\t\treturn nil\n\t})\n\terr = s.db.Update(func(tx *bolt.Tx) error {\n\t\tb := tx.Bucket([]byte(bucketCmd))\n\t\tseq, err = b.NextSequence()", Fire: true, Quick: true},
			{Name: "service-caches-last-seq", Rule: "STATELESS-SERVICE", File: "pkg/daemon/service.go", Old: "\tseq, err := s.store.AddCmd(req.Text)\n\tres.Seq = seq", New: "\tseq, err := s.store.AddCmd(req.Text)\n\ts.version = seq\n\tres.Seq = seq", Fire: true, Quick: true},
		},
	})
	register(&core.Spec{
		ID: "C27",
		Explanation: "Decides two structural clauses of C27: (REMOVE-OWN) the daemon removes the socket file only on paths where its own net.Listen on that very path succeeded (a daemon that failed to listen never deletes another daemon's socket); (SERVE-WHILE-CLIENTS) every exit of the serve loop other than the signal case is taken only when the set of live client connections is empty, and that set is modified only by the loop itself. The cross-process races of activation (stale socket removal versus a starting daemon) are not statically decidable here and are not claimed.",
		NotCovered:  "all cross-process interleavings of activation, spawn and stale-socket handling",
		Rules:       []string{"REMOVE-OWN", "SERVE-WHILE-CLIENTS", "RECV-CLOSED-ONCE: a select in a loop stops selecting on (or leaves the loop after) a receive case whose channel some goroutine closes", "UNLINK-ONCE: a function that removes the path of the unix socket it listens on tells the listener not to unlink on Close", "STALE-ONLY-REFUSED: the status on which activation removes the socket file is returned only on the success edge of errors.Is(err, ECONNREFUSED)"},
		Patterns:    []string{"./pkg/daemon/..."},
		Run: func(p *core.Program, r *core.Report) {
			runC27v2(p, r)
			runLenKey(p, r, "SERVE-WHILE-CLIENTS", pkgDaemon)
			runRecvClosedOnce(p, r, pkgDaemon)
			runStaleOnlyRefused(p, r, pkgDaemon)
		},
		MinCounts:   map[string]int{"REMOVE-OWN": 1, "SERVE-WHILE-CLIENTS": 2, "RECV-CLOSED-ONCE": 1, "UNLINK-ONCE": 1, "STALE-ONLY-REFUSED": 1},
		Trusted:     trustedBase,
		Controls: []core.Control{
			{Name: "stale-socket-on-any-temporary-error", Rule: "STALE-ONLY-REFUSED", File: "pkg/daemon/activate.go", Old: "\t\tif errors.Is(err, errConnRefused) {", New: "\t\tif errors.Is(err, errConnRefused) || errors.Is(err, os.ErrDeadlineExceeded) {", Fire: true, Want: "detectDaemon"},
			{Name: "benign-refused-test-inverted", Rule: "STALE-ONLY-REFUSED", File: "pkg/daemon/activate.go", Old: "\t\tif errors.Is(err, errConnRefused) {\n\t\t\treturn connectionRefused, err\n\t\t}\n\t\treturn connectionOtherError, err", New: "\t\tif !errors.Is(err, errConnRefused) {\n\t\t\treturn connectionOtherError, err\n\t\t}\n\t\treturn connectionRefused, err", Fire: false},
			{Name: "revert-fix-spin-on-closed-error-channel", Rule: "RECV-CLOSED-ONCE", File: "pkg/daemon/server.go", Old: "\t\tcase err := <-acceptErrCh:\n\t\t\tacceptErrCh = nil\n", New: "\t\tcase err := <-listenErrCh:\n", Edits: [][2]string{{"\tacceptErrCh := listenErrCh\n", ""}}, Fire: true, Want: "select case"},
			{Name: "revert-fix-listener-close-unlinks-again", Rule: "UNLINK-ONCE", File: "pkg/daemon/server.go", Old: "\tif ul, ok := listener.(*net.UnixListener); ok {\n\t\tul.SetUnlinkOnClose(false)\n\t}\n", New: "", Fire: true, Want: "removes the path"},
			{Name: "benign-error-channel-disabled-later-in-the-case", Rule: "RECV-CLOSED-ONCE", File: "pkg/daemon/server.go", Old: "\t\t\tacceptErrCh = nil\n\t\t\tlogger.Println(\"could not listen:\", err)\n", New: "\t\t\tlogger.Println(\"could not listen:\", err)\n\t\t\tacceptErrCh = nil\n", Fire: false},
			{Name: "remove-socket-when-listen-failed", Rule: "REMOVE-OWN", File: "pkg/daemon/server.go", Old: "\t\tlogger.Printf(\"failed to listen on %s: %v\", sockpath, err)\n\t\tlogger.Println(\"aborting\")\n\t\treturn 2", New: "\t\tlogger.Printf(\"failed to listen on %s: %v\", sockpath, err)\n\t\tlogger.Println(\"aborting\")\n\t\tos.Remove(sockpath)\n\t\treturn 2", Fire: true, Quick: true},
			{Name: "connections-numbered-by-table-size", Rule: "SERVE-WHILE-CLIENTS", File: "pkg/daemon/server.go", Old: "\tconns := make(map[net.Conn]struct{})\n", New: "\tconns := make(map[net.Conn]struct{})\n\tnumbered := map[int]net.Conn{}\n\tdefer func() { delete(numbered, 0) }()\n", Edits: [][2]string{{"\t\t\tconns[conn] = struct{}{}\n", "\t\t\tconns[conn] = struct{}{}\n\t\t\tnumbered[len(numbered)+1] = conn\n"}}, Fire: true, Want: "identifies the entry"},
			{Name: "exit-with-clients-on-conn-done", Rule: "SERVE-WHILE-CLIENTS", File: "pkg/daemon/server.go", Old: "\t\t\tdelete(conns, conn)\n\t\t\tif len(conns) == 0 {\n\t\t\t\tlogger.Println(\"all clients disconnected, exiting\")\n\t\t\t\tbreak loop\n\t\t\t}", New: "\t\t\tdelete(conns, conn)\n\t\t\tlogger.Println(\"a client disconnected, exiting\")\n\t\t\tbreak loop", Fire: true, Quick: true},
			{Name: "exit-with-clients-on-listen-error", Rule: "SERVE-WHILE-CLIENTS", File: "pkg/daemon/server.go", Old: "\t\t\tif len(conns) == 0 {\n\t\t\t\tlogger.Println(\"exiting since there are no clients\")\n\t\t\t\tbreak loop\n\t\t\t}\n\t\t\tlogger.Println(\"continuing to serve until all existing clients exit\")", New: "\t\t\tbreak loop", Fire: true},
		},
	})
	register(&core.Spec{
		ID: "C31",
		Explanation: "Decides two clauses of C31 structurally. (SEQ-INDEX, 'without crashing') in every function of the decoder - whatever is reachable inside pkg/cli/term from the functions that read bytes or runes with a timeout - each index or slice operation on a slice or string is within range on every path: constant positions under a length established by dominating checks, by make/append arithmetic or by the branch taken into a join; variable positions by loop bounds or the len-k shape. (TIMEOUT-ALL, 'no escape sequence can make it block past its timeout') in the terminal reader every read of a byte or rune passes a timeout that is either the caller's own timeout parameter, or a package variable initialised to a positive duration; the only reads with a negative (blocking) timeout are the first read of an event, which no other read precedes on any path and which is not inside a loop. So after the first byte of an event every further read is bounded. Decoding correctness is value-level and not decided.",
		NotCovered:  "that plain UTF-8 text decodes to exactly its characters; which key a sequence denotes; nil dereferences and map writes",
		Rules:       []string{"TIMEOUT-ALL", "SEQ-INDEX: every index into a list built from terminal bytes is within its proven length", "RUNEERROR-WIDTH: a decoded rune counts as a decoding failure only together with the reported width"},
		Patterns:    []string{"./pkg/cli/term"},
		OnlyGOOS:    []string{"linux", "darwin", "freebsd"},
		Run:         func(p *core.Program, r *core.Report) { runC31(p, r); runSeqIndex(p, r); runRuneErrorWidth(p, r) },
		MinCounts:   map[string]int{"TIMEOUT-ALL": 5, "SEQ-INDEX": 12},
		Trusted:     trustedBase,
		Controls: []core.Control{
			{Name: "rune-error-without-width", Rule: "RUNEERROR-WIDTH", File: "pkg/cli/term/read_rune.go", Old: "\treturn r, nil\n}", New: "\tif d, _ := utf8.DecodeRuneInString(string(r)); d == utf8.RuneError {\n\t\treturn badRune, errInvalidRune\n\t}\n\treturn r, nil\n}\n\nvar errInvalidRune = seqError{\"invalid UTF-8\", \"\"}", Edits: [][2]string{{"import (\n\t\"time\"\n)", "import (\n\t\"time\"\n\t\"unicode/utf8\"\n)"}}, Fire: true, Want: "readRune"},
			{Name: "benign-rune-error-with-width", Rule: "RUNEERROR-WIDTH", File: "pkg/cli/term/read_rune.go", Old: "\treturn r, nil\n}", New: "\tif d, n := utf8.DecodeRuneInString(string(r)); d == utf8.RuneError && n <= 1 {\n\t\treturn badRune, errInvalidRune\n\t}\n\treturn r, nil\n}\n\nvar errInvalidRune = seqError{\"invalid UTF-8\", \"\"}", Edits: [][2]string{{"import (\n\t\"time\"\n)", "import (\n\t\"time\"\n\t\"unicode/utf8\"\n)"}}, Fire: false},
			{Name: "inner-read-blocks", Rule: "TIMEOUT-ALL", File: "pkg/cli/term/reader_unix.go", Old: "r, e := readRune(rd, keySeqTimeout)", New: "r, e := readRune(rd, -1)", Fire: true, Quick: true},
			{Name: "continuation-bytes-block", Rule: "TIMEOUT-ALL", File: "pkg/cli/term/read_rune.go", Old: "b, err := rd.ReadByteWithTimeout(utf8SeqTimeout)", New: "b, err := rd.ReadByteWithTimeout(-1)", Fire: true},
			{Name: "sgr-mouse-weaker-length-check", Rule: "SEQ-INDEX", File: "pkg/cli/term/reader_unix.go", Old: "\t\t\t\tif len(nums) != 3 {\n\t\t\t\t\tbadSeq(\"bad SGR mouse event\")", New: "\t\t\t\tif len(nums) < 2 {\n\t\t\t\t\tbadSeq(\"bad SGR mouse event\")", Fire: true, Want: "[2]", Quick: true},
			{Name: "cpr-without-length-check", Rule: "SEQ-INDEX", File: "pkg/cli/term/reader_unix.go", Old: "\t\t\t\tif len(nums) != 2 {\n\t\t\t\t\tbadSeq(\"bad CPR\")\n\t\t\t\t\treturn\n\t\t\t\t}\n", New: "", Fire: true, Want: "readEvent"},
			{Name: "tilde-modifier-read-for-one-number", Rule: "SEQ-INDEX", File: "pkg/cli/term/reader_unix.go", Old: "\t\t\t\tif len(nums) == 1 {\n\t\t\t\t\t// Unmodified: \\e[5~ (e.g. PageUp)\n\t\t\t\t\treturn k\n\t\t\t\t}\n", New: "", Fire: true, Want: "parseCSI"},
			{Name: "digit-without-ensuring-a-slot", Rule: "SEQ-INDEX", File: "pkg/cli/term/reader_unix.go", Old: "\t\t\t\t\tif len(nums) == 0 {\n\t\t\t\t\t\tnums = append(nums, 0)\n\t\t\t\t\t}\n", New: "", Fire: true, Want: "readEvent"},
			{Name: "benign-length-check-as-switch", Rule: "SEQ-INDEX", File: "pkg/cli/term/reader_unix.go", Old: "\t\t} else if len(nums) == 2 && nums[0] == 1 {", New: "\t\t} else if n := len(nums); n >= 2 && n <= 2 && nums[0] == 1 {", Fire: false},
			{Name: "zero-timeout-variable", Rule: "TIMEOUT-ALL", File: "pkg/cli/term/reader_unix.go", Old: "var keySeqTimeout = 10 * time.Millisecond", New: "var keySeqTimeout = -10 * time.Millisecond", Fire: true},
		},
	})
}

// ---------- C02 ----------

func runC02(p *core.Program, r *core.Report) {
	// PARTIAL-DEF: every store into field Partial of a parse error
	n := 0
	for _, fn := range p.RepoFns {
		core.Instrs(fn, func(ins ssa.Instruction) {
			st, ok := ins.(*ssa.Store)
			if !ok {
				return
			}
			fa, ok := st.Addr.(*ssa.FieldAddr)
			if !ok {
				return
			}
			nT, f := core.FieldName(fa)
			if f != "Partial" || nT == nil || nT.Obj().Pkg() == nil || nT.Obj().Pkg().Path() != pkgDiag {
				return
			}
			// only parse errors (instantiated with parse.ErrorTag)
			if !strings.Contains(nT.String(), "parse.ErrorTag") {
				return
			}
			n++
			construct := core.FnKey(fn) + " Partial flag of a parse error"
			if c, ok := st.Val.(*ssa.Const); ok && c.Value != nil && c.Value.Kind() == constant.Bool && !constant.BoolVal(c.Value) {
				r.OK("PARTIAL-DEF", construct+" (constant false)", p.InsPos(ins), "trivial")
				return
			}
			cmp, ok := st.Val.(*ssa.BinOp)
			if !ok || (cmp.Op != token.EQL && cmp.Op != token.GEQ && cmp.Op != token.LEQ) {
				r.Bad("PARTIAL-DEF", construct, p.InsPos(ins), "the Partial flag is not the result of comparing the error's start with the source length")
				return
			}
			isLenSrc := func(v ssa.Value) bool {
				la := lenArg(v)
				return la != nil && strings.HasSuffix(exprKey(la), ".src")
			}
			isFrom := func(v ssa.Value) string {
				switch x := v.(type) {
				case *ssa.Field:
					_, f := core.FieldOfValue(x)
					return f
				case *ssa.UnOp:
					if fa2, ok := x.X.(*ssa.FieldAddr); ok {
						_, f := core.FieldName(fa2)
						return f
					}
				}
				return ""
			}
			var other ssa.Value
			switch {
			case isLenSrc(cmp.Y):
				other = cmp.X
			case isLenSrc(cmp.X):
				other = cmp.Y
			}
			switch {
			case other == nil:
				r.Bad("PARTIAL-DEF", construct, p.InsPos(ins), "the Partial flag is not compared against len(src) of the parser")
			case isFrom(other) == "From":
				// the source given to NewContext in the same literal must be the same src
				r.OK("PARTIAL-DEF", construct, p.InsPos(ins), "Partial = (range.From == len(ps.src)): only errors starting at the very end of the input are partial")
			case isFrom(other) == "To":
				r.Bad("PARTIAL-DEF", construct, p.InsPos(ins), "Partial is computed from the END of the error range: every error whose range merely reaches the end of the input is marked partial, so the REPL keeps waiting for more input on code that can never become valid")
			default:
				r.Bad("PARTIAL-DEF", construct, p.InsPos(ins), "Partial is not computed from the start of the error's own range (e.g. from the parser position): errors that do not start at the end of input can be marked partial")
			}
		})
	}
	r.Anchor("PARTIAL-DEF", "a store to the Partial field of a parse error", n >= 1)

	// ENTER-AGREE
	isc := p.Func(pkgEdit, "isSyntaxComplete")
	if !r.Anchor("ENTER-AGREE", "edit.isSyntaxComplete", isc != nil) {
		return
	}
	code := isc.Params[0]
	verdict, detail := "none", ""
	core.Instrs(isc, func(ins ssa.Instruction) {
		iff, ok := ins.(*ssa.If)
		if !ok {
			return
		}
		// does the true edge lead to `return false`?
		retFalse := func(b *ssa.BasicBlock) bool {
			for _, x := range b.Instrs {
				if ret, ok := x.(*ssa.Return); ok && len(ret.Results) == 1 {
					if c, ok := ret.Results[0].(*ssa.Const); ok && c.Value != nil && c.Value.Kind() == constant.Bool && !constant.BoolVal(c.Value) {
						return true
					}
				}
			}
			return false
		}
		if !retFalse(iff.Block().Succs[0]) {
			return
		}
		fieldOf := func(v ssa.Value) string {
			if addr, ok := core.IsLoad(v); ok {
				if fa, ok := addr.(*ssa.FieldAddr); ok {
					_, f := core.FieldName(fa)
					return f
				}
			}
			if fv, ok := v.(*ssa.Field); ok {
				_, f := core.FieldOfValue(fv)
				return f
			}
			return ""
		}
		switch c := iff.Cond.(type) {
		case *ssa.BinOp:
			var other ssa.Value
			if la := lenArg(c.Y); la == ssa.Value(code) {
				other = c.X
			} else if la := lenArg(c.X); la == ssa.Value(code) {
				other = c.Y
			}
			switch {
			case other == nil:
				verdict, detail = "bad", "the test that makes Enter insert a newline does not compare an error position with len(code)"
			case c.Op == token.EQL && fieldOf(other) == "From":
				if verdict != "bad" {
					verdict = "ok"
				}
			default:
				verdict, detail = "bad", "Enter inserts a newline when an error's "+fieldOf(other)+" (not its start) is at the end of the code: that differs from the parser's definition of a partial error"
			}
		default:
			if fieldOf(iff.Cond) == "Partial" {
				if verdict != "bad" {
					verdict = "ok"
				}
			} else {
				verdict, detail = "bad", "the test that makes Enter insert a newline is not the Partial flag nor the start-at-end-of-input comparison"
			}
		}
	})
	switch verdict {
	case "ok":
		r.OK("ENTER-AGREE", "edit.isSyntaxComplete uses the parser's definition of a partial error", p.Pos(isc.Pos()), "incomplete iff some error has Partial set / starts at len(code)")
	case "bad":
		r.Bad("ENTER-AGREE", "edit.isSyntaxComplete uses the parser's definition of a partial error", p.Pos(isc.Pos()), detail)
	default:
		r.Bad("ENTER-AGREE", "edit.isSyntaxComplete uses the parser's definition of a partial error", p.Pos(isc.Pos()), "cannot find the test that decides between newline and submit")
	}
}

// ---------- store helpers ----------

func boltMethod(ins ssa.Instruction) (recv, name string) {
	c, ok := ins.(ssa.CallInstruction)
	if !ok {
		return "", ""
	}
	callee := c.Common().StaticCallee()
	if callee == nil || core.PkgPathOf(callee) != pkgBolt || callee.Signature.Recv() == nil {
		return "", ""
	}
	return core.RecvName(callee.Signature.Recv().Type()), callee.Name()
}

var boltMutators = map[string]bool{"Bucket.Put": true, "Bucket.Delete": true, "Bucket.NextSequence": true, "Bucket.SetSequence": true, "Bucket.CreateBucket": true, "Bucket.CreateBucketIfNotExists": true, "Bucket.DeleteBucket": true, "Tx.CreateBucket": true, "Tx.CreateBucketIfNotExists": true, "Tx.DeleteBucket": true, "Cursor.Delete": true}

// txKind: how is this closure run? "Update", "View", "initDB" or "".
// txKinds classifies the functions of pkg/store by the kind of bbolt
// transaction they run in: a function (closure or named) passed to
// DB.Update / DB.View / DB.Batch, a function registered in the initDB table,
// or an unexported helper all of whose call sites are in functions of one
// such kind.
func txKinds(fns []*ssa.Function) map[*ssa.Function]string {
	kinds := map[*ssa.Function]string{}
	fnOf := func(v ssa.Value) *ssa.Function {
		switch x := v.(type) {
		case *ssa.MakeClosure:
			f, _ := x.Fn.(*ssa.Function)
			return f
		case *ssa.Function:
			return x
		}
		return nil
	}
	callers := map[*ssa.Function][]*ssa.Function{}
	for _, f := range fns {
		core.Instrs(f, func(ins ssa.Instruction) {
			if c, ok := ins.(ssa.CallInstruction); ok {
				if rcv, name := boltMethod(c); rcv == "DB" && (name == "Update" || name == "View" || name == "Batch") {
					for _, a := range c.Common().Args {
						if g := fnOf(a); g != nil {
							kinds[g] = name
						}
					}
				}
				if callee := c.Common().StaticCallee(); callee != nil {
					callers[callee] = append(callers[callee], f)
				}
			}
			if mu, ok := ins.(*ssa.MapUpdate); ok {
				if ld, ok := core.IsLoad(mu.Map); ok {
					if g, ok := ld.(*ssa.Global); ok && isTxInitTable(g) {
						if h := fnOf(mu.Value); h != nil {
							kinds[h] = "initDB"
						}
					}
				}
			}
		})
	}
	for changed := true; changed; {
		changed = false
		for _, f := range fns {
			if kinds[f] != "" || len(callers[f]) == 0 {
				continue
			}
			if obj := f.Object(); obj != nil && obj.Exported() {
				continue
			}
			k := ""
			same := true
			for _, c := range callers[f] {
				ck := kinds[c]
				if ck == "" || (k != "" && ck != k) {
					same = false
				}
				k = ck
			}
			if same && k != "" {
				kinds[f] = k
				changed = true
			}
		}
	}
	return kinds
}

var txKindCache = map[*ssa.Program]map[*ssa.Function]string{}

func txKind(fn *ssa.Function) string {
	prog := fn.Prog
	m, ok := txKindCache[prog]
	if !ok {
		var fns []*ssa.Function
		for _, pkg := range prog.AllPackages() {
			if pkg.Pkg.Path() != pkgStore {
				continue
			}
			var add func(f *ssa.Function)
			add = func(f *ssa.Function) {
				fns = append(fns, f)
				for _, a := range f.AnonFuncs {
					add(a)
				}
			}
			for _, mem := range pkg.Members {
				switch x := mem.(type) {
				case *ssa.Function:
					add(x)
				case *ssa.Type:
					for _, t := range []types.Type{x.Type(), types.NewPointer(x.Type())} {
						ms := prog.MethodSets.MethodSet(t)
						for i := 0; i < ms.Len(); i++ {
							if f := prog.MethodValue(ms.At(i)); f != nil && f.Pkg == pkg && f.Synthetic == "" {
								add(f)
							}
						}
					}
				}
			}
		}
		m = txKinds(fns)
		txKindCache[prog] = m
	}
	return m[fn]
}

func runC24(p *core.Program, r *core.Report) {
	fns := p.FnsInPkg(pkgStore)
	// SEQ-SOURCE (a): no SetSequence anywhere
	nset := 0
	for _, fn := range p.RepoFns {
		core.Instrs(fn, func(ins ssa.Instruction) {
			if rcv, name := boltMethod(ins); rcv == "Bucket" && name == "SetSequence" {
				nset++
				r.Bad("SEQ-SOURCE", core.FnKey(fn)+" Bucket.SetSequence", p.InsPos(ins), "the bucket's sequence counter is set by hand: sequence numbers can be reused")
			}
		})
	}
	if nset == 0 {
		r.OK("SEQ-SOURCE", "no Bucket.SetSequence in the program", "-", "the sequence counter only moves through NextSequence")
	}
	// SEQ-SOURCE (b): in AddCmd's transaction the Put key is marshalSeq(NextSequence result)
	addCmd := p.Method(pkgStore, "dbStore", "AddCmd")
	marshal := p.Func(pkgStore, "marshalSeq")
	unmarshal := p.Func(pkgStore, "unmarshalSeq")
	nextSeq := p.Method(pkgStore, "dbStore", "NextCmdSeq")
	if !r.Anchor("SEQ-SOURCE", "store.(*dbStore).AddCmd, NextCmdSeq, marshalSeq, unmarshalSeq", addCmd != nil && marshal != nil && unmarshal != nil && nextSeq != nil) {
		return
	}
	for _, a := range addCmd.AnonFuncs {
		core.Instrs(a, func(ins ssa.Instruction) {
			if rcv, name := boltMethod(ins); !(rcv == "Bucket" && name == "Put") {
				return
			}
			key := ins.(ssa.CallInstruction).Common().Args[1]
			okKey := false
			if c, ok := key.(*ssa.Call); ok && c.Call.StaticCallee() == marshal {
				arg := c.Call.Args[0]
				// arg is (a load of the cell holding) Extract(NextSequence, 0)
				var srcs []ssa.Value
				if addr, ok := core.IsLoad(arg); ok {
					// captured variable: look at all stores into it, in the closure and its parent
					for _, f := range []*ssa.Function{a, addCmd} {
						core.Instrs(f, func(x ssa.Instruction) {
							if st, ok := x.(*ssa.Store); ok && sameCell(st.Addr, addr, a) {
								srcs = append(srcs, st.Val)
							}
						})
					}
				} else {
					srcs = append(srcs, arg)
				}
				okKey = len(srcs) > 0
				for _, s := range srcs {
					ex, ok := s.(*ssa.Extract)
					if !ok {
						okKey = false
						continue
					}
					if rcv, name := boltMethod(asIns(ex.Tuple)); !(rcv == "Bucket" && name == "NextSequence") {
						okKey = false
					}
				}
			}
			if okKey {
				r.OK("SEQ-SOURCE", "store.(*dbStore).AddCmd key is NextSequence() of the same transaction", p.InsPos(ins), "Put(marshalSeq(seq)) with seq assigned only from b.NextSequence()")
			} else {
				r.Bad("SEQ-SOURCE", "store.(*dbStore).AddCmd key is NextSequence() of the same transaction", p.InsPos(ins), "the key of a new history entry is not taken from bbolt's NextSequence(): after a deletion (or between concurrent clients) a sequence number can be handed out twice")
			}
		})
	}
	// SEQ-SOURCE (c): NextCmdSeq derives from Bucket.Sequence()
	usesSeq, usesCursor := false, false
	for _, a := range append([]*ssa.Function{nextSeq}, nextSeq.AnonFuncs...) {
		core.Instrs(a, func(ins ssa.Instruction) {
			if rcv, name := boltMethod(ins); rcv == "Bucket" && name == "Sequence" {
				usesSeq = true
			}
			if rcv, _ := boltMethod(ins); rcv == "Cursor" {
				usesCursor = true
			}
		})
	}
	if usesSeq && !usesCursor {
		r.OK("SEQ-SOURCE", "store.(*dbStore).NextCmdSeq derives from Bucket.Sequence()", p.Pos(nextSeq.Pos()), "not from the last existing key")
	} else {
		r.Bad("SEQ-SOURCE", "store.(*dbStore).NextCmdSeq derives from Bucket.Sequence()", p.Pos(nextSeq.Pos()), "the next sequence number is derived from the stored keys instead of the bucket's counter: after deleting the newest command its number is announced again")
	}

	// KEY-ORDER
	endian := func(fn *ssa.Function) (string, string) {
		e, m := "", ""
		core.Instrs(fn, func(ins ssa.Instruction) {
			if c, ok := ins.(ssa.CallInstruction); ok {
				if callee := c.Common().StaticCallee(); callee != nil && core.PkgPathOf(callee) == "encoding/binary" && callee.Signature.Recv() != nil {
					e, m = core.RecvName(callee.Signature.Recv().Type()), callee.Name()
				}
			}
		})
		return e, m
	}
	me, mm := endian(marshal)
	ue, um := endian(unmarshal)
	if me == "bigEndian" && (mm == "PutUint64" || mm == "AppendUint64") {
		r.OK("KEY-ORDER", "store.marshalSeq writes a fixed-width big-endian key", p.Pos(marshal.Pos()), "binary.BigEndian."+mm+": byte-wise order of keys equals numeric order")
	} else {
		r.Bad("KEY-ORDER", "store.marshalSeq writes a fixed-width big-endian key", p.Pos(marshal.Pos()), "sequence numbers are not encoded as 8-byte big-endian integers ("+me+"."+mm+"): bbolt orders keys byte-wise, so listings and prefix searches go out of sequence order once numbers exceed 255")
	}
	if ue == "bigEndian" && um == "Uint64" {
		r.OK("KEY-ORDER", "store.unmarshalSeq reads what marshalSeq writes", p.Pos(unmarshal.Pos()), "binary.BigEndian.Uint64")
	} else {
		r.Bad("KEY-ORDER", "store.unmarshalSeq reads what marshalSeq writes", p.Pos(unmarshal.Pos()), "the key decoder does not match the encoder's width/byte order")
	}
	// every key handed to a cursor/bucket of the command table comes from marshalSeq
	nk, okAll := 0, true
	for _, fn := range fns {
		core.Instrs(fn, func(ins ssa.Instruction) {
			rcv, name := boltMethod(ins)
			if !(rcv == "Cursor" && name == "Seek") {
				return
			}
			nk++
			arg := ins.(ssa.CallInstruction).Common().Args[1]
			if c, ok := arg.(*ssa.Call); !ok || c.Call.StaticCallee() != marshal {
				okAll = false
				r.Bad("KEY-ORDER", core.FnKey(fn)+" Cursor.Seek key comes from marshalSeq", p.InsPos(ins), "a cursor is positioned with a key that is not produced by the one key encoder")
			}
		})
	}
	if okAll && nk > 0 {
		r.OK("KEY-ORDER", "every Cursor.Seek key comes from marshalSeq", "-", itoa(nk)+" call sites")
	}
}

// sameCell: addr (seen in closure a, a FreeVar or an Alloc) and the store's address denote the same variable.
func sameCell(storeAddr, loadAddr ssa.Value, closure *ssa.Function) bool {
	if storeAddr == loadAddr {
		return true
	}
	fv, ok := loadAddr.(*ssa.FreeVar)
	if !ok {
		return false
	}
	// store in the parent into the bound cell
	idx := -1
	for i, q := range closure.FreeVars {
		if q == fv {
			idx = i
		}
	}
	if idx < 0 || closure.Parent() == nil {
		return false
	}
	same := false
	core.Instrs(closure.Parent(), func(ins ssa.Instruction) {
		if mc, ok := ins.(*ssa.MakeClosure); ok && mc.Fn == closure && mc.Bindings[idx] == storeAddr {
			same = true
		}
	})
	return same
}

func runC25(p *core.Program, r *core.Report) {
	fns := p.FnsInPkg(pkgStore)
	// TX-ONLY
	for _, fn := range fns {
		core.Instrs(fn, func(ins ssa.Instruction) {
			rcv, name := boltMethod(ins)
			if !boltMutators[rcv+"."+name] {
				return
			}
			construct := core.FnKey(fn) + " " + rcv + "." + name
			kind := txKind(fn)
			switch kind {
			case "Update", "Batch":
				r.OK("TX-ONLY", construct, p.InsPos(ins), "inside the function run by DB."+kind)
			case "initDB":
				r.OK("TX-ONLY", construct, p.InsPos(ins), "registered in initDB, which NewStoreFromDB runs inside DB.Update")
			case "View":
				r.Bad("TX-ONLY", construct, p.InsPos(ins), "a mutation inside a read-only transaction: bbolt rejects it at run time (ErrTxNotWritable) and the operation is silently lost or reported as failed")
			default:
				r.Bad("TX-ONLY", construct, p.InsPos(ins), "a database mutation outside a function run by DB.Update: it is not part of an atomic, durable transaction")
			}
		})
	}
	// initDB functions only run inside Update
	nsfd := p.Func(pkgStore, "NewStoreFromDB")
	if r.Anchor("TX-ONLY", "store.NewStoreFromDB", nsfd != nil) {
		okInit := false
		var cands []*ssa.Function
		cands = append(cands, nsfd.AnonFuncs...)
		core.Instrs(nsfd, func(ins ssa.Instruction) {
			if c, ok := ins.(ssa.CallInstruction); ok {
				for _, a := range c.Common().Args {
					if f, ok := a.(*ssa.Function); ok {
						cands = append(cands, f)
					}
				}
			}
		})
		for _, a := range cands {
			if txKind(a) == "Update" {
				core.Instrs(a, func(ins ssa.Instruction) {
					if rg, ok := ins.(*ssa.Range); ok {
						if ld, ok := core.IsLoad(rg.X); ok {
							if g, ok := ld.(*ssa.Global); ok && isTxInitTable(g) {
								okInit = true
							}
						}
					}
				})
			}
		}
		if okInit {
			r.OK("TX-ONLY", "store.NewStoreFromDB runs the initDB table inside DB.Update", p.Pos(nsfd.Pos()), "range over initDB inside the Update closure")
		} else {
			r.Bad("TX-ONLY", "store.NewStoreFromDB runs the initDB table inside DB.Update", p.Pos(nsfd.Pos()), "the table-creation functions are not run inside a read-write transaction")
		}
	}
	// INIT-ALWAYS: every store handed out by NewStore went through
	// NewStoreFromDB (which creates the buckets inside an Update); a path
	// that skips it returns a store whose buckets may not exist, e.g. after
	// a crash between file creation and the first commit
	newStore := p.Func(pkgStore, "NewStore")
	if r.Anchor("INIT-ALWAYS", "store.NewStore and store.NewStoreFromDB", newStore != nil && nsfd != nil) {
		bad := false
		var where ssa.Instruction
		nret := 0
		core.Instrs(newStore, func(ins ssa.Instruction) {
			ret, ok := ins.(*ssa.Return)
			if !ok || len(ret.Results) != 2 {
				return
			}
			v := ret.Results[0]
			if c, isC := v.(*ssa.Const); isC && c.IsNil() {
				return
			}
			nret++
			fromInit := false
			if ex, ok := v.(*ssa.Extract); ok {
				if c, ok := ex.Tuple.(*ssa.Call); ok && c.Call.StaticCallee() == nsfd {
					fromInit = true
				}
			}
			if !fromInit {
				bad, where = true, ins
			}
		})
		switch {
		case bad:
			r.Bad("INIT-ALWAYS", "store.NewStore initialises the buckets on every path", p.InsPos(where), "NewStore can return a store that did not go through NewStoreFromDB: if a previous process was killed after the database file was created but before its buckets were committed, every later open skips the initialisation and the first history operation dereferences a missing bucket")
		case nret == 0:
			r.Bad("INIT-ALWAYS", "store.NewStore initialises the buckets on every path", p.Pos(newStore.Pos()), "cannot find where NewStore returns its store")
		default:
			r.OK("INIT-ALWAYS", "store.NewStore initialises the buckets on every path", p.Pos(newStore.Pos()), "every non-nil store returned is the result of NewStoreFromDB")
		}
	}
	// SYNC-ON: bolt.Options literals
	nopt := 0
	for _, fn := range p.RepoFns {
		core.Instrs(fn, func(ins ssa.Instruction) {
			a, ok := ins.(*ssa.Alloc)
			if !ok || !core.IsNamed(a.Type(), pkgBolt, "Options") {
				return
			}
			nopt++
			set := map[string]ssa.Value{}
			for _, ref := range *a.Referrers() {
				if fa, ok := ref.(*ssa.FieldAddr); ok {
					_, f := core.FieldName(fa)
					for _, r2 := range *fa.Referrers() {
						if st, ok := r2.(*ssa.Store); ok && st.Addr == fa {
							set[f] = st.Val
						}
					}
				}
			}
			fk := core.FnKey(fn)
			construct := fk + " bolt.Options"
			isTrue := func(v ssa.Value) bool {
				c, ok := v.(*ssa.Const)
				return !ok || (c.Value != nil && c.Value.Kind() == constant.Bool && constant.BoolVal(c.Value))
			}
			nosync := (set["NoSync"] != nil && isTrue(set["NoSync"])) || (set["NoGrowSync"] != nil && isTrue(set["NoGrowSync"]))
			if nosync {
				if strings.Contains(fk, "MustTempStore") || strings.Contains(fk, "TempStore") || strings.Contains(p.InsPos(ins), "temp_store.go") {
					r.Audit("SYNC-ON", construct+" (temporary store)", p.InsPos(ins), "throw-away store in a temporary file used by tests and by the daemon-less fallback; it is deleted on close, durability is not expected")
				} else {
					r.Bad("SYNC-ON", construct, p.InsPos(ins), "the history database is opened with fsync disabled: an acknowledged command can be lost, or the file corrupted, if the process is killed")
				}
				return
			}
			if t, ok := set["Timeout"]; ok {
				if n, isC := constInt(t); isC && n > 0 {
					r.OK("SYNC-ON", construct, p.InsPos(ins), "syncing left on; lock timeout is a positive constant")
					return
				}
			}
			r.Bad("SYNC-ON", construct, p.InsPos(ins), "no positive lock timeout: opening the database waits forever for a lock held by another process (daemon activation hangs)")
		})
	}
	r.Anchor("SYNC-ON", "bolt.Options literal", nopt >= 1)
	for _, fn := range p.RepoFns {
		core.Instrs(fn, func(ins ssa.Instruction) {
			if st, ok := ins.(*ssa.Store); ok {
				if fa, ok := st.Addr.(*ssa.FieldAddr); ok {
					nT, f := core.FieldName(fa)
					if nT != nil && nT.Obj().Pkg() != nil && nT.Obj().Pkg().Path() == pkgBolt && nT.Obj().Name() == "DB" && (f == "NoSync" || f == "NoGrowSync") {
						r.Bad("SYNC-ON", core.FnKey(fn)+" assigns DB."+f, p.InsPos(ins), "syncing is switched off on an open database")
					}
				}
			}
		})
	}
	// ACK-AFTER-COMMIT: the error of Update/View reaches a return
	st := p.NamedType(pkgStore, "dbStore")
	if !r.Anchor("ACK-AFTER-COMMIT", "store.dbStore", st != nil) {
		return
	}
	for _, fn := range fns {
		if fn.Parent() != nil || fn.Signature.Recv() == nil || core.RecvName(fn.Signature.Recv().Type()) != "dbStore" {
			continue
		}
		core.Instrs(fn, func(ins ssa.Instruction) {
			rcv, name := boltMethod(ins)
			if !(rcv == "DB" && (name == "Update" || name == "View")) {
				return
			}
			c, ok := ins.(*ssa.Call)
			construct := core.FnKey(fn) + " returns the error of DB." + name
			if !ok {
				r.Bad("ACK-AFTER-COMMIT", construct, p.InsPos(ins), "the transaction is started asynchronously or deferred")
				return
			}
			reaches := false
			var follow func(v ssa.Value, depth int)
			seenV := map[ssa.Value]bool{}
			follow = func(v ssa.Value, depth int) {
				if depth > 6 || seenV[v] || v.Referrers() == nil {
					return
				}
				seenV[v] = true
				for _, ref := range *v.Referrers() {
					switch x := ref.(type) {
					case *ssa.Return:
						reaches = true
					case *ssa.Phi:
						follow(x, depth+1)
					case *ssa.Store:
						if cell, ok := x.Addr.(*ssa.Alloc); ok && x.Val == v {
							for _, r2 := range *cell.Referrers() {
								if ld, ok := r2.(*ssa.UnOp); ok && ld.Op == token.MUL {
									follow(ld, depth+1)
								}
							}
						}
					}
				}
			}
			follow(c, 0)
			if reaches {
				r.OK("ACK-AFTER-COMMIT", construct, p.InsPos(ins), "the transaction's error is what the method returns")
			} else {
				r.Bad("ACK-AFTER-COMMIT", construct, p.InsPos(ins), "the error of the transaction is dropped: the caller is told the operation succeeded although its transaction may have failed to commit")
			}
		})
	}
}

func runC26(p *core.Program, r *core.Report) {
	runOneTx(p, r, "the operation runs two transactions (or one in a loop) on some path: another client's operation can take effect between them, so the operation is not atomic")
	runStatelessService(p, r)
}

// runOneTx: every exported operation of the store runs at most one bbolt
// transaction on any path.
func runOneTx(p *core.Program, r *core.Report, badMsg string) {
	fns := p.FnsInPkg(pkgStore)
	// which dbStore methods run a transaction (directly)?
	txCalls := func(fn *ssa.Function) []ssa.Instruction {
		var out []ssa.Instruction
		core.Instrs(fn, func(ins ssa.Instruction) {
			if rcv, name := boltMethod(ins); rcv == "DB" && (name == "Update" || name == "View" || name == "Batch") {
				out = append(out, ins)
			}
		})
		return out
	}
	hasTx := map[*ssa.Function]bool{}
	for _, fn := range fns {
		if len(txCalls(fn)) > 0 {
			hasTx[fn] = true
		}
	}
	// propagate through static calls within the package (IterateCmds <- CmdsWithSeq)
	for changed := true; changed; {
		changed = false
		for _, fn := range fns {
			if hasTx[fn] {
				continue
			}
			core.Instrs(fn, func(ins ssa.Instruction) {
				if c, ok := ins.(ssa.CallInstruction); ok {
					if callee := c.Common().StaticCallee(); callee != nil && hasTx[callee] && !hasTx[fn] {
						hasTx[fn] = true
						changed = true
					}
				}
			})
		}
	}
	for _, fn := range fns {
		if fn.Parent() != nil || fn.Signature.Recv() == nil || core.RecvName(fn.Signature.Recv().Type()) != "dbStore" {
			continue
		}
		if obj := fn.Object(); obj == nil || !obj.Exported() || fn.Name() == "Close" {
			continue
		}
		var txs []ssa.Instruction
		core.Instrs(fn, func(ins ssa.Instruction) {
			if rcv, name := boltMethod(ins); rcv == "DB" && (name == "Update" || name == "View" || name == "Batch") {
				txs = append(txs, ins)
				return
			}
			if c, ok := ins.(ssa.CallInstruction); ok {
				if callee := c.Common().StaticCallee(); callee != nil && hasTx[callee] && core.PkgPathOf(callee) == pkgStore {
					txs = append(txs, ins)
				}
			}
		})
		construct := core.FnKey(fn) + " runs at most one transaction"
		two := false
		for _, t := range txs {
			if reach, _ := core.Reaches(t, func(x ssa.Instruction) bool {
				for _, u := range txs {
					if u == x {
						return true
					}
				}
				return false
			}, nil); reach {
				two = true
			}
		}
		// transactions started from inside a transaction closure
		for _, a := range fn.AnonFuncs {
			if len(txCalls(a)) > 0 {
				two = true
			}
		}
		switch {
		case two:
			r.Bad("ONE-TX", construct, p.Pos(fn.Pos()), badMsg)
		case len(txs) == 0:
			r.OK("ONE-TX", construct, p.Pos(fn.Pos()), "no transaction")
		default:
			r.OK("ONE-TX", construct, p.Pos(fn.Pos()), "exactly one DB.Update/View on every path")
		}
	}
}

func runStatelessService(p *core.Program, r *core.Report) {
	svc := p.NamedType(pkgDaemon, "service")
	if !r.Anchor("STATELESS-SERVICE", "daemon.service", svc != nil) {
		return
	}
	for _, fn := range p.FnsInPkg(pkgDaemon) {
		if fn.Parent() != nil || fn.Signature.Recv() == nil || core.RecvName(fn.Signature.Recv().Type()) != "service" {
			continue
		}
		writes := ""
		storeCalls := 0
		core.Instrs(fn, func(ins ssa.Instruction) {
			if st, ok := ins.(*ssa.Store); ok {
				if fa, ok := st.Addr.(*ssa.FieldAddr); ok {
					if nT, f := core.FieldName(fa); nT != nil && nT.Obj() == svc.Obj() {
						writes = f
					}
				}
			}
			// the address of a field of the service is only ever loaded
			// from: handing it to a method (s.cache.Store(...), s.mu.Lock())
			// or writing through a loaded map means the service keeps state
			if fa, ok := ins.(*ssa.FieldAddr); ok {
				if nT, f := core.FieldName(fa); nT != nil && nT.Obj() == svc.Obj() {
					for _, ref := range *fa.Referrers() {
						switch u := ref.(type) {
						case *ssa.UnOp:
							for _, r2 := range *u.Referrers() {
								if mu, ok := r2.(*ssa.MapUpdate); ok && mu.Map == ssa.Value(u) {
									writes = f + " (map update)"
								}
							}
						case *ssa.Store:
							// counted above
						case *ssa.DebugRef:
						default:
							writes = f + " (its address is passed on: " + strings.TrimSpace(ref.String()) + ")"
						}
					}
				}
			}
			if c, ok := ins.(*ssa.Call); ok && c.Call.IsInvoke() {
				if addr, ok := core.IsLoad(c.Call.Value); ok {
					if fa, ok := addr.(*ssa.FieldAddr); ok {
						if nT, f := core.FieldName(fa); nT != nil && nT.Obj() == svc.Obj() && f == "store" {
							storeCalls++
						}
					}
				}
			}
		})
		construct := core.FnKey(fn) + " is stateless and forwards to one store operation"
		switch {
		case writes != "":
			r.Bad("STATELESS-SERVICE", construct, p.Pos(fn.Pos()), "the handler writes the service's field "+writes+": handlers run concurrently (one goroutine per connection), so the service now has shared state outside the database's transactions")
		case storeCalls > 1:
			r.Bad("STATELESS-SERVICE", construct, p.Pos(fn.Pos()), "the handler performs more than one store operation: the RPC is no longer one atomic step")
		default:
			r.OK("STATELESS-SERVICE", construct, p.Pos(fn.Pos()), "no field writes; "+itoa(storeCalls)+" store operation")
		}
	}
}

// ---------- C27 ----------

func runC27(p *core.Program, r *core.Report) {
	serve := p.Func(pkgDaemon, "Serve")
	if !r.Anchor("REMOVE-OWN", "daemon.Serve", serve != nil) {
		return
	}
	sockpath := serve.Params[0]
	var listen *ssa.Call
	var removes []*ssa.Call
	var all []*ssa.Function
	var collect func(f *ssa.Function)
	collect = func(f *ssa.Function) {
		all = append(all, f)
		for _, a := range f.AnonFuncs {
			collect(a)
		}
	}
	collect(serve)
	for _, f := range all {
		core.Instrs(f, func(ins ssa.Instruction) {
			c, ok := ins.(*ssa.Call)
			if !ok || c.Call.StaticCallee() == nil {
				return
			}
			switch c.Call.StaticCallee().String() {
			case "net.Listen":
				listen = c
			case "os.Remove", "os.RemoveAll":
				removes = append(removes, c)
			}
		})
	}
	if !r.Anchor("REMOVE-OWN", "net.Listen and os.Remove in daemon.Serve", listen != nil && len(removes) >= 1) {
		return
	}
	for i, rm := range removes {
		construct := "daemon.Serve removes only the socket it listened on #" + itoa(i+1)
		arg := rm.Call.Args[0]
		site := ssa.Instruction(rm)
		if rm.Parent() != serve {
			// inside a closure of Serve: resolve the captured path and use
			// the place where the closure is deferred / called
			if addr, ok := core.IsLoad(arg); ok {
				if fv, ok := addr.(*ssa.FreeVar); ok {
					if b := bindingOf(fv); b != nil {
						if cell, ok := b.(*ssa.Alloc); ok {
							for _, ref := range *cell.Referrers() {
								if st, ok := ref.(*ssa.Store); ok && st.Addr == ssa.Value(cell) {
									arg = st.Val
								}
							}
						}
					}
				}
			}
			if fv, ok := arg.(*ssa.FreeVar); ok {
				if b := bindingOf(fv); b != nil {
					arg = b
				}
			}
			site = nil
			core.Instrs(serve, func(x ssa.Instruction) {
				if c, ok := x.(ssa.CallInstruction); ok {
					if cf, ok := closureOf(c.Common().Value); ok && cf == rm.Parent() {
						site = x
					}
				}
			})
		}
		isSock := arg == ssa.Value(sockpath)
		okEdge := site != nil && !inErrBranch(serve, listen, 1, site.Block()) && core.Precedes(listen, site) && listenOKDominates(serve, listen, site.Block())
		switch {
		case !isSock:
			r.Bad("REMOVE-OWN", construct, p.InsPos(rm), "the daemon removes a path other than the socket path it was given")
		case !okEdge:
			r.Bad("REMOVE-OWN", construct, p.InsPos(rm), "the socket file is removed on a path where this daemon's own net.Listen did not succeed: it deletes the socket of the daemon that is actually serving, cutting it off from new clients")
		default:
			r.OK("REMOVE-OWN", construct, p.InsPos(rm), "dominated by the success edge of net.Listen(\"unix\", sockpath)")
		}
	}

	// SERVE-WHILE-CLIENTS
	// the blocking select of the serve loop
	var sel *ssa.Select
	core.Instrs(serve, func(ins ssa.Instruction) {
		if s, ok := ins.(*ssa.Select); ok && s.Blocking {
			sel = s
		}
	})
	if !r.Anchor("SERVE-WHILE-CLIENTS", "blocking select of the serve loop", sel != nil) {
		return
	}
	// the serve loop = blocks that lie on a cycle through the select; its
	// exits are the blocks of the loop that have a successor outside it
	inLoop := map[*ssa.BasicBlock]bool{}
	{
		reachFrom := func(start *ssa.BasicBlock) map[*ssa.BasicBlock]bool {
			seen := map[*ssa.BasicBlock]bool{}
			work := []*ssa.BasicBlock{start}
			for len(work) > 0 {
				b := work[len(work)-1]
				work = work[:len(work)-1]
				for _, sc := range b.Succs {
					if !seen[sc] {
						seen[sc] = true
						work = append(work, sc)
					}
				}
			}
			return seen
		}
		fromSel := reachFrom(sel.Block())
		for b := range fromSel {
			if reachFrom(b)[sel.Block()] {
				inLoop[b] = true
			}
		}
		inLoop[sel.Block()] = true
	}
	var exitPreds []*ssa.BasicBlock
	for _, b := range serve.Blocks {
		if !inLoop[b] {
			continue
		}
		for _, sc := range b.Succs {
			if !inLoop[sc] && !core.IsPanicBlock(sc) {
				// judge the edge: if the target belongs to this edge alone
				// (a case body that ends in `break loop`), the target is
				// what the guards must dominate
				if len(sc.Preds) == 1 {
					exitPreds = append(exitPreds, sc)
				} else {
					exitPreds = append(exitPreds, b)
				}
			}
		}
	}
	isNoClients := func(v ssa.Value) bool {
		cmp, ok := v.(*ssa.BinOp)
		if !ok || cmp.Op != token.EQL {
			return false
		}
		n, isC := constInt(cmp.Y)
		la := lenArg(cmp.X)
		if !isC || n != 0 || la == nil {
			return false
		}
		_, isMap := la.Type().Underlying().(*types.Map)
		return isMap
	}
	// signal case: blocks dominated by a block that calls the local `interrupt` closure / reads a chan os.Signal
	sigIdx := -1
	for i, st := range sel.States {
		if ch, ok := st.Chan.Type().Underlying().(*types.Chan); ok && strings.HasSuffix(ch.Elem().String(), "os.Signal") {
			sigIdx = i
		}
	}
	inSignalCase := func(b *ssa.BasicBlock) bool {
		// dominated by the true edge of `index == sigIdx`
		for _, blk := range serve.Blocks {
			if len(blk.Instrs) == 0 {
				continue
			}
			iff, ok := blk.Instrs[len(blk.Instrs)-1].(*ssa.If)
			if !ok {
				continue
			}
			cmp, ok := iff.Cond.(*ssa.BinOp)
			if !ok || cmp.Op != token.EQL {
				continue
			}
			ex, ok := cmp.X.(*ssa.Extract)
			if !ok || ex.Tuple != ssa.Value(sel) || ex.Index != 0 {
				continue
			}
			if n, isC := constInt(cmp.Y); isC && int(n) == sigIdx && core.EdgeTo(blk, b) == 0 {
				return true
			}
		}
		return false
	}
	nexits := 0
	for _, pred := range exitPreds {
		nexits++
		construct := "daemon.Serve loop exit #" + itoa(nexits)
		switch {
		case sigIdx >= 0 && inSignalCase(pred):
			r.OK("SERVE-WHILE-CLIENTS", construct+" (signal)", p.InsPos(pred.Instrs[len(pred.Instrs)-1]), "termination requested by a signal: connections are closed deliberately")
		case dominatedByCondEdge(serve, isNoClients, true, pred):
			r.OK("SERVE-WHILE-CLIENTS", construct, p.InsPos(pred.Instrs[len(pred.Instrs)-1]), "taken only when len(conns) == 0")
		default:
			r.Bad("SERVE-WHILE-CLIENTS", construct, p.InsPos(pred.Instrs[len(pred.Instrs)-1]), "the daemon can leave its serve loop (and remove its socket) while clients are still connected")
		}
	}
	r.Anchor("SERVE-WHILE-CLIENTS", "exits of the serve loop", nexits >= 2)
	// conns is only modified by the loop itself
	okMod := true
	for _, f := range all {
		if f == serve {
			continue
		}
		core.Instrs(f, func(ins ssa.Instruction) {
			switch x := ins.(type) {
			case *ssa.MapUpdate:
				if strings.Contains(x.Map.Type().String(), "net.Conn") {
					okMod = false
				}
			case ssa.CallInstruction:
				if b, ok := x.Common().Value.(*ssa.Builtin); ok && b.Name() == "delete" && strings.Contains(x.Common().Args[0].Type().String(), "net.Conn") {
					okMod = false
				}
			}
		})
	}
	if okMod {
		r.OK("SERVE-WHILE-CLIENTS", "daemon.Serve connection set modified only by the serve loop", p.Pos(serve.Pos()), "no goroutine or helper closure inserts into or deletes from conns")
	} else {
		r.Bad("SERVE-WHILE-CLIENTS", "daemon.Serve connection set modified only by the serve loop", p.Pos(serve.Pos()), "the set of live connections is modified outside the loop goroutine: the len(conns) == 0 tests race with it")
	}
}

func listenOKDominates(fn *ssa.Function, listen *ssa.Call, blk *ssa.BasicBlock) bool {
	for _, b := range fn.Blocks {
		if len(b.Instrs) == 0 {
			continue
		}
		iff, ok := b.Instrs[len(b.Instrs)-1].(*ssa.If)
		if !ok {
			continue
		}
		cmp, ok := iff.Cond.(*ssa.BinOp)
		if !ok {
			continue
		}
		ex, ok := throughCell(cmp.X).(*ssa.Extract)
		if !ok || ex.Tuple != ssa.Value(listen) || ex.Index != 1 {
			continue
		}
		edge := core.EdgeTo(b, blk)
		if (cmp.Op == token.NEQ && edge == 1) || (cmp.Op == token.EQL && edge == 0) {
			return true
		}
	}
	return false
}

// ---------- C31 ----------

func runC31(p *core.Program, r *core.Report) {
	readRune := p.Func(pkgTerm, "readRune")
	if !r.Anchor("TIMEOUT-ALL", "term.readRune", readRune != nil) {
		return
	}
	// positive package variables
	posVar := map[string]bool{}
	if initFn := p.Pkg(pkgTerm).Func("init"); initFn != nil {
		core.Instrs(initFn, func(ins ssa.Instruction) {
			if st, ok := ins.(*ssa.Store); ok {
				if g, ok := st.Addr.(*ssa.Global); ok {
					if n, isC := constInt(st.Val); isC {
						posVar[g.Name()] = n > 0
					}
				}
			}
		})
	}
	type read struct {
		ins     ssa.Instruction
		timeout ssa.Value
		fn      *ssa.Function
	}
	var reads []read
	for _, fn := range p.FnsInPkg(pkgTerm) {
		core.Instrs(fn, func(ins ssa.Instruction) {
			c, ok := ins.(*ssa.Call)
			if !ok {
				return
			}
			if c.Call.IsInvoke() && c.Call.Method.Name() == "ReadByteWithTimeout" {
				reads = append(reads, read{ins, c.Call.Args[0], fn})
			}
			if c.Call.StaticCallee() == readRune {
				reads = append(reads, read{ins, c.Call.Args[1], fn})
			}
		})
	}
	r.Count("TIMEOUT-ALL read call sites", len(reads))
	n := 0
	for _, rd := range reads {
		n++
		fk := core.FnKey(rd.fn)
		construct := fk + " read #" + itoa(n) + " timeout " + addrDesc(rd.timeout)
		switch t := rd.timeout.(type) {
		case *ssa.Parameter:
			r.OK("TIMEOUT-ALL", construct, p.InsPos(rd.ins), "passes on the caller's timeout")
		case *ssa.UnOp:
			if g, ok := t.X.(*ssa.Global); ok {
				if pos, known := posVar[g.Name()]; known && pos {
					r.OK("TIMEOUT-ALL", construct, p.InsPos(rd.ins), "package variable initialised to a positive duration")
				} else {
					r.Bad("TIMEOUT-ALL", construct, p.InsPos(rd.ins), "the timeout variable is not initialised to a positive constant duration: a non-positive value means 'wait forever'")
				}
			} else {
				r.Bad("TIMEOUT-ALL", construct, p.InsPos(rd.ins), "the timeout of this read is computed at run time (it is not a positive constant, a package variable initialised to a positive duration, or the caller's own timeout): a value that reaches zero or below means 'wait for ever', so an incomplete escape sequence can block the reader")
			}
		case *ssa.Const:
			v, _ := constInt(t)
			if v > 0 {
				r.OK("TIMEOUT-ALL", construct, p.InsPos(rd.ins), "positive constant")
				continue
			}
			// blocking read: must be the first read on every path and not in a loop
			isRead := func(x ssa.Instruction) bool {
				for _, o := range reads {
					if o.ins == x {
						return true
					}
				}
				return false
			}
			inLoop, _ := core.Reaches(rd.ins, func(x ssa.Instruction) bool { return x == rd.ins }, nil)
			// is it reachable from another read in the same function (incl. calls of its own closures)?
			preceded := false
			core.Instrs(rd.fn, func(x ssa.Instruction) {
				if x == rd.ins {
					return
				}
				readsHere := isRead(x)
				if c, ok := x.(*ssa.Call); ok {
					if cf, ok := closureOf(c.Call.Value); ok && cf.Parent() == rd.fn {
						readsHere = true
					}
				}
				if readsHere && reachesIns(x, rd.ins) {
					preceded = true
				}
			})
			// a blocking read inside a closure is never "the first read of an event"
			if rd.fn.Parent() != nil {
				preceded = true
			}
			if !inLoop && !preceded {
				r.OK("TIMEOUT-ALL", construct, p.InsPos(rd.ins), "blocking read that nothing precedes: the wait for the first byte of an event")
			} else {
				r.Bad("TIMEOUT-ALL", construct, p.InsPos(rd.ins), "a read with no timeout after the first byte of an event (or inside a loop): an incomplete escape sequence blocks the reader forever instead of timing out")
			}
		default:
			r.Bad("TIMEOUT-ALL", construct, p.InsPos(rd.ins), "the timeout of this read is computed at run time (it is not a positive constant, a package variable initialised to a positive duration, or the caller's own timeout): a value that reaches zero or below means 'wait for ever', so an incomplete escape sequence can block the reader")
		}
	}
}

// isTxInitTable: a package-level table of pkg/store whose values are functions
// that take a bbolt transaction (the bucket-creation table, whatever its name).
func isTxInitTable(g *ssa.Global) bool {
	if g.Pkg == nil || g.Pkg.Pkg.Path() != pkgStore {
		return false
	}
	ptr, ok := g.Type().(*types.Pointer)
	if !ok {
		return false
	}
	var elem types.Type
	switch t := ptr.Elem().Underlying().(type) {
	case *types.Map:
		elem = t.Elem()
	case *types.Slice:
		elem = t.Elem()
	default:
		return false
	}
	sig, ok := elem.Underlying().(*types.Signature)
	if !ok || sig.Params().Len() != 1 {
		return false
	}
	pt, ok := sig.Params().At(0).Type().(*types.Pointer)
	return ok && core.IsNamed(pt.Elem(), pkgBolt, "Tx")
}
