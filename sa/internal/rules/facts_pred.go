package rules

import (
	"strings"

	"golang.org/x/tools/go/ssa"

	"verif/sa/internal/core"
)

// predInProgress guards predicateFacts against recursion through at().
var predInProgress = map[*ssa.Function]bool{}

// predicateFacts: cond is a call of a small boolean function of the
// repository (func hasPort(ports []*Port, i int) bool { return i >= 0 && i <
// len(ports) && ports[i] != nil }) and v is one of its arguments: the facts
// about the corresponding parameter that hold on every return path yielding
// `truth`, with lengths of the function's parameters re-expressed as lengths
// of the arguments.
func (e *factEngine) predicateFacts(call *ssa.Call, truth bool, v ssa.Value, f factSet) {
	callee := call.Call.StaticCallee()
	if callee == nil || callee.Blocks == nil || !strings.HasPrefix(core.PkgPathOf(callee), core.ModPath) || predInProgress[callee] {
		return
	}
	res := callee.Signature.Results()
	if res.Len() != 1 || !isBoolType(res.At(0).Type()) || len(callee.Blocks) > 12 {
		return
	}
	args := call.Call.Args
	if len(args) != len(callee.Params) {
		return
	}
	predInProgress[callee] = true
	defer delete(predInProgress, callee)
	for j, a := range args {
		if a != v {
			continue
		}
		prm := callee.Params[j]
		var acc factSet
		contribute := func(fs factSet) {
			if acc == nil {
				acc = fs
			} else {
				acc = meet(acc, fs)
			}
		}
		feasible := false
		core.Instrs(callee, func(ins ssa.Instruction) {
			ret, ok := ins.(*ssa.Return)
			if !ok || len(ret.Results) != 1 {
				return
			}
			switch r := ret.Results[0].(type) {
			case *ssa.Const:
				if constBool(r) == truth {
					feasible = true
					contribute(e.at(prm, ret, 1))
				}
			case *ssa.Phi:
				for i, ev := range r.Edges {
					if c, isC := ev.(*ssa.Const); isC && constBool(c) != truth {
						continue
					}
					feasible = true
					pred := r.Block().Preds[i]
					fs := factSet{}
					if len(pred.Instrs) > 0 {
						term := pred.Instrs[len(pred.Instrs)-1]
						for k := range e.at(prm, term, 1) {
							fs[k] = true
						}
						if piff, ok := term.(*ssa.If); ok && len(pred.Succs) == 2 && pred.Succs[0] != pred.Succs[1] {
							e.fromCond(piff.Cond, pred.Succs[0] == r.Block(), prm, fs)
						}
					}
					if _, isC := ev.(*ssa.Const); !isC {
						e.fromCond(ev, truth, prm, fs)
					}
					contribute(fs.normalise())
				}
			default:
				feasible = true
				fs := factSet{}
				for k := range e.at(prm, ret, 1) {
					fs[k] = true
				}
				e.fromCond(ret.Results[0], truth, prm, fs)
				contribute(fs.normalise())
			}
		})
		if !feasible || acc == nil {
			continue
		}
		// lengths of parameters become lengths of arguments
		for k := range acc {
			out := k
			for _, pre := range []string{"ltlen:", "lelen:"} {
				if strings.HasPrefix(k, pre) {
					key := strings.TrimPrefix(k, pre)
					out = ""
					for m, p2 := range callee.Params {
						if key == exprKey(p2) {
							out = pre + exprKey(args[m])
						}
					}
				}
			}
			if out != "" {
				f[out] = true
			}
		}
	}
}
