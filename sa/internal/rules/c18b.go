package rules

import (
	"strings"

	"golang.org/x/tools/go/ssa"

	"verif/sa/internal/core"
)

// runInputToEOF (C18 INPUT-TO-EOF): a stage that reads its byte input to the
// end must not stop early for a reason other than the reader's own error.
// bufio.Scanner gives up with ErrTooLong on a line of 64 KiB (its token
// limit): the stage silently loses the rest of the input and, because it
// stops reading the pipe while still waiting for its value channel, the
// pipeline can hang. The interpreter and its modules therefore never read
// input through a bufio.Scanner. The expected count is zero; the seeded-fault
// control keeps a positive example.
func runInputToEOF(p *core.Program, r *core.Report) {
	const rule = "INPUT-TO-EOF"
	var fns []*ssa.Function
	for _, f := range p.RepoFns {
		pp := core.PkgPathOf(f)
		if core.IsTestPkgPath(pp) {
			continue
		}
		if pp == pkgEval || strings.HasPrefix(pp, pkgEval+"/") || strings.HasPrefix(pp, "src.elv.sh/pkg/mods") {
			fns = append(fns, f)
		}
	}
	r.Count(rule+" functions scanned (pkg/eval, pkg/mods)", len(fns))
	n := 0
	readers := 0
	for _, fn := range fns {
		core.Instrs(fn, func(ins ssa.Instruction) {
			c, ok := ins.(ssa.CallInstruction)
			if !ok {
				return
			}
			callee := c.Common().StaticCallee()
			if callee == nil {
				return
			}
			switch callee.String() {
			case "bufio.NewScanner":
				n++
				r.Bad(rule, core.FnKey(fn)+" reads through bufio.Scanner", p.InsPos(ins), "bufio.Scanner stops with ErrTooLong at a 64 KiB line: the rest of the input is silently dropped and the writer of the pipe can block forever; read with bufio.Reader.ReadString / ReadBytes until the reader's own error")
			case "(*bufio.Reader).ReadString", "(*bufio.Reader).ReadBytes", "(*bufio.Reader).ReadRune", "io.ReadAll", "io.Copy":
				readers++
			}
		})
	}
	r.Count(rule+" unbounded read calls (ReadString, ReadBytes, ReadRune, ReadAll, Copy)", readers)
	if !r.Anchor(rule, "the interpreter reads byte input somewhere (bufio.Reader / io.ReadAll)", readers >= 3) {
		return
	}
	if n == 0 {
		r.OK(rule, "no bufio.Scanner in pkg/eval and pkg/mods", "", "byte input is read with unbounded readers only")
	}
}
