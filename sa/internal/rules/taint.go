package rules

import (
	"go/constant"
	"go/token"
	"go/types"
	"sort"
	"strings"

	"golang.org/x/tools/go/ssa"

	"verif/sa/internal/core"
)

// E1: taint from script-controlled values to panic-prone operations.

type taintEngine struct {
	p       *core.Program
	entries map[*ssa.Function]string // registered Go functions -> elvish name
	tainted map[ssa.Value]string     // value -> origin description
	work    []ssa.Value
	sites   map[*ssa.Function][]ssa.CallInstruction
}

func isNumeric(t types.Type) bool {
	b, ok := t.Underlying().(*types.Basic)
	return ok && b.Info()&(types.IsInteger|types.IsFloat) != 0
}

func isStringType(t types.Type) bool {
	b, ok := t.Underlying().(*types.Basic)
	return ok && b.Kind() == types.String
}

func isIface(t types.Type) bool { _, ok := t.Underlying().(*types.Interface); return ok }

func isBig(t types.Type) bool { return strings.Contains(t.String(), "math/big.") }

// interesting: types through which a script-chosen scalar can travel.
func interesting(t types.Type) bool {
	if b, ok := t.Underlying().(*types.Basic); ok && b.Kind() == types.String {
		return true
	}
	if isNumeric(t) {
		return true
	}
	if isIface(t) {
		s := t.String()
		if strings.HasSuffix(s, "eval.Callable") || strings.HasSuffix(s, "ValueOutput") || strings.HasSuffix(s, "eval.Inputs") {
			return false
		}
		return true
	}
	switch u := t.Underlying().(type) {
	case *types.Slice:
		return interesting(u.Elem())
	case *types.Struct:
		return true // option structs
	case *types.Pointer:
		if isBig(t) {
			return true
		}
		// pointers to small records of numbers (vals.ListIndex)
		if st, ok := u.Elem().Underlying().(*types.Struct); ok && st.NumFields() <= 4 {
			for i := 0; i < st.NumFields(); i++ {
				if !isNumeric(st.Field(i).Type()) && !isBoolType(st.Field(i).Type()) {
					return false
				}
			}
			return st.NumFields() > 0
		}
	}
	return false
}

func isBoolType(t types.Type) bool {
	b, ok := t.Underlying().(*types.Basic)
	return ok && b.Kind() == types.Bool
}

func fnOfValue(v ssa.Value) *ssa.Function {
	switch v := v.(type) {
	case *ssa.Function:
		return v
	case *ssa.MakeClosure:
		return v.Fn.(*ssa.Function)
	case *ssa.MakeInterface:
		return fnOfValue(v.X)
	case *ssa.ChangeType:
		return fnOfValue(v.X)
	}
	return nil
}

// discoverEntries finds every Go function registered as an Elvish command:
// values of map[string]any literals and arguments of AddGoFn/NewGoFn.
func discoverEntries(p *core.Program) map[*ssa.Function]string {
	entries := map[*ssa.Function]string{}
	for _, fn := range p.RepoFns {
		pkgName := ""
		if fn.Pkg != nil {
			pkgName = fn.Pkg.Pkg.Name()
		} else {
			pp := core.PkgPathOf(fn)
			pkgName = pp[strings.LastIndex(pp, "/")+1:]
		}
		core.Instrs(fn, func(ins ssa.Instruction) {
			switch v := ins.(type) {
			case *ssa.MapUpdate:
				if f := fnOfValue(v.Value); f != nil {
					if mt, ok := v.Map.Type().Underlying().(*types.Map); ok && isIface(mt.Elem()) {
						name := "?"
						if c, ok := v.Key.(*ssa.Const); ok && c.Value != nil && c.Value.Kind() == constant.String {
							name = constant.StringVal(c.Value)
						}
						entries[f] = pkgName + ":" + name
					}
				}
			case ssa.CallInstruction:
				c := v.Common()
				if callee := c.StaticCallee(); callee != nil && core.PkgPathOf(callee) == pkgEval && (callee.Name() == "AddGoFn" || callee.Name() == "NewGoFn") {
					for _, a := range c.Args {
						if f := fnOfValue(a); f != nil {
							if _, dup := entries[f]; !dup {
								entries[f] = pkgName + ":(AddGoFn " + f.Name() + ")"
							}
						}
					}
				}
			}
		})
	}
	return entries
}

func newTaintEngine(p *core.Program, entries map[*ssa.Function]string) *taintEngine {
	t := &taintEngine{p: p, entries: entries, tainted: map[ssa.Value]string{}}
	t.seed()
	t.propagate()
	return t
}

func (t *taintEngine) mark(v ssa.Value, why string) {
	if v == nil {
		return
	}
	if _, ok := v.(*ssa.Const); ok {
		return
	}
	if _, ok := t.tainted[v]; ok {
		return
	}
	t.tainted[v] = why
	t.work = append(t.work, v)
}

func (t *taintEngine) seed() {
	var efns []*ssa.Function
	for f := range t.entries {
		efns = append(efns, f)
	}
	sort.Slice(efns, func(i, j int) bool {
		if t.entries[efns[i]] != t.entries[efns[j]] {
			return t.entries[efns[i]] < t.entries[efns[j]]
		}
		return efns[i].String() < efns[j].String()
	})
	for _, f := range efns {
		name := t.entries[f]
		if core.IsTestPkgPath(core.PkgPathOf(f)) {
			continue
		}
		for _, prm := range f.Params {
			if interesting(prm.Type()) {
				t.mark(prm, "param "+prm.Name()+" of "+name)
			}
		}
	}
	for _, fn := range t.p.RepoFns {
		fname := core.FnKey(fn)
		core.Instrs(fn, func(ins ssa.Instruction) {
			c, ok := ins.(*ssa.Call)
			if !ok {
				return
			}
			if c.Call.IsInvoke() && c.Call.Method.Name() == "Call" && core.IsNamed(c.Call.Value.Type(), pkgEval, "Callable") {
				t.mark(c, "Callable.Call result in "+fname)
			}
			// values produced by evaluating an expression of the program
			if c.Call.IsInvoke() && c.Call.Method.Name() == "exec" && core.IsNamed(c.Call.Value.Type(), pkgEval, "valuesOp") {
				t.mark(c, "valuesOp.exec result in "+fname)
			}
			// inputs(func(v any) {...}): every input value is script-controlled
			if !c.Call.IsInvoke() && core.IsNamed(c.Call.Value.Type(), pkgEval, "Inputs") {
				for _, a := range c.Call.Args {
					if f := fnOfValue(a); f != nil {
						for _, prm := range f.Params {
							if interesting(prm.Type()) {
								t.mark(prm, "input value in "+fname)
							}
						}
					}
				}
			}
			// the value of a variable: whatever the program last assigned,
			// including $nil for a variable backed by a nil-able Go type
			if c.Call.IsInvoke() && c.Call.Method.Name() == "Get" && core.IsNamed(c.Call.Value.Type(), pkgEval+"/vars", "Var") {
				t.mark(c, "value of a variable in "+fname)
			}
			callee := c.Call.StaticCallee()
			if callee == nil {
				return
			}
			cp := core.PkgPathOf(callee)
			switch {
			case cp == pkgEval+"/vars" && callee.Name() == "Get" && callee.Signature.Recv() != nil && core.RecvName(callee.Signature.Recv().Type()) == "PtrVar":
				t.mark(c, "value of a variable in "+fname)
			case cp == pkgEval && callee.Name() == "evalForValue":
				t.mark(c, "evalForValue result in "+fname)
			case cp == pkgEval && callee.Name() == "evalForFd":
				t.mark(c, "evalForFd result in "+fname)
			case cp == pkgVals && callee.Name() == "ScanListElementsToGo":
				for _, a := range c.Call.Args[1:] {
					if sl, ok := a.(*ssa.Slice); ok {
						if arr, ok := sl.X.(*ssa.Alloc); ok {
							for _, r := range *arr.Referrers() {
								if ia, ok := r.(*ssa.IndexAddr); ok {
									for _, r2 := range *ia.Referrers() {
										if st, ok := r2.(*ssa.Store); ok {
											if mi, ok := st.Val.(*ssa.MakeInterface); ok {
												if al, ok := mi.X.(*ssa.Alloc); ok {
													t.mark(al, "ScanListElementsToGo dest in "+fname)
												}
											}
										}
									}
								}
							}
						}
					}
				}
			case cp == pkgVals && (callee.Name() == "ScanToGo" || callee.Name() == "ScanToGoOpts"):
				if len(c.Call.Args) >= 2 {
					if mi, ok := c.Call.Args[1].(*ssa.MakeInterface); ok {
						if a, ok := mi.X.(*ssa.Alloc); ok {
							t.mark(a, "ScanToGo dest in "+fname)
						}
					}
				}
			case cp == "strconv" && (callee.Name() == "Atoi" || callee.Name() == "ParseInt" || callee.Name() == "ParseFloat" || callee.Name() == "ParseUint"):
				if pp := core.PkgPathOf(fn); strings.HasPrefix(pp, pkgEval) || strings.HasPrefix(pp, "src.elv.sh/pkg/mods") {
					t.mark(c, "strconv."+callee.Name()+" result in "+fname)
				}
			}
		})
	}
}

func (t *taintEngine) propagate() {
	for len(t.work) > 0 {
		v := t.work[len(t.work)-1]
		t.work = t.work[:len(t.work)-1]
		why := t.tainted[v]
		refs := v.Referrers()
		if refs == nil {
			continue
		}
		for _, r := range *refs {
			switch r := r.(type) {
			case *ssa.BinOp:
				switch r.Op {
				case token.ADD, token.SUB, token.MUL, token.QUO, token.REM, token.SHL, token.SHR, token.AND, token.OR, token.XOR, token.AND_NOT:
					t.mark(r, why)
				}
			case *ssa.UnOp:
				if r.Op == token.SUB || r.Op == token.MUL || r.Op == token.XOR {
					t.mark(r, why)
				}
			case *ssa.Convert, *ssa.ChangeType, *ssa.ChangeInterface, *ssa.MakeInterface, *ssa.Phi, *ssa.TypeAssert:
				t.mark(r.(ssa.Value), why)
			case *ssa.Extract:
				if r.Index == 0 {
					t.mark(r, why)
				}
			case *ssa.Field:
				if interesting(r.Type()) {
					t.mark(r, why)
				}
			case *ssa.FieldAddr:
				if interesting(r.Type().(*types.Pointer).Elem()) {
					t.mark(r, why)
				}
			case *ssa.IndexAddr:
				if r.X == v && interesting(r.Type().(*types.Pointer).Elem()) {
					t.mark(r, why)
				}
			case *ssa.Index:
				if r.X == v {
					t.mark(r, why)
				}
			case *ssa.Lookup:
				if r.X == v {
					t.mark(r, why)
				}
			case *ssa.Range:
				t.mark(r, why)
			case *ssa.Next:
				t.mark(r, why)
			case *ssa.Slice:
				if r.X == v {
					t.mark(r, why)
				}
			case *ssa.Store:
				if r.Val == v {
					if a, ok := r.Addr.(*ssa.Alloc); ok {
						t.mark(a, why)
					}
				}
			case *ssa.Return:
				// a helper of this repository returns the number: it is
				// script-controlled at every call site (numbers only: for
				// interface values the dynamic type is what matters, and that
				// is established inside the helper)
				fn := r.Parent()
				if fn.Parent() != nil || !strings.HasPrefix(core.PkgPathOf(fn), core.ModPath+"/") {
					continue
				}
				if _, isEntry := t.entries[fn]; isEntry {
					continue
				}
				for i, res := range r.Results {
					if res != v {
						continue
					}
					for _, site := range t.callSites(fn) {
						val, ok := site.(ssa.Value)
						if !ok {
							continue
						}
						if len(r.Results) == 1 {
							if isNumeric(val.Type()) {
								t.mark(val, why+" -> return of "+fn.Name())
							}
							continue
						}
						for _, ref := range *val.Referrers() {
							if ex, ok := ref.(*ssa.Extract); ok && ex.Index == i && isNumeric(ex.Type()) {
								t.mark(ex, why+" -> return of "+fn.Name())
							}
						}
					}
				}
			case ssa.CallInstruction:
				c := r.Common()
				callee := core.Callee(r)
				if callee == nil {
					continue
				}
				cp := core.PkgPathOf(callee)
				if val, ok := r.(ssa.Value); ok {
					if cp == "math/big" || cp == "math" || cp == pkgVals {
						rt := val.Type()
						if tup, ok := rt.(*types.Tuple); ok && tup.Len() > 0 {
							rt = tup.At(0).Type()
						}
						if interesting(rt) || isBig(rt) {
							t.mark(val, why)
						}
					}
					// z.Set(x), z.Add(x, y), ...: the receiver of a math/big
					// method is overwritten with a number computed from the
					// arguments (acc := new(big.Rat); acc.Set(x); acc.Inv(acc))
					if cp == "math/big" && callee.Signature.Recv() != nil && len(c.Args) > 1 && c.Args[0] != v && isBig(c.Args[0].Type()) {
						if _, isPtr := c.Args[0].Type().(*types.Pointer); isPtr {
							t.mark(c.Args[0], why)
						}
					}
					// (positions computed from a script-controlled string by
					// strings.Index* / utf8.Decode* are deliberately not
					// followed: the eight `i := strings.Index(s, sep); s[:i],
					// s[i+len(sep):]` idioms of the repository would need a
					// match-length fact the engine does not have)
				}
				// vals.Iterate*(container, func(elem ...) bool): elements of a
				// script-controlled container are script-controlled
				if cp == pkgVals && strings.HasPrefix(callee.Name(), "Iterate") && len(c.Args) >= 2 && c.Args[0] == v {
					if f := fnOfValue(c.Args[1]); f != nil {
						for _, prm := range f.Params {
							if interesting(prm.Type()) {
								t.mark(prm, why+" -> element")
							}
						}
					}
				}
				if callee.Blocks == nil || !strings.HasPrefix(cp, core.ModPath+"/") {
					continue
				}
				for i, a := range c.Args {
					if a == v && i < len(callee.Params) {
						pt := callee.Params[i].Type()
						if isNumeric(pt) || isBig(pt) || strings.HasSuffix(pt.String(), "vals.Num") || (isIface(pt) && interesting(pt)) || isStringType(pt) {
							short := why
							if strings.Count(short, " -> ") < 4 {
								short = why + " -> " + callee.Name()
							}
							t.mark(callee.Params[i], short)
						}
					}
				}
			}
		}
		for _, r := range *refs {
			if mc, ok := r.(*ssa.MakeClosure); ok {
				f := mc.Fn.(*ssa.Function)
				for i, b := range mc.Bindings {
					if b == v && i < len(f.FreeVars) {
						t.mark(f.FreeVars[i], why+" -> closure")
					}
				}
			}
		}
	}
}

// callSites: the static call sites of fn in the repository (built lazily).
func (t *taintEngine) callSites(fn *ssa.Function) []ssa.CallInstruction {
	if t.sites == nil {
		t.sites = map[*ssa.Function][]ssa.CallInstruction{}
		for _, f := range t.p.RepoFns {
			core.Instrs(f, func(ins ssa.Instruction) {
				if c, ok := ins.(ssa.CallInstruction); ok {
					if callee := c.Common().StaticCallee(); callee != nil {
						t.sites[callee] = append(t.sites[callee], c)
					}
				}
			})
		}
	}
	return t.sites[fn]
}
