package rules

import (
	"go/token"
	"go/types"
	"sort"
	"strings"

	"golang.org/x/tools/go/ssa"

	"verif/sa/internal/core"
)

// opReadonlyAudit: writes to a compiled op during execution that are safe for
// a reason the rule does not see. Key: construct.
var opReadonlyAudit = map[string]string{}

// runOpReadonly (C21 OP-READONLY): a compiled op is created once and executed
// many times - recursively (a function calling itself re-enters the very same
// withOp, forOp, ...) and concurrently (peach, pipelines, background jobs).
// Its exec method, and the closures it creates, therefore never write a field
// of the op, nor an element of a slice or map held in one: state kept there is
// shared by every execution that is in flight. (`with` keeping its restore
// functions in a buffer cached on the op restores the wrong values as soon as
// the form is re-entered.)
func runOpReadonly(p *core.Program, r *core.Report, rule string) {
	var execs []*ssa.Function
	for _, fn := range p.FnsInPkg(pkgEval) {
		if fn.Parent() != nil || fn.Name() != "exec" || fn.Signature.Recv() == nil || fn.Blocks == nil || fn.Synthetic != "" {
			continue
		}
		ps := fn.Signature.Params()
		if ps.Len() < 1 {
			continue
		}
		if ptr, ok := ps.At(0).Type().(*types.Pointer); !ok || !core.IsNamed(ptr.Elem(), pkgEval, "Frame") {
			continue
		}
		execs = append(execs, fn)
	}
	sort.Slice(execs, func(i, j int) bool { return execs[i].String() < execs[j].String() })
	r.Count(rule+" exec methods of compiled ops", len(execs))
	if !r.Anchor(rule, "exec(*Frame) methods of compiled ops in pkg/eval", len(execs) >= 20) {
		return
	}
	for _, fn := range execs {
		recv := fn.Params[0]
		// values that denote the op or memory inside it: the receiver, its
		// dereference, captured copies, fields, elements
		var rooted func(v ssa.Value, fnc *ssa.Function, bind map[*ssa.FreeVar]ssa.Value, depth int) bool
		rooted = func(v ssa.Value, fnc *ssa.Function, bind map[*ssa.FreeVar]ssa.Value, depth int) bool {
			if depth > 8 {
				return false
			}
			switch x := v.(type) {
			case *ssa.Parameter:
				return x == recv
			case *ssa.FreeVar:
				if b, ok := bind[x]; ok {
					return rooted(b, fnc.Parent(), bind, depth+1)
				}
			case *ssa.FieldAddr:
				return rooted(x.X, fnc, bind, depth+1)
			case *ssa.IndexAddr:
				return rooted(x.X, fnc, bind, depth+1)
			case *ssa.Field:
				return rooted(x.X, fnc, bind, depth+1)
			case *ssa.Slice:
				return rooted(x.X, fnc, bind, depth+1)
			case *ssa.Alloc:
				// local cell holding the receiver (a parameter captured by a
				// closure is spilled to a cell) or a value loaded from it
				for _, ref := range *x.Referrers() {
					if st, ok := ref.(*ssa.Store); ok && st.Addr == ssa.Value(x) && rooted(st.Val, x.Parent(), bind, depth+1) {
						return true
					}
				}
			case *ssa.UnOp:
				if x.Op == token.MUL {
					// a load: the loaded value points into the op when it is
					// the receiver itself or a pointer/slice/map field of it
					return rooted(x.X, fnc, bind, depth+1)
				}
			}
			return false
		}
		var bad ssa.Instruction
		what := ""
		var scan func(f *ssa.Function, bind map[*ssa.FreeVar]ssa.Value)
		scan = func(f *ssa.Function, bind map[*ssa.FreeVar]ssa.Value) {
			core.Instrs(f, func(ins ssa.Instruction) {
				if bad != nil {
					return
				}
				switch x := ins.(type) {
				case *ssa.Store:
					// storing INTO a local cell is not a write to the op
					if _, isLocal := x.Addr.(*ssa.Alloc); isLocal {
						return
					}
					if rooted(x.Addr, f, bind, 0) {
						bad, what = ins, "stores to "+addrDesc(x.Addr)
					}
				case *ssa.MapUpdate:
					if rooted(x.Map, f, bind, 0) {
						bad, what = ins, "updates the map "+addrDesc(x.Map)
					}
				case *ssa.Call:
					// op.field.Store(v), atomic.StoreInt32(&op.field, v), mutex-free
					// caches: writes through sync/atomic
					callee := x.Call.StaticCallee()
					if callee == nil || core.PkgPathOf(callee) != "sync/atomic" || len(x.Call.Args) == 0 {
						return
					}
					switch n := core.Origin(callee).Name(); {
					case strings.HasPrefix(n, "Store"), strings.HasPrefix(n, "Swap"), strings.HasPrefix(n, "CompareAndSwap"), strings.HasPrefix(n, "Add"), strings.HasPrefix(n, "Or"), strings.HasPrefix(n, "And"):
						if rooted(x.Call.Args[0], f, bind, 0) {
							bad, what = ins, "writes "+addrDesc(x.Call.Args[0])+" through sync/atomic"
						}
					}
				case *ssa.MakeClosure:
					f2 := x.Fn.(*ssa.Function)
					b2 := map[*ssa.FreeVar]ssa.Value{}
					for k, v := range bind {
						b2[k] = v
					}
					for i, b := range x.Bindings {
						if i < len(f2.FreeVars) {
							b2[f2.FreeVars[i]] = b
						}
					}
					scan(f2, b2)
				}
			})
		}
		scan(fn, map[*ssa.FreeVar]ssa.Value{})
		construct := core.FnKey(fn) + " leaves the compiled op unchanged"
		switch {
		case bad == nil:
			r.OK(rule, construct, p.Pos(fn.Pos()), "no store through the receiver in the method or its closures")
		case opReadonlyAudit[construct] != "":
			r.Audit(rule, construct, p.InsPos(bad), opReadonlyAudit[construct])
		default:
			r.Bad(rule, construct, p.InsPos(bad), "the exec method "+what+": a compiled op is shared by every execution of the form, so a re-entered (recursive) or concurrent execution overwrites what the outer one keeps there - for `with`/`tmp`/`defer` the outer execution then restores the wrong values")
		}
	}
}
