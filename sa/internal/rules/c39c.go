package rules

import (
	"go/token"
	"go/types"
	"sort"

	"golang.org/x/tools/go/ssa"

	"verif/sa/internal/core"
)

// forkSharedAudit: writes through a pointer field of Frame that cannot race
// for a reason the rule does not see. Key: construct.
var forkSharedAudit = map[string]string{}

// runForkShared (C39/C21 FORK-SHARED): Frame.Fork copies the frame by value,
// so whatever a pointer field of Frame points to is shared by all forks - the
// forms of a pipeline, peach callbacks, background jobs - which run
// concurrently. Memory reached through such a field is therefore written only
// with a mutex held on every path (or through values that synchronise
// themselves: vars, Ns slots addressed by distinct indices are not covered
// here, only the pointed-to object itself and slices/maps inside it).
// The fields come from the struct declaration: pointer fields of Frame that
// Fork does not replace.
func runForkShared(p *core.Program, r *core.Report, rule string) {
	frame := p.NamedType(pkgEval, "Frame")
	fork := p.Method(pkgEval, "Frame", "Fork")
	if !r.Anchor(rule, "eval.Frame and (*Frame).Fork", frame != nil && fork != nil) {
		return
	}
	st := frame.Underlying().(*types.Struct)
	// fields that Fork gives a fresh value
	replaced := map[string]bool{}
	core.Instrs(fork, func(ins ssa.Instruction) {
		if s, ok := ins.(*ssa.Store); ok {
			if fa, ok := s.Addr.(*ssa.FieldAddr); ok {
				if n, f := core.FieldName(fa); n != nil && n.Obj().Name() == "Frame" {
					replaced[f] = true
				}
			}
		}
	})
	shared := map[string]bool{}
	for i := 0; i < st.NumFields(); i++ {
		f := st.Field(i)
		ptr, ok := f.Type().Underlying().(*types.Pointer)
		if !ok || replaced[f.Name()] {
			continue
		}
		// the interpreter itself has its own rule (EVALER-LOCK); namespaces
		// hold self-synchronising variables in slots fixed at creation
		if core.IsNamed(ptr.Elem(), pkgEval, "Evaler") || core.IsNamed(ptr.Elem(), pkgEval, "Ns") || core.IsNamed(ptr.Elem(), pkgEval, "StackTrace") {
			continue
		}
		shared[f.Name()] = true
	}
	var names []string
	for n := range shared {
		names = append(names, n)
	}
	sort.Strings(names)
	r.Count(rule+" pointer fields of Frame shared by forks", len(names))
	if !r.Anchor(rule, "a pointer field of Frame that Fork shares (defers)", len(names) >= 1) {
		return
	}
	// rootField: addr is reached from a load of Frame.<shared field>, directly
	// or through a parameter that receives such a value at a call site
	// (fm.defers.push(f): the receiver of push is the shared list)
	rootedParam := map[*ssa.Parameter]string{}
	var rootField func(v ssa.Value, depth int) string
	rootField = func(v ssa.Value, depth int) string {
		if depth > 6 {
			return ""
		}
		switch x := v.(type) {
		case *ssa.Parameter:
			return rootedParam[x]
		case *ssa.FieldAddr:
			return rootField(x.X, depth+1)
		case *ssa.IndexAddr:
			return rootField(x.X, depth+1)
		case *ssa.UnOp:
			if x.Op == token.MUL {
				if fa, ok := x.X.(*ssa.FieldAddr); ok {
					if n, f := core.FieldName(fa); n != nil && n.Obj().Name() == "Frame" && n.Obj().Pkg() != nil && n.Obj().Pkg().Path() == pkgEval && shared[f] {
						return f
					}
				}
				return rootField(x.X, depth+1)
			}
		case *ssa.Phi:
			for _, e := range x.Edges {
				if f := rootField(e, depth+1); f != "" {
					return f
				}
			}
		}
		return ""
	}
	for changed, round := true, 0; changed && round < 4; round++ {
		changed = false
		for _, fn := range p.FnsInPkg(pkgEval) {
			core.Instrs(fn, func(ins ssa.Instruction) {
				c, ok := ins.(ssa.CallInstruction)
				if !ok {
					return
				}
				callee := c.Common().StaticCallee()
				if callee == nil || callee.Blocks == nil || core.PkgPathOf(callee) != pkgEval {
					return
				}
				for i, a := range c.Common().Args {
					if i >= len(callee.Params) {
						break
					}
					if f := rootField(a, 0); f != "" && rootedParam[callee.Params[i]] == "" {
						rootedParam[callee.Params[i]] = f
						changed = true
					}
				}
			})
		}
	}
	isLock := func(ins ssa.Instruction, names ...string) bool {
		c, ok := ins.(*ssa.Call)
		if !ok {
			return false
		}
		callee := c.Call.StaticCallee()
		if callee == nil || core.PkgPathOf(callee) != "sync" || callee.Signature.Recv() == nil {
			return false
		}
		rn := core.RecvName(callee.Signature.Recv().Type())
		if rn != "Mutex" && rn != "RWMutex" {
			return false
		}
		for _, n := range names {
			if callee.Name() == n {
				return true
			}
		}
		return false
	}
	lockedAt := func(target ssa.Instruction) bool {
		fn := target.Parent()
		type st struct {
			b    *ssa.BasicBlock
			held bool
		}
		seen := map[st]bool{}
		ok, found := true, false
		var walk func(b *ssa.BasicBlock, held bool)
		walk = func(b *ssa.BasicBlock, held bool) {
			if seen[st{b, held}] || !ok {
				return
			}
			seen[st{b, held}] = true
			for _, ins := range b.Instrs {
				if ins == target {
					found = true
					if !held {
						ok = false
					}
					return
				}
				if isLock(ins, "Lock") {
					held = true
				}
				if isLock(ins, "Unlock") {
					held = false
				}
			}
			for _, s := range b.Succs {
				walk(s, held)
			}
		}
		walk(fn.Blocks[0], false)
		return ok && found
	}
	seen := map[string]bool{}
	nw := 0
	for _, fn := range p.FnsInPkg(pkgEval) {
		core.Instrs(fn, func(ins ssa.Instruction) {
			var addr ssa.Value
			switch x := ins.(type) {
			case *ssa.Store:
				addr = x.Addr
			case *ssa.MapUpdate:
				addr = x.Map
			}
			if addr == nil {
				return
			}
			f := rootField(addr, 0)
			if f == "" {
				return
			}
			nw++
			construct := core.FnKey(fn) + " writes through Frame." + f
			if seen[construct] {
				return
			}
			seen[construct] = true
			pos := p.InsPos(ins)
			switch {
			case lockedAt(ins):
				r.OK(rule, construct, pos, "a mutex is locked on every path to the write")
			case forkSharedAudit[construct] != "":
				r.Audit(rule, construct, pos, forkSharedAudit[construct])
			default:
				r.Bad(rule, construct, pos, "Frame."+f+" is copied by Fork, so every fork (the forms of a pipeline, peach callbacks) writes the same object; this write holds no mutex: concurrent writers lose updates or crash the interpreter (`fn f { tmp a = 1 | tmp b = 2 }`)")
			}
		})
	}
	r.Count(rule+" writes through shared pointer fields of Frame", nw)
	r.Anchor(rule, "a write through a shared pointer field of Frame (addDefer)", nw >= 1)
}
