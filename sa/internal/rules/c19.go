package rules

import (
	"go/token"
	"go/types"
	"sort"
	"strings"

	"golang.org/x/tools/go/ssa"

	"verif/sa/internal/core"
)

func init() {
	register(&core.Spec{
		ID:          "C19",
		Explanation: "Decides structural necessary conditions of C19: (CANCEL-GATE) in pipelineOp.exec the Canceled() test dominates the WaitGroup setup and every start of a form, the frame's context is replaced only on the background branch, and chunkOp.exec tests Canceled() before every normal return (so no further pipeline starts after an interrupt and an interrupted evaluation reports it); (ACQUIRE-CHECK) every semaphore Acquire result is tested and on the failure edge neither a goroutine is started nor Release is called (the bound is never exceeded and Release never panics with 'released more than held'); (INTERRUPTIBLE-BLOCK) no time.Sleep in builtin code and every wait on a timer channel is in a select that also watches the frame context's Done channel; (JOINED) every goroutine started in pkg/eval and pkg/mods is joined by its spawner (WaitGroup or done-channel, directly, in a deferred or in a returned cleanup function) or is one of the audited long-lived helpers. Promptness and real asynchronous schedules are not decided.",
		NotCovered:  "promptness of interruption, behaviour of external commands, schedules",
		Rules:       []string{"CANCEL-GATE", "ACQUIRE-CHECK", "INTERRUPTIBLE-BLOCK", "JOINED", "DONE-LAST: a goroutine writes nothing its spawner reads after a plain WaitGroup.Done"},
		Patterns:    []string{"./pkg/eval/...", "./pkg/mods/..."},
		Run: func(p *core.Program, r *core.Report) {
			runCancelGate(p, r)
			runAcquireCheck(p, r, "ACQUIRE-CHECK")
			runInterruptibleBlock(p, r)
			runJoined(p, r, "JOINED")
			runDoneLast(p, r, "DONE-LAST")
		},
		MinCounts: map[string]int{"DONE-LAST": 2, "CANCEL-GATE": 4, "ACQUIRE-CHECK": 1, "INTERRUPTIBLE-BLOCK": 1, "JOINED": 8},
		Trusted:   trustedBase,
		Controls: []core.Control{
			{Name: "pipeline-drops-canceled-test", Rule: "CANCEL-GATE", File: "pkg/eval/compile_effect.go", Old: "func (op *pipelineOp) exec(fm *Frame) Exception {\n\tif fm.Canceled() {\n\t\treturn fm.errorp(op, ErrInterrupted)\n\t}\n", New: "func (op *pipelineOp) exec(fm *Frame) Exception {\n", Fire: true, Quick: true, Patterns: []string{"./pkg/eval"}},
			{Name: "chunk-drops-final-canceled-test", Rule: "CANCEL-GATE", File: "pkg/eval/compile_effect.go", Old: "\tif fm.Canceled() {\n\t\treturn fm.errorp(op, ErrInterrupted)\n\t}\n\treturn nil\n}", New: "\treturn nil\n}", Fire: true, Patterns: []string{"./pkg/eval"}},
			{Name: "context-replaced-unconditionally", Rule: "CANCEL-GATE", File: "pkg/eval/compile_effect.go", Old: "\tif op.bg {\n\t\tfm = fm.Fork()\n\t\tfm.ctx = context.Background()", New: "\tfm = fm.Fork()\n\tfm.ctx = context.Background()\n\tif op.bg {", Fire: true, Patterns: []string{"./pkg/eval"}},
			{Name: "revert-fix-acquire-unchecked", Rule: "ACQUIRE-CHECK", File: "pkg/eval/builtin_fn_flow.go", Old: "\t\t\tif workerSema.Acquire(ctx, 1) != nil {\n\t\t\t\t// The context was canceled while waiting for a free worker;\n\t\t\t\t// don't start any more callbacks.\n\t\t\t\tatomic.StoreInt32(&broken, 1)\n\t\t\t\treturn\n\t\t\t}", New: "\t\t\tworkerSema.Acquire(ctx, 1)", Fire: true, Quick: true, Patterns: []string{"./pkg/eval"}},
			{Name: "acquire-failure-still-spawns", Rule: "ACQUIRE-CHECK", File: "pkg/eval/builtin_fn_flow.go", Old: "\t\t\t\tatomic.StoreInt32(&broken, 1)\n\t\t\t\treturn\n\t\t\t}\n\t\t\t// A callback that finished", New: "\t\t\t\tatomic.StoreInt32(&broken, 1)\n\t\t\t}\n\t\t\t// A callback that finished", Fire: true, Patterns: []string{"./pkg/eval"}},
			{Name: "sleep-ignores-context", Rule: "INTERRUPTIBLE-BLOCK", File: "pkg/eval/builtin_fn_time.go", Old: "\tselect {\n\tcase <-fm.Context().Done():\n\t\treturn ErrInterrupted\n\tcase <-timeAfter(fm, d):\n\t\treturn nil\n\t}", New: "\t<-timeAfter(fm, d)\n\treturn nil", Fire: true, Patterns: []string{"./pkg/eval"}},
			{Name: "revert-fix-pipe-failure-returns-without-waiting", Rule: "JOINED", File: "pkg/eval/compile_effect.go", Old: "\t\t\t\texcs[i] = fm.errorpf(op, \"failed to create pipe: %s\", e)\n\t\t\t\twg.Add(i - nforms)\n\t\t\t\tbreak\n", New: "\t\t\t\treturn fm.errorpf(op, \"failed to create pipe: %s\", e)\n", Fire: true, Want: "joined on every path", Quick: true, Patterns: []string{"./pkg/eval"}},
			{Name: "peach-done-before-recording-the-exception", Rule: "DONE-LAST", File: "pkg/eval/builtin_fn_flow.go", Old: "\t\t\tnewFm.ports[0] = DummyInputPort\n\t\t\tex := f.Call(newFm, []any{v}, NoOpts)\n", New: "\t\t\tnewFm.ports[0] = DummyInputPort\n\t\t\tex := f.Call(newFm, []any{v}, NoOpts)\n\t\t\twg.Done()\n\t\t\twg.Add(1)\n", Fire: true, Want: "peach", Patterns: []string{"./pkg/eval"}},
			{Name: "run-parallel-done-first", Rule: "DONE-LAST", File: "pkg/eval/builtin_fn_flow.go", Old: "\t\t\terr := function.Call(fm2, NoArgs, NoOpts)\n\t\t\tif err != nil {", New: "\t\t\terr := function.Call(fm2, NoArgs, NoOpts)\n\t\t\twg.Done()\n\t\t\twg.Add(1)\n\t\t\tif err != nil {", Fire: true, Want: "runParallel", Patterns: []string{"./pkg/eval"}},
			{Name: "run-parallel-not-joined", Rule: "JOINED", File: "pkg/eval/builtin_fn_flow.go", Old: "\twg.Wait()\n\treturn MakePipelineError(exceptions)", New: "\treturn MakePipelineError(exceptions)", Fire: true, Patterns: []string{"./pkg/eval"}},
			{Name: "fileport-cleanup-does-not-wait", Rule: "JOINED", File: "pkg/eval/port.go", Old: "\t\tclose(ch)\n\t\t<-relayDone\n\t}", New: "\t\tclose(ch)\n\t}", Fire: true, Patterns: []string{"./pkg/eval"}},
			{Name: "benign-canceled-in-helper", Rule: "CANCEL-GATE", File: "pkg/eval/compile_effect.go", Old: "func (op *pipelineOp) exec(fm *Frame) Exception {\n\tif fm.Canceled() {\n\t\treturn fm.errorp(op, ErrInterrupted)\n\t}\n", New: "func (op *pipelineOp) exec(fm *Frame) Exception {\n\tif canceled := fm.Canceled(); canceled {\n\t\treturn fm.errorp(op, ErrInterrupted)\n\t}\n", Fire: false, Patterns: []string{"./pkg/eval"}},
		},
	})
	register(&core.Spec{
		ID:          "C20",
		Explanation: "Decides structural necessary conditions of C20: (WG-DISCIPLINE) in peach and run-parallel every goroutine is preceded by wg.Add (or a bulk Add of the task count), calls wg.Done exactly once on every path, and the command returns only after wg.Wait on every path; (RECHECK) in peach, on every path to the go statement the 'broken' flag is read after the last blocking Acquire (so with one worker no callback starts after one has broken, as each does); (ERR-AGG) every write to peach's shared error is made under its mutex and every non-nil callback exception is recorded - no unchecked type assertion on a callee's error (run-parallel); (SEMA-PAIR) a worker slot acquired for a callback is released exactly once on every path of the worker, and a slot acquired but not used is released before returning. Output union and exactly-once-per-input under all schedules are not decided.",
		NotCovered:  "that outputs are exactly the union of callback outputs; exactly-once per input under all schedules; exception ordering",
		Rules:       []string{"WG-DISCIPLINE", "RECHECK", "ERR-AGG", "SEMA-PAIR", "ACQUIRE-CHECK", "DONE-LAST: a worker records its exception before it calls WaitGroup.Done"},
		Patterns:    []string{"./pkg/eval"},
		Run:         func(p *core.Program, r *core.Report) { runC20(p, r); runDoneLast(p, r, "DONE-LAST") },
		MinCounts:   map[string]int{"WG-DISCIPLINE": 4, "RECHECK": 1, "ERR-AGG": 2, "SEMA-PAIR": 2},
		Trusted:     trustedBase,
		Controls: []core.Control{
			{Name: "worker-frees-slot-before-publishing-break", Rule: "RECHECK", File: "pkg/eval/builtin_fn_flow.go", Old: "\t\t\tex := f.Call(newFm, []any{v}, NoOpts)\n\n\t\t\tif ex != nil {\n\t\t\t\tswitch Reason(ex) {\n\t\t\t\tcase nil, Continue:\n\t\t\t\t\t// nop\n\t\t\t\tcase Break:\n\t\t\t\t\tatomic.StoreInt32(&broken, 1)", New: "\t\t\tex := f.Call(newFm, []any{v}, NoOpts)\n\t\t\tif workerSema != nil {\n\t\t\t\tworkerSema.Release(1)\n\t\t\t}\n\n\t\t\tif ex != nil {\n\t\t\t\tswitch Reason(ex) {\n\t\t\t\tcase nil, Continue:\n\t\t\t\t\t// nop\n\t\t\t\tcase Break:\n\t\t\t\t\tatomic.StoreInt32(&broken, 1)", Fire: true, Want: "before freeing its slot"},
			{Name: "revert-fix-recheck-broken", Rule: "RECHECK", File: "pkg/eval/builtin_fn_flow.go", Old: "\t\t\tif atomic.LoadInt32(&broken) != 0 {\n\t\t\t\tworkerSema.Release(1)\n\t\t\t\treturn\n\t\t\t}\n", New: "", Fire: true, Quick: true},
			{Name: "recheck-without-release", Rule: "SEMA-PAIR", File: "pkg/eval/builtin_fn_flow.go", Old: "\t\t\tif atomic.LoadInt32(&broken) != 0 {\n\t\t\t\tworkerSema.Release(1)\n\t\t\t\treturn\n\t\t\t}\n", New: "\t\t\tif atomic.LoadInt32(&broken) != 0 {\n\t\t\t\treturn\n\t\t\t}\n", Fire: true},
			{Name: "worker-release-only-on-success", Rule: "SEMA-PAIR", File: "pkg/eval/builtin_fn_flow.go", Old: "\t\t\twg.Done()\n\t\t\tif workerSema != nil {\n\t\t\t\tworkerSema.Release(1)\n\t\t\t}", New: "\t\t\twg.Done()\n\t\t\tif workerSema != nil && ex == nil {\n\t\t\t\tworkerSema.Release(1)\n\t\t\t}", Fire: true},
			{Name: "peach-done-skipped-on-break", Rule: "WG-DISCIPLINE", File: "pkg/eval/builtin_fn_flow.go", Old: "\t\t\t\tcase Break:\n\t\t\t\t\tatomic.StoreInt32(&broken, 1)\n\t\t\t\tdefault:\n\t\t\t\t\terrMu.Lock()", New: "\t\t\t\tcase Break:\n\t\t\t\t\tatomic.StoreInt32(&broken, 1)\n\t\t\t\t\treturn\n\t\t\t\tdefault:\n\t\t\t\t\terrMu.Lock()", Fire: true},
			{Name: "peach-add-after-go", Rule: "WG-DISCIPLINE", File: "pkg/eval/builtin_fn_flow.go", Old: "\t\twg.Add(1)\n\t\tgo func() {\n\t\t\tnewFm := fm.Fork()", New: "\t\tgo func() {\n\t\t\twg.Add(1)\n\t\t\tnewFm := fm.Fork()", Fire: true},
			{Name: "peach-error-without-mutex", Rule: "ERR-AGG", File: "pkg/eval/builtin_fn_flow.go", Old: "\t\t\t\t\terrMu.Lock()\n\t\t\t\t\terr = errutil.Multi(err, ex)\n\t\t\t\t\tdefer errMu.Unlock()", New: "\t\t\t\t\terr = errutil.Multi(err, ex)\n\t\t\t\t\terrMu.Lock()\n\t\t\t\t\terrMu.Unlock()", Fire: true},
			{Name: "revert-fix-run-parallel-assert", Rule: "ERR-AGG", File: "pkg/eval/builtin_fn_flow.go", Old: "\t\t\t\tif exc, ok := err.(Exception); ok {\n\t\t\t\t\t*pexc = exc\n\t\t\t\t} else {\n\t\t\t\t\t*pexc = &exception{err, fm2.traceback}\n\t\t\t\t}", New: "\t\t\t\t*pexc = err.(Exception)", Fire: true},
			{Name: "benign-defer-done-in-worker", Rule: "WG-DISCIPLINE", File: "pkg/eval/builtin_fn_flow.go", Old: "\t\tgo func() {\n\t\t\tnewFm := fm.Fork()\n\t\t\tnewFm.ports[0] = DummyInputPort", New: "\t\tgo func() {\n\t\t\tdefer wg.Done()\n\t\t\tnewFm := fm.Fork()\n\t\t\tnewFm.ports[0] = DummyInputPort", Edits: [][2]string{{"\t\t\twg.Done()\n\t\t\tif workerSema != nil {", "\t\t\tif workerSema != nil {"}}, Fire: false},
		},
	})
}

func isCallTo(ins ssa.Instruction, full string) bool {
	c, ok := ins.(ssa.CallInstruction)
	if !ok {
		return false
	}
	callee := c.Common().StaticCallee()
	return callee != nil && callee.String() == full
}

func isFrameMethod(ins ssa.Instruction, name string) bool {
	c, ok := ins.(ssa.CallInstruction)
	if !ok {
		return false
	}
	callee := c.Common().StaticCallee()
	return callee != nil && core.IsFunc(callee, pkgEval, "Frame", name)
}

// dominatedByEdge: is blk dominated by the given edge (true=0/false=1) of an
// If whose condition is (the negation of / a copy of) the value cond?
func dominatedByCondEdge(fn *ssa.Function, isCond func(ssa.Value) bool, wantTrue bool, blk *ssa.BasicBlock) bool {
	for _, b := range fn.Blocks {
		if len(b.Instrs) == 0 {
			continue
		}
		iff, ok := b.Instrs[len(b.Instrs)-1].(*ssa.If)
		if !ok {
			continue
		}
		c := iff.Cond
		neg := false
		if u, ok := c.(*ssa.UnOp); ok && u.Op == token.NOT {
			c, neg = u.X, true
		}
		if !isCond(c) {
			continue
		}
		edge := core.EdgeTo(b, blk)
		if edge < 0 {
			continue
		}
		truth := edge == 0
		if neg {
			truth = !truth
		}
		if truth == wantTrue {
			return true
		}
	}
	return false
}

func runCancelGate(p *core.Program, r *core.Report) {
	exec := p.Method(pkgEval, "pipelineOp", "exec")
	chunk := p.Method(pkgEval, "chunkOp", "exec")
	if !r.Anchor("CANCEL-GATE", "(*eval.pipelineOp).exec and (*eval.chunkOp).exec", exec != nil && chunk != nil) {
		return
	}
	isCanceled := func(v ssa.Value) bool {
		v = throughCell(v)
		c, ok := v.(*ssa.Call)
		return ok && isFrameMethod(c, "Canceled")
	}
	// pipelineOp.exec: Add, go, and synchronous starts on the not-canceled edge
	n := 0
	core.Instrs(exec, func(ins ssa.Instruction) {
		what := ""
		switch {
		case isWGCall(ins, "Add"):
			what = "wg.Add"
		default:
			if _, ok := ins.(*ssa.Go); ok {
				what = "go statement"
			} else if c, ok := ins.(*ssa.Call); ok {
				if cf, ok := closureOf(c.Call.Value); ok && cf.Parent() == exec {
					what = "synchronous start of a form"
				}
			}
		}
		if what == "" {
			return
		}
		n++
		construct := "(*eval.pipelineOp).exec " + what + " after Canceled() test"
		if dominatedByCondEdge(exec, isCanceled, false, ins.Block()) {
			r.OK("CANCEL-GATE", construct, p.InsPos(ins), "dominated by the false edge of fm.Canceled()")
		} else {
			r.Bad("CANCEL-GATE", construct, p.InsPos(ins), "a pipeline can start work without first testing whether evaluation was interrupted: after Ctrl-C further pipelines keep starting")
		}
	})
	r.Anchor("CANCEL-GATE", "wg.Add / go / form start in pipelineOp.exec", n >= 2)
	// context replaced only in background branch; the replacement may sit in
	// a helper of pkg/eval that exec calls (forkForBackground)
	type ctxSite struct {
		fn    *ssa.Function
		sites []ssa.Instruction // call sites in exec, nil for exec itself
	}
	ctxFns := []ctxSite{{exec, nil}}
	{
		bySite := map[*ssa.Function][]ssa.Instruction{}
		core.Instrs(exec, func(ins ssa.Instruction) {
			if c, ok := ins.(*ssa.Call); ok {
				if callee := c.Call.StaticCallee(); callee != nil && callee != exec && callee.Blocks != nil && core.PkgPathOf(callee) == pkgEval {
					bySite[callee] = append(bySite[callee], ins)
				}
			}
		})
		for callee, sites := range bySite {
			ctxFns = append(ctxFns, ctxSite{callee, sites})
		}
		sort.Slice(ctxFns[1:], func(i, j int) bool { return core.FnKey(ctxFns[1+i].fn) < core.FnKey(ctxFns[1+j].fn) })
	}
	for _, cs := range ctxFns {
		cs := cs
		core.Instrs(cs.fn, func(ins ssa.Instruction) {
			st, ok := ins.(*ssa.Store)
			if !ok {
				return
			}
			fa, ok := st.Addr.(*ssa.FieldAddr)
			if !ok {
				return
			}
			nT, f := core.FieldName(fa)
			if nT == nil || nT.Obj().Name() != "Frame" || f != "ctx" {
				return
			}
			isBg := func(v ssa.Value) bool {
				if addr, ok := core.IsLoad(v); ok {
					if fa2, ok := addr.(*ssa.FieldAddr); ok {
						_, f2 := core.FieldName(fa2)
						return f2 == "bg"
					}
				}
				return false
			}
			// the frame whose context is replaced must be a private copy
			base := fa.X
			// fm may live in a cell (it is captured by the waiter goroutine):
			// take the store that reaches this load within the block
			if addr, ok := core.IsLoad(base); ok {
				if cell, ok := addr.(*ssa.Alloc); ok {
					ld := base.(ssa.Instruction)
					instrs := ld.Block().Instrs
					for i := len(instrs) - 1; i >= 0; i-- {
						if instrs[i] == ld {
							for j := i - 1; j >= 0; j-- {
								if st2, ok := instrs[j].(*ssa.Store); ok && st2.Addr == ssa.Value(cell) {
									base = st2.Val
									break
								}
							}
							break
						}
					}
				}
			}
			fresh := false
			if c, ok := base.(*ssa.Call); ok && isFrameMethod(c, "Fork") {
				fresh = true
			}
			if phi, ok := base.(*ssa.Phi); ok {
				fresh = true
				for _, e := range phi.Edges {
					if c, ok := e.(*ssa.Call); !ok || !isFrameMethod(c, "Fork") {
						fresh = false
					}
				}
			}
			if _, ok := base.(*ssa.Alloc); ok {
				fresh = true
			}
			if fresh {
				r.OK("CANCEL-GATE", "(*eval.pipelineOp).exec context replaced on a private copy of the frame", p.InsPos(ins), "the frame written to is the result of fm.Fork()")
			} else {
				r.Bad("CANCEL-GATE", "(*eval.pipelineOp).exec context replaced on a private copy of the frame", p.InsPos(ins), "the caller's frame has its context replaced by an uncancellable one: after a background job has been started, the rest of the enclosing chunk no longer sees interrupts")
			}
			onBg := dominatedByCondEdge(exec, isBg, true, ins.Block())
			if cs.sites != nil {
				onBg = true
				for _, site := range cs.sites {
					if !dominatedByCondEdge(exec, isBg, true, site.Block()) {
						onBg = false
					}
				}
			}
			if onBg {
				r.OK("CANCEL-GATE", "(*eval.pipelineOp).exec context replaced only for background jobs", p.InsPos(ins), "the store to Frame.ctx (or the call of the helper that makes it) is on the true edge of op.bg")
			} else {
				r.Bad("CANCEL-GATE", "(*eval.pipelineOp).exec context replaced only for background jobs", p.InsPos(ins), "the frame's context is replaced outside the background branch: foreground pipelines would no longer see interrupts")
			}
		})
	}
	// chunkOp.exec: every `return nil` is on the not-canceled edge
	nret := 0
	core.Instrs(chunk, func(ins ssa.Instruction) {
		ret, ok := ins.(*ssa.Return)
		if !ok || len(ret.Results) != 1 {
			return
		}
		c, isConst := ret.Results[0].(*ssa.Const)
		if !isConst || !c.IsNil() {
			return
		}
		nret++
		if dominatedByCondEdge(chunk, isCanceled, false, ins.Block()) {
			r.OK("CANCEL-GATE", "(*eval.chunkOp).exec normal return after Canceled() test", p.InsPos(ins), "the nil return is on the false edge of fm.Canceled()")
		} else {
			r.Bad("CANCEL-GATE", "(*eval.chunkOp).exec normal return after Canceled() test", p.InsPos(ins), "a chunk can finish normally without testing for an interrupt: an interrupted evaluation whose last command swallowed the signal returns success instead of the interrupted exception")
		}
	})
	r.Anchor("CANCEL-GATE", "nil return in chunkOp.exec", nret >= 1)
}

// runAcquireCheck: semaphore.Acquire results must be tested; on failure no
// goroutine is started and Release is not called.
func runAcquireCheck(p *core.Program, r *core.Report, rule string) {
	n := 0
	for _, fn := range p.RepoFns {
		core.Instrs(fn, func(ins ssa.Instruction) {
			if !isCallTo(ins, "(*golang.org/x/sync/semaphore.Weighted).Acquire") {
				return
			}
			n++
			construct := core.FnKey(fn) + " semaphore.Acquire result"
			call, ok := ins.(*ssa.Call)
			if !ok {
				r.Bad(rule, construct, p.InsPos(ins), "Acquire is deferred or started as a goroutine: its error is lost")
				return
			}
			var iff *ssa.If
			failTrue := true
			for _, ref := range *call.Referrers() {
				if cmp, ok := ref.(*ssa.BinOp); ok && (cmp.Op == token.NEQ || cmp.Op == token.EQL) {
					for _, r2 := range *cmp.Referrers() {
						if i2, ok := r2.(*ssa.If); ok {
							iff = i2
							failTrue = cmp.Op == token.NEQ
						}
					}
				}
			}
			if iff == nil {
				r.Bad(rule, construct, p.InsPos(ins), "the error returned by Acquire is ignored: when the context is cancelled the slot was NOT acquired, the callback still runs (exceeding the bound) and the later Release panics with 'semaphore: released more than held'")
				return
			}
			failBlk := iff.Block().Succs[0]
			if !failTrue {
				failBlk = iff.Block().Succs[1]
			}
			bad := ""
			seen := map[*ssa.BasicBlock]bool{}
			var walk func(b *ssa.BasicBlock)
			walk = func(b *ssa.BasicBlock) {
				if seen[b] || bad != "" {
					return
				}
				seen[b] = true
				for _, x := range b.Instrs {
					if _, isGo := x.(*ssa.Go); isGo {
						bad = "a goroutine is started"
					}
					if isCallTo(x, "(*golang.org/x/sync/semaphore.Weighted).Release") {
						bad = "Release is called"
					}
				}
				for _, s := range b.Succs {
					walk(s)
				}
			}
			walk(failBlk)
			if bad != "" {
				r.Bad(rule, construct, p.InsPos(ins), "on the path where Acquire failed "+bad+": the concurrency bound is exceeded or Release panics")
			} else {
				r.OK(rule, construct, p.InsPos(ins), "error tested; the failure edge neither starts a goroutine nor releases")
			}
		})
	}
	r.Count(rule+" Acquire call sites", n)
}

func runInterruptibleBlock(p *core.Program, r *core.Report) {
	for _, fn := range p.RepoFns {
		pp := core.PkgPathOf(fn)
		if !(pp == pkgEval || strings.HasPrefix(pp, "src.elv.sh/pkg/mods/")) {
			continue
		}
		core.Instrs(fn, func(ins ssa.Instruction) {
			if isCallTo(ins, "time.Sleep") {
				r.Bad("INTERRUPTIBLE-BLOCK", core.FnKey(fn)+" time.Sleep", p.InsPos(ins), "time.Sleep cannot be interrupted: Ctrl-C has no effect until it returns")
			}
			// receives from a chan time.Time
			isTimerChan := func(v ssa.Value) bool {
				ch, ok := v.Type().Underlying().(*types.Chan)
				return ok && strings.HasSuffix(ch.Elem().String(), "time.Time")
			}
			switch x := ins.(type) {
			case *ssa.UnOp:
				if x.Op == token.ARROW && isTimerChan(x.X) {
					r.Bad("INTERRUPTIBLE-BLOCK", core.FnKey(fn)+" wait on timer channel", p.InsPos(ins), "a bare receive from a timer channel: the wait cannot be interrupted")
				}
			case *ssa.Select:
				hasTimer, hasDone := false, false
				for _, st := range x.States {
					if st.Dir != types.RecvOnly {
						continue
					}
					if isTimerChan(st.Chan) {
						hasTimer = true
					}
					if c, ok := st.Chan.(*ssa.Call); ok && c.Call.IsInvoke() && c.Call.Method.Name() == "Done" {
						hasDone = true
					}
				}
				if hasTimer {
					if hasDone && x.Blocking {
						r.OK("INTERRUPTIBLE-BLOCK", core.FnKey(fn)+" wait on timer channel", p.InsPos(ins), "the select also receives from Context.Done()")
					} else if x.Blocking {
						r.Bad("INTERRUPTIBLE-BLOCK", core.FnKey(fn)+" wait on timer channel", p.InsPos(ins), "the select waiting for the timer has no case on the frame context's Done channel")
					}
				}
			}
		})
	}
}

// joinedAudit: goroutines that are deliberately not joined by their spawner.
var joinedAudit = map[string]string{
	"eval.getBlackholeChan":         "process-lifetime drain of the shared black-hole channel (created once at package initialisation)",
	"(*eval.pipelineOp).exec#bg":    "waiter of a background job: by definition not joined by the foreground evaluation (C19/C40 exclude background jobs)",
	"eval.ListenInterrupts":         "signal listener owned by the caller; it ends when the returned cancel function is called",
	"(*eval.Frame).IterateInputs#3": "closer goroutine: ends right after the two joined readers (wg.Wait then close), and the consumer loop ends only after its close",
}

// runJoined: every go statement in pkg/eval and pkg/mods is joined.
func runJoined(p *core.Program, r *core.Report, rule string) {
	for _, fn := range p.RepoFns {
		pp := core.PkgPathOf(fn)
		if !(pp == pkgEval || strings.HasPrefix(pp, "src.elv.sh/pkg/mods/")) {
			continue
		}
		idx := 0
		core.Instrs(fn, func(ins ssa.Instruction) {
			g, ok := ins.(*ssa.Go)
			if !ok {
				return
			}
			idx++
			outer := core.Outer(fn)
			fk := core.FnKey(outer)
			cf := workerOf(g)
			construct := fk + " go#" + itoa(idx)
			if fn.Parent() != nil {
				construct = fk + " go in closure"
			}
			// how does the goroutine signal completion?
			signals := map[string]bool{}
			if cf != nil {
				core.Instrs(cf, func(x ssa.Instruction) {
					if isWGCall(x, "Done") {
						signals["wg"] = true
					}
					if c, ok := x.(ssa.CallInstruction); ok {
						if b, ok := c.Common().Value.(*ssa.Builtin); ok && b.Name() == "close" {
							signals["close"] = true
						}
					}
					if _, ok := x.(*ssa.Send); ok {
						signals["send"] = true
					}
				})
			}
			// does the spawner (its body, deferred or returned closures) wait?
			waits := map[string]bool{}
			var scan func(f *ssa.Function, depth int)
			scan = func(f *ssa.Function, depth int) {
				core.Instrs(f, func(x ssa.Instruction) {
					if isWGCall(x, "Wait") {
						waits["wg"] = true
					}
					if u, ok := x.(*ssa.UnOp); ok && u.Op == token.ARROW {
						waits["recv"] = true
					}
					if rg, ok := x.(*ssa.Range); ok {
						if _, isChan := rg.X.Type().Underlying().(*types.Chan); isChan {
							waits["recv"] = true
						}
					}
				})
				if depth < 2 {
					for _, a := range f.AnonFuncs {
						if a == cf {
							continue
						}
						// only closures that run on the spawner's own thread of control: deferred, returned or called; goroutine bodies do not count
						isGoBody := false
						core.Instrs(f, func(x ssa.Instruction) {
							if g2, ok := x.(*ssa.Go); ok {
								if c2, _ := closureOf(g2.Call.Value); c2 == a {
									isGoBody = true
								}
							}
						})
						if !isGoBody {
							scan(a, depth+1)
						}
					}
				}
			}
			scan(outer, 0)
			// a goroutine that is itself joined through a channel the spawner
			// receives from extends the spawner's waits (wg.Wait(); close(ch))
			if waits["recv"] {
				for _, a := range outer.AnonFuncs {
					if a == cf {
						continue
					}
					closes, waitsWG := false, false
					core.Instrs(a, func(x ssa.Instruction) {
						if c, ok := x.(ssa.CallInstruction); ok {
							if b, ok := c.Common().Value.(*ssa.Builtin); ok && b.Name() == "close" {
								closes = true
							}
						}
						if isWGCall(x, "Wait") {
							waitsWG = true
						}
					})
					if closes && waitsWG {
						waits["wg"] = true
					}
				}
			}
			joined := (signals["wg"] && waits["wg"]) || ((signals["close"] || signals["send"]) && waits["recv"])
			auditKey := fk
			if why, ok := joinedAudit[auditKey]; ok {
				r.Audit(rule, construct, p.InsPos(ins), why)
				return
			}
			// a goroutine that itself waits for the WaitGroup: the spawner has
			// handed the join over (background pipeline)
			selfWaits := false
			if cf != nil {
				core.Instrs(cf, func(x ssa.Instruction) {
					if isWGCall(x, "Wait") {
						selfWaits = true
					}
				})
			}
			if fk == "(*eval.pipelineOp).exec" && cf != nil && selfWaits && signals["wg"] == false {
				r.Audit(rule, construct, p.InsPos(ins), joinedAudit["(*eval.pipelineOp).exec#bg"])
				return
			}
			if fk == "(*eval.Frame).IterateInputs" && cf != nil && signals["close"] && !signals["wg"] {
				r.Audit(rule, construct, p.InsPos(ins), joinedAudit["(*eval.Frame).IterateInputs#3"])
				return
			}
			// path clause: when the spawner itself calls wg.Wait(), it does so
			// on every path from the go statement to a return (or hands the
			// wait to a goroutine that does, as a background pipeline does)
			if joined && signals["wg"] && fn == outer {
				ownWait := false
				core.Instrs(fn, func(x ssa.Instruction) {
					if isWGCall(x, "Wait") {
						ownWait = true
					}
				})
				if ownWait {
					hit := func(x ssa.Instruction) bool {
						if isWGCall(x, "Wait") {
							return true
						}
						var callee ssa.Value
						switch y := x.(type) {
						case *ssa.Go:
							callee = y.Call.Value
						case *ssa.Defer:
							callee = y.Call.Value
						default:
							return false
						}
						if c2, ok := closureOf(callee); ok && c2 != cf {
							waits := false
							core.Instrs(c2, func(z ssa.Instruction) {
								if isWGCall(z, "Wait") {
									waits = true
								}
							})
							return waits
						}
						return false
					}
					if ok, exit := core.MustPass(ins, hit, nil); !ok {
						what := "a return"
						if ret, isRet := exit.(*ssa.Return); isRet && len(ret.Results) > 0 {
							what = "the return of " + addrDesc(ret.Results[len(ret.Results)-1])
						}
						r.Bad(rule, construct+" joined on every path", p.InsPos(exit), "after this goroutine is started, "+what+" leaves the spawner without waiting for it (no wg.Wait on that path, and the wait is not handed to another goroutine): the goroutine outlives the evaluation, and nobody unblocks what it is writing to")
						return
					}
					r.OK(rule, construct+" joined on every path", p.InsPos(ins), "every path from the go statement to a return passes wg.Wait() or hands the wait to a goroutine that calls it")
				}
			}
			if joined {
				r.OK(rule, construct, p.InsPos(ins), "the goroutine signals completion (WaitGroup.Done / close / send) and the spawner, a deferred or a returned cleanup function waits for it")
			} else {
				r.Bad(rule, construct, p.InsPos(ins), "a goroutine is started but nothing on the spawner's side waits for it: it can outlive the evaluation that started it")
			}
		})
	}
}

func runC20(p *core.Program, r *core.Report) {
	peach := builtinFn(p, "eval:peach", pkgEval, "peach")
	rp := builtinFn(p, "eval:run-parallel", pkgEval, "runParallel")
	if !r.Anchor("WG-DISCIPLINE", "eval.peach and eval.runParallel", peach != nil && rp != nil) {
		return
	}
	runAcquireCheck(p, r, "ACQUIRE-CHECK")
	for _, top := range []*ssa.Function{peach, rp} {
		fk := core.FnKey(top)
		// collect all functions of the builtin (closures and workers included)
		all := builtinFuncs(top)
		var workers []*ssa.Function
		for _, f := range all {
			core.Instrs(f, func(ins ssa.Instruction) {
				if g, ok := ins.(*ssa.Go); ok {
					if cf := workerOf(g); cf != nil {
						workers = append(workers, cf)
					}
					// Add precedes go: either a dominating Add(1) in the same function, or a bulk Add in the top function
					okAdd := false
					core.Instrs(f, func(x ssa.Instruction) {
						if isWGCall(x, "Add") && core.Precedes(x, ins) {
							okAdd = true
						}
					})
					if !okAdd && f != top {
						core.Instrs(top, func(x ssa.Instruction) {
							if isWGCall(x, "Add") {
								okAdd = true
							}
						})
					}
					construct := fk + " wg.Add before go"
					if okAdd {
						r.OK("WG-DISCIPLINE", construct, p.InsPos(ins), "an Add on the spawning side dominates the go statement")
					} else {
						r.Bad("WG-DISCIPLINE", construct, p.InsPos(ins), "the goroutine is started before the WaitGroup counter is raised: Wait can return before the callback has run")
					}
				}
			})
		}
		r.Anchor("WG-DISCIPLINE", fk+" starts worker goroutines", len(workers) > 0)
		for _, w := range workers {
			// Done exactly once on every path
			deferDone := false
			var dones []ssa.Instruction
			core.Instrs(w, func(ins ssa.Instruction) {
				if isWGCall(ins, "Done") {
					if _, ok := ins.(*ssa.Defer); ok {
						deferDone = true
					} else {
						dones = append(dones, ins)
					}
				}
			})
			construct := fk + " worker calls wg.Done exactly once"
			switch {
			case deferDone && len(dones) == 0:
				r.OK("WG-DISCIPLINE", construct, p.Pos(w.Pos()), "defer wg.Done()")
			case len(dones) == 0:
				r.Bad("WG-DISCIPLINE", construct, p.Pos(w.Pos()), "the worker never calls wg.Done(): the command waits forever")
			default:
				okAll, exit := core.MustPass(w.Blocks[0].Instrs[0], func(x ssa.Instruction) bool { return isWGCall(x, "Done") }, nil)
				twice := false
				for _, d := range dones {
					if reach, _ := core.Reaches(d, func(x ssa.Instruction) bool { return isWGCall(x, "Done") }, nil); reach {
						twice = true
					}
				}
				if okAll && !twice && !deferDone {
					r.OK("WG-DISCIPLINE", construct, p.InsPos(dones[0]), "every path of the worker passes exactly one wg.Done()")
				} else if !okAll {
					r.Bad("WG-DISCIPLINE", construct, p.InsPos(exit), "a path of the worker returns without wg.Done(): the command never returns")
				} else {
					r.Bad("WG-DISCIPLINE", construct, p.InsPos(dones[0]), "wg.Done() can run twice for one worker")
				}
			}
		}
		// Wait on every path to a normal return of the top function, after the spawning
		var firstSpawn ssa.Instruction
		core.Instrs(top, func(ins ssa.Instruction) {
			if firstSpawn != nil {
				return
			}
			if _, ok := ins.(*ssa.Go); ok {
				firstSpawn = ins
			}
			if c, ok := ins.(*ssa.Call); ok && !c.Call.IsInvoke() && core.IsNamed(c.Call.Value.Type(), pkgEval, "Inputs") {
				firstSpawn = ins // the inputs(...) call that spawns per input
			}
		})
		if firstSpawn != nil {
			ok, exit := core.MustPass(firstSpawn, func(x ssa.Instruction) bool { return isWGCall(x, "Wait") }, nil)
			construct := fk + " wg.Wait before returning"
			if ok {
				r.OK("WG-DISCIPLINE", construct, p.InsPos(firstSpawn), "every path from the spawning to a return passes wg.Wait()")
			} else {
				r.Bad("WG-DISCIPLINE", construct, p.InsPos(exit), "the command can return while callbacks it started are still running")
			}
		}
	}

	// RECHECK (peach): on every path to the go statement, the last read of `broken` is after the last Acquire
	var perInput *ssa.Function
	var peachWorkers []*ssa.Function
	for _, a := range builtinFuncs(peach) {
		core.Instrs(a, func(ins ssa.Instruction) {
			if g, ok := ins.(*ssa.Go); ok {
				perInput = a
				if w := workerOf(g); w != nil {
					peachWorkers = append(peachWorkers, w)
				}
			}
		})
	}
	if r.Anchor("RECHECK", "per-input callback of peach containing the go statement", perInput != nil) {
		isAcquire := func(x ssa.Instruction) bool { return isSemaCall(x, "Acquire") }
		isBrokenRead := isFlagLoad
		var acq ssa.Instruction
		core.Instrs(perInput, func(ins ssa.Instruction) {
			if isAcquire(ins) {
				acq = ins
			}
		})
		if acq == nil {
			r.OK("RECHECK", "eval.peach broken flag re-read after blocking Acquire", p.Pos(perInput.Pos()), "no blocking acquire in the per-input callback")
		} else {
			// from the Acquire, can we reach a go statement without passing a read of the flag?
			reach, _ := core.Reaches(acq, func(x ssa.Instruction) bool { _, isGo := x.(*ssa.Go); return isGo }, isBrokenRead)
			if reach {
				r.Bad("RECHECK", "eval.peach broken flag re-read after blocking Acquire", p.InsPos(acq), "the stop flag is read only before waiting for a worker slot: a callback that breaks while the next input waits does not prevent that next callback from starting (peach &num-workers=1 differs from each)")
			} else {
				r.OK("RECHECK", "eval.peach broken flag re-read after blocking Acquire", p.InsPos(acq), "every path from Acquire to the go statement re-reads the flag")
			}
		}
		// RECHECK, worker side: the re-read after Acquire only helps if a
		// worker publishes its stop request BEFORE it frees its slot. In the
		// worker goroutine no store to the flag is reachable from Release.
		if acq != nil {
			isRelease := func(x ssa.Instruction) bool { return isSemaCall(x, "Release") }
			core.Instrs(perInput, func(ins ssa.Instruction) {
				g, ok := ins.(*ssa.Go)
				if !ok {
					return
				}
				worker := workerOf(g)
				if worker == nil {
					return
				}
				var rels []ssa.Instruction
				stores := 0
				core.Instrs(worker, func(x ssa.Instruction) {
					if isRelease(x) {
						rels = append(rels, x)
					}
					if isFlagStore(x) {
						stores++
					}
				})
				if len(rels) == 0 || stores == 0 {
					return
				}
				construct := "eval.peach worker publishes its stop request before freeing its slot"
				late := false
				var where ssa.Instruction
				for _, rel := range rels {
					if _, isDefer := rel.(*ssa.Defer); isDefer {
						continue // runs at the very end of the worker
					}
					if reach, hit := core.Reaches(rel, isFlagStore, nil); reach {
						late, where = true, hit
					}
				}
				if late {
					r.Bad("RECHECK", construct, p.InsPos(where), "the worker frees its semaphore slot before it records that the iteration must stop: the producer, woken by the free slot, re-reads the flag too early and starts one more callback after a break or failure (peach &num-workers=1 differs from each)")
				} else {
					r.OK("RECHECK", construct, p.InsPos(rels[0]), "no store to the stop flag is reachable after Release in the worker")
				}
			})
		}
		// SEMA-PAIR (a): acquired-but-unused slots are released before returning
		if acq != nil {
			// success edge of the acquire test
			call := acq.(*ssa.Call)
			var succ *ssa.BasicBlock
			for _, ref := range *call.Referrers() {
				if cmp, ok := ref.(*ssa.BinOp); ok {
					for _, r2 := range *cmp.Referrers() {
						if iff, ok := r2.(*ssa.If); ok {
							if cmp.Op == token.NEQ {
								succ = iff.Block().Succs[1]
							} else {
								succ = iff.Block().Succs[0]
							}
						}
					}
				}
			}
			if succ != nil && len(succ.Instrs) > 0 {
				isRelOrGo := func(x ssa.Instruction) bool {
					_, isGo := x.(*ssa.Go)
					return isGo || isSemaCall(x, "Release")
				}
				ok := true
				var exit ssa.Instruction
				if !isRelOrGo(succ.Instrs[0]) {
					ok, exit = core.MustPass(succ.Instrs[0], isRelOrGo, nil)
				}
				if ok {
					r.OK("SEMA-PAIR", "eval.peach acquired slot is handed to a worker or released", p.InsPos(acq), "every path from a successful Acquire reaches the go statement or a Release")
				} else {
					r.Bad("SEMA-PAIR", "eval.peach acquired slot is handed to a worker or released", p.InsPos(exit), "a path returns after a successful Acquire without starting the worker or releasing the slot: the slot leaks and later inputs block forever")
				}
			}
		}
	}
	// SEMA-PAIR (b): worker releases exactly once on every path (when a semaphore exists)
	for _, a := range []int{0} {
		_ = a
		for _, w := range peachWorkers {
			var rels []ssa.Instruction
			core.Instrs(w, func(ins ssa.Instruction) {
				if isCallTo(ins, "(*golang.org/x/sync/semaphore.Weighted).Release") {
					rels = append(rels, ins)
				}
			})
			if len(rels) == 0 {
				continue
			}
			// every return is preceded by the `workerSema != nil` test whose true edge releases
			okAll := true
			var bad ssa.Instruction
			core.Instrs(w, func(ins ssa.Instruction) {
				if _, isRet := ins.(*ssa.Return); !isRet {
					return
				}
				// the return must be reachable only through: Release, or the nil-semaphore edge
				reachNoRel, _ := core.Reaches(w.Blocks[0].Instrs[0], func(x ssa.Instruction) bool { return x == ins }, func(x ssa.Instruction) bool {
					if isCallTo(x, "(*golang.org/x/sync/semaphore.Weighted).Release") {
						return true
					}
					if iff, ok := x.(*ssa.If); ok {
						if cmp, ok := iff.Cond.(*ssa.BinOp); ok {
							if c, isC := cmp.Y.(*ssa.Const); isC && c.IsNil() && strings.Contains(cmp.X.Type().String(), "semaphore.Weighted") {
								return true // paths through the nil test are handled by its structure
							}
						}
					}
					return false
				})
				if reachNoRel {
					okAll, bad = false, ins
				}
			})
			// the nil test must be exactly `sema != nil` with Release on the true edge and nothing else guarding it
			guardOK := false
			core.Instrs(w, func(ins ssa.Instruction) {
				if iff, ok := ins.(*ssa.If); ok {
					if cmp, ok := iff.Cond.(*ssa.BinOp); ok && cmp.Op == token.NEQ {
						if c, isC := cmp.Y.(*ssa.Const); isC && c.IsNil() && strings.Contains(cmp.X.Type().String(), "semaphore.Weighted") {
							for _, x := range iff.Block().Succs[0].Instrs {
								if isCallTo(x, "(*golang.org/x/sync/semaphore.Weighted).Release") {
									guardOK = true
								}
							}
						}
					}
				}
			})
			if okAll && guardOK {
				r.OK("SEMA-PAIR", "eval.peach worker releases its slot on every path", p.InsPos(rels[0]), "every return of the worker passes `if sema != nil { Release }`")
			} else if !okAll {
				r.Bad("SEMA-PAIR", "eval.peach worker releases its slot on every path", p.InsPos(bad), "a path of the worker finishes without releasing its slot: with a bound, later inputs wait forever")
			} else {
				r.Bad("SEMA-PAIR", "eval.peach worker releases its slot on every path", p.InsPos(rels[0]), "the Release is guarded by more than the semaphore's existence: on some outcomes of the callback the slot is not released")
			}
		}
	}

	// ERR-AGG: stores to peach's shared err inside workers are under errMu; no unchecked assertion on callee errors
	for _, a := range []int{0} {
		_ = a
		for _, w := range peachWorkers {
			core.Instrs(w, func(ins ssa.Instruction) {
				st, ok := ins.(*ssa.Store)
				if !ok {
					return
				}
				// the shared error: a captured variable, or a field of the
				// shared state struct
				switch addr := st.Addr.(type) {
				case *ssa.FreeVar:
					if !strings.HasSuffix(addr.Type().String(), "*error") {
						return
					}
				case *ssa.FieldAddr:
					if addr.Type().String() != "*error" {
						return
					}
					if _, isLocal := addr.X.(*ssa.Alloc); isLocal {
						return
					}
				default:
					return
				}
				// a Lock on a captured mutex must precede, with no Unlock in between (deferred unlock accepted)
				locked := false
				core.Instrs(w, func(x ssa.Instruction) {
					if isCallTo(x, "(*sync.Mutex).Lock") && core.Precedes(x, st) {
						if reach, _ := core.Reaches(x, func(y ssa.Instruction) bool { return y == ssa.Instruction(st) }, func(y ssa.Instruction) bool {
							_, isDefer := y.(*ssa.Defer)
							return !isDefer && isCallTo(y, "(*sync.Mutex).Unlock")
						}); reach {
							locked = true
						}
					}
				})
				if locked {
					r.OK("ERR-AGG", "eval.peach shared error written under its mutex", p.InsPos(st), "a Lock dominates the store and no Unlock lies between")
				} else {
					r.Bad("ERR-AGG", "eval.peach shared error written under its mutex", p.InsPos(st), "concurrent callbacks write the shared error without the mutex: exceptions can be lost (and the race detector fires)")
				}
			})
		}
	}
	if r.CountRule("ERR-AGG") == 0 {
		// no mutex-protected store found: accept a compare-and-swap retry
		// loop, reject anything else
		hasCAS, hasSwapStore := false, false
		var where ssa.Instruction
		for _, a := range []int{0} {
			_ = a
			for _, w := range peachWorkers {
				core.Instrs(w, func(ins ssa.Instruction) {
					c, ok := ins.(ssa.CallInstruction)
					if !ok {
						return
					}
					callee := c.Common().StaticCallee()
					if callee == nil || core.PkgPathOf(callee) != "sync/atomic" {
						return
					}
					switch core.Origin(callee).Name() {
					case "CompareAndSwap", "CompareAndSwapPointer":
						hasCAS = true
					case "Swap", "Store", "SwapPointer", "StorePointer":
						if strings.Contains(callee.String(), "error") || strings.Contains(callee.String(), "Pointer") {
							hasSwapStore = true
							where = ins
						}
					}
				})
			}
		}
		switch {
		case hasCAS:
			r.OK("ERR-AGG", "eval.peach shared error aggregated with a compare-and-swap loop", p.Pos(peach.Pos()), "CAS retry idiom")
		case hasSwapStore:
			r.Bad("ERR-AGG", "eval.peach shared error aggregated atomically", p.InsPos(where), "the shared error is updated with separate atomic Swap/Store operations, which is not an atomic read-modify-write: when three or more callbacks fail at the same time a later Store overwrites a merged error and exceptions are lost")
		default:
			r.Bad("ERR-AGG", "eval.peach shared error aggregated atomically", p.Pos(peach.Pos()), "cannot find where peach's workers record a callback exception (neither a store under a mutex nor a compare-and-swap loop)")
		}
	}
	for _, top := range []*ssa.Function{peach, rp} {
		var all []*ssa.Function
		var collect func(f *ssa.Function)
		collect = func(f *ssa.Function) {
			all = append(all, f)
			for _, a := range f.AnonFuncs {
				collect(a)
			}
		}
		collect(top)
		nAssert := 0
		for _, f := range all {
			core.Instrs(f, func(ins ssa.Instruction) {
				ta, ok := ins.(*ssa.TypeAssert)
				if !ok || ta.CommaOk {
					return
				}
				// asserting a callee's error result
				if c, ok := ta.X.(*ssa.Call); ok && c.Call.IsInvoke() && c.Call.Method.Name() == "Call" {
					nAssert++
					r.Bad("ERR-AGG", core.FnKey(top)+" unchecked assertion on a callee's error", p.InsPos(ins), "a callee may return a plain error (e.g. an arity mismatch from a Go builtin); the unchecked assertion panics instead of reporting it")
				}
			})
		}
		if nAssert == 0 {
			r.OK("ERR-AGG", core.FnKey(top)+" no unchecked assertion on a callee's error", p.Pos(top.Pos()), "callee errors are recorded without panicking assertions")
		}
	}
}

func isAtomicLoadMethod(x ssa.Instruction) bool {
	c, ok := x.(ssa.CallInstruction)
	if !ok {
		return false
	}
	callee := c.Common().StaticCallee()
	return callee != nil && core.PkgPathOf(callee) == "sync/atomic" && callee.Name() == "Load"
}
