package rules

import (
	"go/token"
	"go/types"
	"sort"
	"strings"

	"golang.org/x/tools/go/ssa"

	"verif/sa/internal/core"
)

// runFDPositional (C42 FD-POSITIONAL): an external command inherits port n as
// its file descriptor n. The file table handed to os.StartProcess is
// therefore a slice made with one slot per port (make([]*os.File,
// len(fm.ports))) and filled by position; a table built with append drops the
// slots of unset ports and shifts every later descriptor down (`cmd 5>file`
// would reach the child as fd 3).
func runFDPositional(p *core.Program, r *core.Report) {
	const rule = "FD-POSITIONAL"
	n := 0
	for _, fn := range p.FnsInPkg(pkgEval) {
		core.Instrs(fn, func(ins ssa.Instruction) {
			st, ok := ins.(*ssa.Store)
			if !ok {
				return
			}
			fa, ok := st.Addr.(*ssa.FieldAddr)
			if !ok {
				return
			}
			nt, f := core.FieldName(fa)
			if nt == nil || nt.Obj().Name() != "ProcAttr" || f != "Files" {
				return
			}
			n++
			construct := core.FnKey(fn) + " gives the child process one file slot per port"
			bad := ""
			seen := map[ssa.Value]bool{}
			var check func(v ssa.Value, depth int)
			check = func(v ssa.Value, depth int) {
				if v == nil || seen[v] || bad != "" || depth > 4 {
					return
				}
				seen[v] = true
				switch x := v.(type) {
				case *ssa.MakeSlice:
					// the length is len(<a port table>): fm.ports itself, or a
					// parameter / local of type []*Port holding it
					la := lenArg(x.Len)
					ok := false
					if la != nil {
						if sl, isSl := la.Type().Underlying().(*types.Slice); isSl {
							if ptr, isPtr := sl.Elem().(*types.Pointer); isPtr && core.IsNamed(ptr.Elem(), pkgEval, "Port") {
								ok = true
							}
						}
					}
					if !ok {
						bad = "the table is made with a length other than len(fm.ports)"
					}
				case *ssa.Phi:
					for _, e := range x.Edges {
						check(e, depth)
					}
				case *ssa.Slice:
					check(x.X, depth)
				case *ssa.Call:
					if b, isB := x.Call.Value.(*ssa.Builtin); isB && b.Name() == "append" {
						bad = "the table is built with append, which has no slot for a port that is not set"
						return
					}
					callee := x.Call.StaticCallee()
					if callee == nil || callee.Blocks == nil || core.PkgPathOf(callee) != pkgEval {
						bad = "the table comes from " + addrDesc(x)
						return
					}
					core.Instrs(callee, func(i2 ssa.Instruction) {
						if ret, ok := i2.(*ssa.Return); ok && len(ret.Results) >= 1 {
							check(ret.Results[0], depth+1)
						}
					})
				case *ssa.UnOp:
					if a, isA := x.X.(*ssa.Alloc); isA && x.Op == token.MUL {
						for _, ref := range *a.Referrers() {
							if s2, ok := ref.(*ssa.Store); ok && s2.Addr == ssa.Value(a) {
								check(s2.Val, depth)
							}
						}
						return
					}
					bad = "the table comes from " + addrDesc(x)
				default:
					bad = "the table comes from " + addrDesc(v)
				}
			}
			check(st.Val, 0)
			if bad == "" {
				r.OK(rule, construct, p.InsPos(ins), "ProcAttr.Files is make([]*os.File, len(fm.ports)), filled by position")
			} else {
				r.Bad(rule, construct, p.InsPos(ins), bad+": the child's descriptor numbers no longer match the redirections (`cmd 5>file` with fds 3 and 4 unset reaches the child as fd 3, and data meant for one file lands in another)")
			}
		})
	}
	r.Count(rule+" file tables handed to os.StartProcess", n)
}

// runFDValidity (C42 FD-VALID): whether a redirection raises "invalid fd" is
// decided by the number alone and by whether the port table has an entry at
// that position - never by the state of the port found there. A port closed
// with n>&- stays in the table as a closed placeholder; duplicating it
// (m>&n) must give another closed port, not an exception that aborts the
// form. So no condition on which the construction of an InvalidFD error is
// control-dependent reads a field of a Port (directly or through a helper the
// condition calls).
func runFDValidity(p *core.Program, r *core.Report) {
	const rule = "FD-VALID"
	fns := redirFamily(p)
	type site struct {
		mi *ssa.MakeInterface
	}
	var sites []site
	for _, fn := range fns {
		core.Instrs(fn, func(ins ssa.Instruction) {
			if mi, ok := ins.(*ssa.MakeInterface); ok && core.IsNamed(mi.X.Type(), pkgEval, "InvalidFD") {
				sites = append(sites, site{mi})
			}
		})
	}
	sort.Slice(sites, func(i, j int) bool { return p.InsPos(sites[i].mi) < p.InsPos(sites[j].mi) })
	r.Count(rule+" constructions of InvalidFD in the redirection code", len(sites))
	if !r.Anchor(rule, "construction of an InvalidFD error in the redirection code", len(sites) >= 1) {
		return
	}
	n := map[string]int{}
	for _, s := range sites {
		fn := s.mi.Parent()
		key := core.FnKey(fn) + " raises invalid fd for " + fdOperandDesc(s.mi)
		n[key]++
		construct := key
		if n[key] > 1 {
			construct += " (again)"
		}
		conds := controllingConds(fn, s.mi.Block())
		var bad ssa.Instruction
		for _, c := range conds {
			if ins := readsPortField(c, map[ssa.Value]bool{}, 0); ins != nil {
				bad = ins
				break
			}
		}
		if bad == nil {
			r.OK(rule, construct, p.InsPos(s.mi), "none of the "+fmtInt(int64(len(conds)))+" conditions deciding this error reads a field of a port")
		} else {
			r.Bad(rule, construct, p.InsPos(bad), "whether this redirection raises \"invalid fd\" depends on the state of the port in the table (a field of Port is read here): duplicating or redirecting over a port that was closed with >&- then aborts the form instead of yielding a closed port")
		}
	}
}

// fdOperandDesc names the FD field operand of the InvalidFD being built.
func fdOperandDesc(mi *ssa.MakeInterface) string {
	v := mi.X
	if u, ok := v.(*ssa.UnOp); ok && u.Op == token.MUL {
		if a, ok := u.X.(*ssa.Alloc); ok {
			for _, ref := range *a.Referrers() {
				if fa, ok := ref.(*ssa.FieldAddr); ok {
					for _, r2 := range *fa.Referrers() {
						if st, ok := r2.(*ssa.Store); ok && st.Addr == fa {
							return strings.TrimPrefix(addrDesc(st.Val), "*")
						}
					}
				}
			}
		}
	}
	return addrDesc(v)
}

// controllingConds: the conditions of every If on which blk is (transitively)
// control-dependent.
func controllingConds(fn *ssa.Function, blk *ssa.BasicBlock) []ssa.Value {
	// exitAvoiding: from s, some function exit is reachable without passing b
	exitAvoiding := func(s, b *ssa.BasicBlock) bool {
		seen := map[*ssa.BasicBlock]bool{}
		var walk func(x *ssa.BasicBlock) bool
		walk = func(x *ssa.BasicBlock) bool {
			if x == b || seen[x] {
				return false
			}
			seen[x] = true
			if len(x.Succs) == 0 {
				return true
			}
			for _, y := range x.Succs {
				if walk(y) {
					return true
				}
			}
			return false
		}
		return walk(s)
	}
	postDom := func(b, s *ssa.BasicBlock) bool { return s == b || (!exitAvoiding(s, b) && blockReaches(s, b)) }
	var out []ssa.Value
	done := map[*ssa.BasicBlock]bool{}
	work := []*ssa.BasicBlock{blk}
	for len(work) > 0 {
		b := work[len(work)-1]
		work = work[:len(work)-1]
		if done[b] {
			continue
		}
		done[b] = true
		for _, x := range fn.Blocks {
			if len(x.Instrs) == 0 || len(x.Succs) != 2 {
				continue
			}
			iff, ok := x.Instrs[len(x.Instrs)-1].(*ssa.If)
			if !ok {
				continue
			}
			p0, p1 := postDom(b, x.Succs[0]), postDom(b, x.Succs[1])
			if p0 != p1 {
				out = append(out, iff.Cond)
				work = append(work, x)
			}
		}
	}
	return out
}

// readsPortField: the value depends on a field of an eval.Port, looking
// through boolean and comparison operators, phis and the results of
// repository functions it calls.
func readsPortField(v ssa.Value, seen map[ssa.Value]bool, depth int) ssa.Instruction {
	if v == nil || seen[v] || depth > 3 {
		return nil
	}
	seen[v] = true
	switch x := v.(type) {
	case *ssa.BinOp:
		if i := readsPortField(x.X, seen, depth); i != nil {
			return i
		}
		return readsPortField(x.Y, seen, depth)
	case *ssa.UnOp:
		if x.Op == token.MUL {
			if fa, ok := x.X.(*ssa.FieldAddr); ok {
				if n, _ := core.FieldName(fa); n != nil && n.Obj().Name() == "Port" && n.Obj().Pkg() != nil && n.Obj().Pkg().Path() == pkgEval {
					return x
				}
			}
			return nil
		}
		return readsPortField(x.X, seen, depth)
	case *ssa.Phi:
		for _, e := range x.Edges {
			if i := readsPortField(e, seen, depth); i != nil {
				return i
			}
		}
		// the conditions that select the edge
		for _, c := range controllingPhiConds(x) {
			if i := readsPortField(c, seen, depth); i != nil {
				return i
			}
		}
	case *ssa.Extract:
		return readsPortField(x.Tuple, seen, depth)
	case *ssa.ChangeType:
		return readsPortField(x.X, seen, depth)
	case *ssa.Convert:
		return readsPortField(x.X, seen, depth)
	case *ssa.Call:
		callee := x.Call.StaticCallee()
		if callee == nil || callee.Blocks == nil || !strings.HasPrefix(core.PkgPathOf(callee), core.ModPath) {
			return nil
		}
		var hit ssa.Instruction
		core.Instrs(callee, func(ins ssa.Instruction) {
			if hit != nil {
				return
			}
			if ret, ok := ins.(*ssa.Return); ok {
				for _, res := range ret.Results {
					if i := readsPortField(res, seen, depth+1); i != nil {
						hit = i
						return
					}
				}
			}
		})
		return hit
	}
	return nil
}

// controllingPhiConds: conditions of the Ifs that end the predecessors of a
// boolean phi (the a && b / a || b shape).
func controllingPhiConds(phi *ssa.Phi) []ssa.Value {
	var out []ssa.Value
	seen := map[*ssa.BasicBlock]bool{}
	var up func(b *ssa.BasicBlock, depth int)
	up = func(b *ssa.BasicBlock, depth int) {
		if seen[b] || depth > 4 {
			return
		}
		seen[b] = true
		if len(b.Instrs) > 0 {
			if iff, ok := b.Instrs[len(b.Instrs)-1].(*ssa.If); ok {
				out = append(out, iff.Cond)
			}
		}
		if !b.Dominates(phi.Block()) {
			for _, p := range b.Preds {
				up(p, depth+1)
			}
		}
	}
	for _, p := range phi.Block().Preds {
		up(p, 0)
	}
	return out
}
