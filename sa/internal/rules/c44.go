package rules

import (
	"go/token"
	"go/types"
	"sort"
	"strings"

	"golang.org/x/tools/go/ssa"

	"verif/sa/internal/core"
)

const (
	pkgLSP      = "src.elv.sh/pkg/lsp"
	pkgGoLSP    = "pkg.nimblebun.works/go-lsp"
	pkgRPC      = "github.com/sourcegraph/jsonrpc2"
	pkgNP       = "src.elv.sh/pkg/parse/np"
	pkgComplete = "src.elv.sh/pkg/edit/complete"
)

func init() {
	register(&core.Spec{
		ID: "C44",
		Explanation: "Decides structural necessary conditions of three clauses of C44 inside pkg/lsp. (WIRE-GUARD, no-crash clause) every value decoded from the wire - the jsonrpc2.Request handed to the routing handler, and the go-lsp parameter structs filled by json.Unmarshal and passed to the handlers - is dereferenced (pointer), indexed or sliced (slice, string), asserted (interface) or used as an index/size/divisor (number) only under a dominating nil / length / range check; the server has no recover, so one unguarded use is a crash on a request that omits the member. (HANDLER-SYNC, no-crash clause) the documents map is touched only by the synchronous handlers: no function started with `go` inside pkg/lsp reaches an access to a map field of the server, and the handler is never wrapped in jsonrpc2.AsyncHandler. (TEXT-AGREE, position clause) within one request, every position<->offset conversion, the text given to the completer, the text parsed and the text stored in the document record are one and the same string, and the tree searched by hover belongs to the document whose text the position was converted against; the stored record's tree and error come from the one parse of the stored text. (DIAG-SOURCE, diagnostics clause) every published diagnostic's range is the range converter applied to one element of parse.UnpackErrors(err) of that parse, against the parsed text; the converter maps From and To through the same offset->position function on the same string; one diagnostic is stored per entry on every loop iteration, the slice has len(entries) elements and is the one published, under the URI the document is stored under. The arithmetic of walkString (UTF-16 units, CRLF, round trip) and the contents of hover/completion answers are not decided.",
		NotCovered:  "walkString's UTF-16 / CRLF arithmetic and the offset<->position round trip; what hover and completion answer; panics inside the parser, completer or doc lookup that are not driven by a decoded wire value; behaviour of the jsonrpc2 library",
		Rules: []string{
			"WIRE-GUARD: decoded wire values are dereferenced / indexed / asserted only under a dominating check",
			"HANDLER-SYNC: server maps are not reachable from goroutines; no AsyncHandler",
			"TEXT-AGREE: one text per request for parsing, completing, storing and converting positions; tree and text from the same document record",
			"DIAG-SOURCE: diagnostics are exactly the converted ranges of the parse's unpacked errors",
			"DIAG-ORDER: diagnostics published from a goroutine per update are sent under a mutex and only past a comparison with the update's sequence number",
			"LSP-INDEX: every constant-index element access on a string or slice in pkg/lsp has a length bound proven on every path",
		},
		Patterns:  []string{"./pkg/lsp/..."},
		Run:       runC44,
		MinCounts: map[string]int{"WIRE-GUARD": 2, "HANDLER-SYNC": 2, "TEXT-AGREE": 4, "DIAG-SOURCE": 5, "DIAG-ORDER": 1},
		Trusted:   append([]string{"json.Unmarshal leaves absent members at their zero value (nil pointer, nil slice)", "jsonrpc2 calls the handler with a non-nil *Request, one request at a time unless AsyncHandler is used"}, trustedBase...),
		Controls: []core.Control{
			{Name: "revert-fix-missing-params-deref", Rule: "WIRE-GUARD", File: "pkg/lsp/server.go", Old: "\t\tvar params json.RawMessage\n\t\tif req.Params != nil {\n\t\t\tparams = *req.Params\n\t\t}\n", New: "\t\tparams := *req.Params\n", Fire: true, Want: "Params", Quick: true},
			{Name: "revert-fix-empty-content-changes", Rule: "WIRE-GUARD", File: "pkg/lsp/server.go", Old: "\tif len(params.ContentChanges) == 0 {\n\t\treturn nil, errInvalidParams\n\t}\n", New: "", Fire: true, Want: "ContentChanges", Quick: true},
			{Name: "benign-length-check-other-form", Rule: "WIRE-GUARD", File: "pkg/lsp/server.go", Old: "\tif len(params.ContentChanges) == 0 {", New: "\tif changes := params.ContentChanges; len(changes) < 1 {", Fire: false},
			{Name: "benign-nil-check-inverted", Rule: "WIRE-GUARD", File: "pkg/lsp/server.go", Old: "\t\tif req.Params != nil {\n\t\t\tparams = *req.Params\n\t\t}\n", New: "\t\tif req.Params == nil {\n\t\t\tparams = nil\n\t\t} else {\n\t\t\tparams = *req.Params\n\t\t}\n", Fire: false},
			{Name: "last-change-instead-of-first-unguarded", Rule: "WIRE-GUARD", File: "pkg/lsp/server.go", Old: "\tif len(params.ContentChanges) == 0 {\n\t\treturn nil, errInvalidParams\n\t}\n\turi, content := params.TextDocument.URI, params.ContentChanges[0].Text", New: "\turi, content := params.TextDocument.URI, params.ContentChanges[len(params.ContentChanges)-1].Text", Fire: true, Want: "ContentChanges"},
			{Name: "benign-last-change-guarded", Rule: "WIRE-GUARD", File: "pkg/lsp/server.go", Old: "params.ContentChanges[0].Text", New: "params.ContentChanges[len(params.ContentChanges)-1].Text", Fire: false},
			{Name: "benign-all-changes-in-a-loop", Rule: "WIRE-GUARD", File: "pkg/lsp/server.go", Old: "\turi, content := params.TextDocument.URI, params.ContentChanges[0].Text", New: "\turi, content := params.TextDocument.URI, \"\"\n\tfor _, ch := range params.ContentChanges {\n\t\tcontent = ch.Text\n\t}", Fire: false},
			{Name: "position-used-as-line-index", Rule: "WIRE-GUARD", File: "pkg/lsp/server.go", Old: "\tpos := lspPositionToIdx(document.code, params.Position)\n", New: "\tpos := lspPositionToIdx(document.code, params.Position)\n\t_ = document.code[params.Position.Line:]\n", Fire: true, Want: "hover"},
			{Name: "hover-indexes-an-empty-variable-name", Rule: "LSP-INDEX", File: "pkg/lsp/server.go", Old: "\t\tmarkdown, err := doc.Source(\"$\" + primary.Value)", New: "\t\tname := primary.Value\n\t\tif name[0] == '@' {\n\t\t\tname = name[1:]\n\t\t}\n\t\tmarkdown, err := doc.Source(\"$\" + name)", Fire: true, Want: "hover"},
			{Name: "benign-hover-strips-sigil-after-length-check", Rule: "LSP-INDEX", File: "pkg/lsp/server.go", Old: "\t\tmarkdown, err := doc.Source(\"$\" + primary.Value)", New: "\t\tname := primary.Value\n\t\tif len(name) > 0 && name[0] == '@' {\n\t\t\tname = name[1:]\n\t\t}\n\t\tmarkdown, err := doc.Source(\"$\" + name)", Fire: false},
			{Name: "revert-fix-diagnostics-unordered", Rule: "DIAG-ORDER", File: "pkg/lsp/server.go", Old: "\t\ts.publishMu.Lock()\n\t\tdefer s.publishMu.Unlock()\n\t\tif s.published[uri] > seq {\n\t\t\t// The diagnostics of a newer text have already been published.\n\t\t\treturn\n\t\t}\n\t\ts.published[uri] = seq\n", New: "\t\t_ = seq\n", Fire: true, Want: "order"},
			{Name: "diagnostics-serialized-but-stale-ones-kept", Rule: "DIAG-ORDER", File: "pkg/lsp/server.go", Old: "\t\tif s.published[uri] > seq {\n\t\t\t// The diagnostics of a newer text have already been published.\n\t\t\treturn\n\t\t}\n", New: "", Fire: true, Want: "order"},
			{Name: "benign-diagnostics-published-synchronously", Rule: "DIAG-ORDER", File: "pkg/lsp/server.go", Old: "\tgo func() {\n\t\t// Convert the parse error to lsp.Diagnostic objects and publish them.", New: "\tfunc() {\n\t\t// Convert the parse error to lsp.Diagnostic objects and publish them.", Fire: false},
			{Name: "diagnostics-goroutine-reads-documents", Rule: "HANDLER-SYNC", File: "pkg/lsp/server.go", Old: "\t\t\t\tRange:    lspRangeFromRange(code, err),", New: "\t\t\t\tRange:    lspRangeFromRange(s.documents[uri].code, err),", Fire: true, Want: "documents", Quick: true},
			{Name: "async-handler", Rule: "HANDLER-SYNC", File: "pkg/lsp/lsp.go", Old: "\t\thandler(s))", New: "\t\tjsonrpc2.AsyncHandler(handler(s)))", Fire: true, Want: "AsyncHandler"},
			{Name: "diagnostics-against-stored-text", Rule: "DIAG-SOURCE", File: "pkg/lsp/server.go", Old: "\t\t\t\tRange:    lspRangeFromRange(code, err),", New: "\t\t\t\tRange:    lspRangeFromRange(s.documents[uri].code, err),", Fire: true, Want: "updateDocument"},
			{Name: "range-end-from-start", Rule: "DIAG-SOURCE", File: "pkg/lsp/server.go", Old: "\t\tEnd:   lspPositionFromIdx(s, rg.To),", New: "\t\tEnd:   lspPositionFromIdx(s, rg.From),", Fire: true, Want: "lspRangeFromRange", Quick: true},
			{Name: "only-first-diagnostic", Rule: "DIAG-SOURCE", File: "pkg/lsp/server.go", Old: "\t\tfor i, err := range entries {\n", New: "\t\tfor i, err := range entries {\n\t\t\tif i > 0 {\n\t\t\t\tbreak\n\t\t\t}\n", Fire: true, Want: "updateDocument"},
			{Name: "diagnostics-under-other-uri", Rule: "DIAG-SOURCE", File: "pkg/lsp/server.go", Old: "lsp.PublishDiagnosticsParams{URI: uri, Diagnostics: diags})", New: "lsp.PublishDiagnosticsParams{URI: uri + \"#\", Diagnostics: diags})", Fire: true, Want: "URI"},
			{Name: "stored-text-differs-from-parsed", Rule: "TEXT-AGREE", File: "pkg/lsp/server.go", Old: "\ts.documents[uri] = document{code, tree, err}", New: "\ts.documents[uri] = document{code + \"\\n\", tree, err}", Fire: true, Want: "updateDocument", Quick: true},
			{Name: "hover-converts-against-other-text", Rule: "TEXT-AGREE", File: "pkg/lsp/server.go", Old: "\tpos := lspPositionToIdx(document.code, params.Position)\n", New: "\tpos := lspPositionToIdx(string(params.TextDocument.URI), params.Position)\n", Fire: true, Want: "hover"},
			{Name: "completion-range-against-other-text", Rule: "TEXT-AGREE", File: "pkg/lsp/server.go", Old: "\tlspRange := lspRangeFromRange(code, result.Replace)", New: "\tlspRange := lspRangeFromRange(code[:result.Replace.To], result.Replace)", Fire: true, Want: "completion"},
			{Name: "benign-document-literal-keyed", Rule: "TEXT-AGREE", File: "pkg/lsp/server.go", Old: "\ts.documents[uri] = document{code, tree, err}", New: "\tdoc := document{parseErr: err, parseTree: tree, code: code}\n\ts.documents[uri] = doc", Fire: false},
			{Name: "benign-entries-loop-by-index", Rule: "DIAG-SOURCE", File: "pkg/lsp/server.go", Old: "\t\tfor i, err := range entries {\n", New: "\t\tfor i := 0; i < len(entries); i++ {\n\t\t\terr := entries[i]\n", Fire: false},
		},
	})
}

// ---------------------------------------------------------------------------
// resolution helpers

// singleStoreOf returns the only value ever stored into a local/captured
// cell (no store from a closure that captures it), or nil.
func singleStoreOf(cell *ssa.Alloc) ssa.Value {
	var stored []ssa.Value
	for _, ref := range *cell.Referrers() {
		switch x := ref.(type) {
		case *ssa.Store:
			if x.Addr == ssa.Value(cell) {
				stored = append(stored, x.Val)
			}
		case *ssa.MakeClosure:
			f := x.Fn.(*ssa.Function)
			for i, b := range x.Bindings {
				if b != ssa.Value(cell) || i >= len(f.FreeVars) {
					continue
				}
				fv := f.FreeVars[i]
				for _, r2 := range *fv.Referrers() {
					if st, ok := r2.(*ssa.Store); ok && st.Addr == ssa.Value(fv) {
						return nil
					}
					if _, ok := r2.(*ssa.MakeClosure); ok {
						return nil // captured again: give up
					}
				}
			}
		}
	}
	if len(stored) != 1 {
		return nil
	}
	return stored[0]
}

// resolveVal follows loads of single-assignment cells (local or captured)
// and type changes to the value they denote.
func resolveVal(v ssa.Value) ssa.Value {
	for i := 0; i < 10; i++ {
		switch x := v.(type) {
		case *ssa.ChangeType:
			v = x.X
			continue
		case *ssa.Parameter:
			// a helper with exactly one call site: the argument there
			if a := uniqueCallArg(x); a != nil {
				v = a
				continue
			}
			return v
		case *ssa.UnOp:
			if x.Op != token.MUL {
				return v
			}
			switch a := x.X.(type) {
			case *ssa.Alloc:
				if w := singleStoreOf(a); w != nil {
					v = w
					continue
				}
			case *ssa.FreeVar:
				if b := bindingOf(a); b != nil {
					if cell, ok := b.(*ssa.Alloc); ok {
						if w := singleStoreOf(cell); w != nil {
							v = w
							continue
						}
					}
				}
			}
		}
		return v
	}
	return v
}

// originKey: a stable rendering of where a value comes from, equal for two
// evaluations of the same source expression within one outer function.
func originKey(v ssa.Value) string {
	v = resolveVal(v)
	switch x := v.(type) {
	case *ssa.Parameter:
		return "param " + x.Name() + " of " + core.FnKey(x.Parent())
	case *ssa.UnOp:
		if x.Op == token.MUL {
			return core.FnKey(core.Outer(x.Parent())) + ": " + exprKey(x)
		}
	}
	if f := v.Parent(); f != nil {
		return core.FnKey(core.Outer(f)) + ": " + exprKey(v) + "@" + v.Name()
	}
	return exprKey(v)
}

func isNilConst(v ssa.Value) bool {
	c, ok := v.(*ssa.Const)
	return ok && c.Value == nil
}

// nilGuarded: ins is dominated by the non-nil edge of a comparison of the
// same expression with nil.
func nilGuarded(v ssa.Value, ins ssa.Instruction) bool {
	key := exprKey(v)
	fn := ins.Parent()
	for _, b := range fn.Blocks {
		if len(b.Instrs) == 0 {
			continue
		}
		iff, ok := b.Instrs[len(b.Instrs)-1].(*ssa.If)
		if !ok {
			continue
		}
		cmp, ok := iff.Cond.(*ssa.BinOp)
		if !ok || (cmp.Op != token.EQL && cmp.Op != token.NEQ) {
			continue
		}
		var other ssa.Value
		switch {
		case isNilConst(cmp.Y):
			other = cmp.X
		case isNilConst(cmp.X):
			other = cmp.Y
		default:
			continue
		}
		if other != v && exprKey(other) != key {
			continue
		}
		e := core.EdgeTo(b, ins.Block())
		if (cmp.Op == token.NEQ && e == 0) || (cmp.Op == token.EQL && e == 1) {
			return true
		}
	}
	return false
}

// lenAtLeast: the largest n such that dominating checks establish
// len(base) >= n at ins (pooling every len() of the same expression).
func lenAtLeast(fe *factEngine, base ssa.Value, ins ssa.Instruction) int64 {
	key := exprKey(base)
	pooled := factSet{}
	core.Instrs(ins.Parent(), func(i2 ssa.Instruction) {
		c, ok := i2.(*ssa.Call)
		if !ok {
			return
		}
		la := lenArg(c)
		if la == nil || (la != base && exprKey(la) != key) {
			return
		}
		if !core.Precedes(c, ins) {
			return
		}
		for k := range fe.at(c, ins, 0) {
			pooled[k] = true
		}
	})
	best := int64(0)
	for k := range pooled {
		if strings.HasPrefix(k, "lo>=") {
			if m, err := parseInt(k[4:]); err == nil && m > best {
				best = m
			}
		}
	}
	for pooled["ne:"+fmtInt(best)] {
		best++
	}
	return best
}

// ---------------------------------------------------------------------------

func runC44(p *core.Program, r *core.Report) {
	fns := p.FnsInPkg(pkgLSP)
	if !r.Anchor("WIRE-GUARD", "package "+pkgLSP, len(fns) > 0) {
		return
	}
	sort.Slice(fns, func(i, j int) bool { return fns[i].String() < fns[j].String() })
	runWireGuard(p, r, fns)
	runHandlerSync(p, r, fns)
	runDiagOrder(p, r, fns)
	runLspIndex(p, r, fns)
	runTextAgree(p, r, fns)
	runDiagSource(p, r, fns)
}

func fromPkg(t types.Type, pkg string) bool {
	if ptr, ok := t.(*types.Pointer); ok {
		t = ptr.Elem()
	}
	n, ok := t.(*types.Named)
	return ok && n.Obj().Pkg() != nil && n.Obj().Pkg().Path() == pkg
}

type wireKind int

const (
	wVal  wireKind = iota // a value decoded from the wire
	wAddr                 // the (non-nil) address of decoded data
)

// runWireGuard: see the spec's explanation.
func runWireGuard(p *core.Program, r *core.Report, fns []*ssa.Function) {
	const rule = "WIRE-GUARD"
	inScope := map[*ssa.Function]bool{}
	for _, f := range fns {
		inScope[f] = true
	}
	entries := map[*ssa.Function]string{}
	kind := map[ssa.Value]wireKind{}
	var work []ssa.Value
	add := func(v ssa.Value, k wireKind) {
		if v == nil {
			return
		}
		if _, isConst := v.(*ssa.Const); isConst {
			return
		}
		if f := v.Parent(); f == nil || !inScope[f] {
			return
		}
		if _, ok := kind[v]; ok {
			return
		}
		kind[v] = k
		work = append(work, v)
	}
	roots := 0
	for _, fn := range fns {
		for _, prm := range fn.Params {
			t := prm.Type()
			switch {
			case fromPkg(t, pkgRPC) && strings.HasSuffix(t.String(), ".Request"):
				if _, isPtr := t.(*types.Pointer); isPtr {
					add(prm, wAddr)
					roots++
					entries[fn] = "lsp:" + fn.Name()
				}
			case fromPkg(t, pkgGoLSP):
				if _, isStruct := t.Underlying().(*types.Struct); isStruct {
					add(prm, wVal)
					roots++
					entries[fn] = "lsp:" + fn.Name()
				}
			}
		}
		core.Instrs(fn, func(ins ssa.Instruction) {
			c, ok := ins.(ssa.CallInstruction)
			if !ok {
				return
			}
			callee := c.Common().StaticCallee()
			if callee == nil || callee.String() != "encoding/json.Unmarshal" || len(c.Common().Args) < 2 {
				return
			}
			dst := c.Common().Args[1]
			if mi, ok := dst.(*ssa.MakeInterface); ok {
				dst = mi.X
			}
			if a, ok := dst.(*ssa.Alloc); ok {
				add(a, wAddr)
				roots++
			}
		})
	}
	r.Count(rule+" decoded roots (Request parameters, go-lsp parameter structs, Unmarshal destinations)", roots)
	if !r.Anchor(rule, "decoded roots in pkg/lsp", roots >= 4) {
		return
	}
	fe := newFactEngine(p, entries)

	type oblig struct {
		ins  ssa.Instruction
		v    ssa.Value
		kind string // deref, index, slice, assert, mapupdate, number
		idx  ssa.Value
	}
	var obs []oblig
	for len(work) > 0 {
		v := work[len(work)-1]
		work = work[:len(work)-1]
		k := kind[v]
		refs := v.Referrers()
		if refs == nil {
			continue
		}
		_, isPtr := v.Type().Underlying().(*types.Pointer)
		_, isSlice := v.Type().Underlying().(*types.Slice)
		for _, ref := range *refs {
			switch x := ref.(type) {
			case *ssa.Field:
				add(x, wVal)
			case *ssa.FieldAddr:
				if x.X != v {
					continue
				}
				if k == wVal {
					obs = append(obs, oblig{x, v, "deref", nil})
				}
				add(x, wAddr)
			case *ssa.UnOp:
				if x.Op == token.MUL && x.X == v {
					if k == wVal {
						obs = append(obs, oblig{x, v, "deref", nil})
					}
					add(x, wVal)
				} else if x.Op == token.SUB || x.Op == token.XOR {
					add(x, wVal)
				}
			case *ssa.IndexAddr:
				switch {
				case x.X == v && k == wVal && isSlice:
					obs = append(obs, oblig{x, v, "index", x.Index})
					add(x, wAddr)
				case x.X == v && k == wVal && isPtr:
					obs = append(obs, oblig{x, v, "deref", nil})
					add(x, wAddr)
				case x.X == v:
					add(x, wAddr)
				case x.Index == v && k == wVal:
					obs = append(obs, oblig{x, x.X, "number-index", v})
				}
			case *ssa.Index:
				if x.Index == v && k == wVal {
					obs = append(obs, oblig{x, x.X, "number-index", v})
				} else if x.X == v {
					add(x, wVal)
				}
			case *ssa.Lookup:
				if x.X == v && k == wVal {
					if isStringType(v.Type()) {
						obs = append(obs, oblig{x, v, "index", x.Index})
					} else {
						add(x, wVal)
					}
				} else if x.Index == v && k == wVal && isStringType(x.X.Type()) {
					obs = append(obs, oblig{x, x.X, "number-index", v})
				}
			case *ssa.Slice:
				if x.X == v && k == wVal {
					if isPtr {
						obs = append(obs, oblig{x, v, "deref", nil})
					} else {
						for _, b := range []ssa.Value{x.Low, x.High, x.Max} {
							if b != nil {
								obs = append(obs, oblig{x, v, "slice", b})
							}
						}
					}
					add(x, wVal)
				} else if k == wVal && (x.Low == v || x.High == v || x.Max == v) {
					obs = append(obs, oblig{x, x.X, "number-slice", v})
				} else if x.X == v {
					add(x, wVal)
				}
			case *ssa.MakeSlice:
				if k == wVal && (x.Len == v || x.Cap == v) {
					obs = append(obs, oblig{x, nil, "number-make", v})
				}
			case *ssa.BinOp:
				if k != wVal {
					continue
				}
				switch x.Op {
				case token.QUO, token.REM:
					if x.Y == v && isIntType(v.Type()) {
						obs = append(obs, oblig{x, nil, "number-div", v})
					}
					add(x, wVal)
				case token.ADD, token.SUB, token.MUL, token.SHL, token.SHR, token.AND, token.OR, token.XOR, token.AND_NOT:
					if isNumeric(x.Type()) {
						add(x, wVal)
					}
				}
			case *ssa.Extract:
				add(x, wVal)
			case *ssa.Phi, *ssa.MakeInterface, *ssa.ChangeType, *ssa.Convert, *ssa.ChangeInterface, *ssa.Range, *ssa.Next:
				if k == wVal {
					add(x.(ssa.Value), wVal)
				}
			case *ssa.TypeAssert:
				if x.X == v && k == wVal {
					if !x.CommaOk {
						obs = append(obs, oblig{x, v, "assert", nil})
					}
					add(x, wVal)
				}
			case *ssa.MapUpdate:
				if x.Map == v && k == wVal {
					obs = append(obs, oblig{x, v, "mapupdate", nil})
				}
			case *ssa.Store:
				if x.Val == v && k == wVal {
					if a, ok := x.Addr.(*ssa.Alloc); ok {
						add(a, wAddr)
					}
				}
			case *ssa.MakeClosure:
				f := x.Fn.(*ssa.Function)
				for i, b := range x.Bindings {
					if b == v && i < len(f.FreeVars) {
						add(f.FreeVars[i], k)
					}
				}
			case ssa.CallInstruction:
				c := x.Common()
				callee := c.StaticCallee()
				if callee == nil || !inScope[callee] || callee.Blocks == nil {
					continue
				}
				for i, a := range c.Args {
					if a == v && i < len(callee.Params) {
						add(callee.Params[i], k)
					}
				}
			}
		}
	}
	r.Count(rule+" values derived from decoded wire data", len(kind))

	sort.SliceStable(obs, func(i, j int) bool {
		pi, pj := p.InsPos(obs[i].ins), p.InsPos(obs[j].ins)
		return pi < pj
	})
	seen := map[string]bool{}
	for _, o := range obs {
		fk := core.FnKey(o.ins.Parent())
		pos := p.InsPos(o.ins)
		switch o.kind {
		case "deref":
			construct := fk + " deref of " + addrDesc(o.v)
			if seen[construct] {
				continue
			}
			seen[construct] = true
			if nilGuarded(o.v, o.ins) {
				r.OK(rule, construct, pos, "dominated by the non-nil edge of a comparison of the same expression with nil")
			} else {
				r.Bad(rule, construct, pos, "a pointer decoded from the wire is dereferenced without a dominating nil check: a request that omits this member leaves it nil and the dereference crashes the server (no recover in the handler chain)")
			}
		case "index", "slice":
			construct := fk + " " + o.kind + " of " + addrDesc(o.v) + "[" + idxDesc(o.idx) + "]"
			if seen[construct] {
				continue
			}
			seen[construct] = true
			if n, isConst := constInt(o.idx); isConst {
				need := n + 1
				if o.kind == "slice" {
					need = n
				}
				have := lenAtLeast(fe, o.v, o.ins)
				if have >= need {
					r.OK(rule, construct, pos, "dominated by a check establishing len >= "+fmtInt(need))
				} else {
					r.Bad(rule, construct, pos, "a slice or string decoded from the wire is indexed at a constant position without a dominating length check (known: len >= "+fmtInt(have)+", needed: "+fmtInt(need)+"): a request with too few elements crashes the server")
				}
				continue
			}
			// x[len(x)-k], k >= 1: in range iff len(x) >= k
			if bo, ok := o.idx.(*ssa.BinOp); ok && bo.Op == token.SUB && o.kind == "index" {
				if k, isConst := constInt(bo.Y); isConst && k >= 1 {
					if la := lenArg(bo.X); la != nil && (la == o.v || exprKey(la) == exprKey(o.v)) {
						have := lenAtLeast(fe, o.v, o.ins)
						if have >= k {
							r.OK(rule, construct, pos, "index len-"+fmtInt(k)+" under a check establishing len >= "+fmtInt(k))
						} else {
							r.Bad(rule, construct, pos, "a slice decoded from the wire is indexed at len-"+fmtInt(k)+" without a dominating check that it has that many elements (known: len >= "+fmtInt(have)+"): an empty array crashes the server")
						}
						continue
					}
				}
			}
			facts := fe.at(o.idx, o.ins, 0)
			upper := "ltlen:" + exprKey(o.v)
			if o.kind == "slice" {
				upper = "lelen:" + exprKey(o.v) + "|" + upper
			}
			if needOK(facts, "ge0") && needOK(facts, upper) {
				r.OK(rule, construct, pos, "index bounded on every path ["+facts.String()+"]")
			} else {
				r.Bad(rule, construct, pos, "a slice or string decoded from the wire is indexed by a value not proven to lie within its length [known: "+facts.String()+"]: a request with fewer elements crashes the server")
			}
		case "assert":
			construct := fk + " assert of " + addrDesc(o.v)
			r.Bad(rule, construct, pos, "a non-comma-ok type assertion on a decoded interface value panics when the client sends another JSON type")
		case "mapupdate":
			construct := fk + " map update of " + addrDesc(o.v)
			if nilGuarded(o.v, o.ins) {
				r.OK(rule, construct, pos, "map checked against nil")
			} else {
				r.Bad(rule, construct, pos, "assignment into a map decoded from the wire: absent member leaves it nil and the assignment panics")
			}
		default: // number-*
			construct := fk + " " + o.kind + " by " + addrDesc(o.idx)
			if seen[construct] {
				continue
			}
			seen[construct] = true
			facts := fe.at(o.idx, o.ins, 0)
			var needs []string
			switch o.kind {
			case "number-index":
				needs = []string{"ge0", "ltlen:" + exprKey(o.v)}
			case "number-slice":
				needs = []string{"ge0", "lelen:" + exprKey(o.v) + "|ltlen:" + exprKey(o.v)}
			case "number-make":
				needs = []string{"ge0", "ub"}
			case "number-div":
				needs = []string{"ne0"}
			}
			var missing []string
			for _, n := range needs {
				if !needOK(facts, n) {
					missing = append(missing, n)
				}
			}
			if len(missing) == 0 {
				r.OK(rule, construct, pos, "guarded on every path ["+facts.String()+"]")
			} else {
				r.Bad(rule, construct, pos, "a number chosen by the client (position, version, ...) reaches a panicking operation unguarded; missing "+strings.Join(missing, ",")+" [known: "+facts.String()+"]")
			}
		}
	}
}

func idxDesc(v ssa.Value) string {
	if n, ok := constInt(v); ok {
		return fmtInt(n)
	}
	return addrDesc(v)
}

// ---------------------------------------------------------------------------

// serverMapField: a FieldAddr of a map-typed field of lsp.server.
func serverMapField(ins ssa.Instruction) (string, bool) {
	fa, ok := ins.(*ssa.FieldAddr)
	if !ok {
		return "", false
	}
	n, f := core.FieldName(fa)
	if n == nil || n.Obj().Pkg() == nil || n.Obj().Pkg().Path() != pkgLSP || n.Obj().Name() != "server" {
		return "", false
	}
	if _, isMap := fa.Type().(*types.Pointer).Elem().Underlying().(*types.Map); !isMap {
		return "", false
	}
	return f, true
}

func runHandlerSync(p *core.Program, r *core.Report, fns []*ssa.Function) {
	const rule = "HANDLER-SYNC"
	inScope := map[*ssa.Function]bool{}
	for _, f := range fns {
		inScope[f] = true
	}
	accesses := 0
	for _, fn := range fns {
		core.Instrs(fn, func(ins ssa.Instruction) {
			if _, ok := serverMapField(ins); ok {
				accesses++
			}
		})
	}
	r.Count(rule+" accesses to map fields of lsp.server", accesses)
	if !r.Anchor(rule, "lsp.server has a map field that is accessed", accesses >= 3) {
		return
	}
	// a map field every access to which, anywhere in the package, happens with
	// a mutex held is synchronised by that mutex and may be used from
	// goroutines (the table of published versions)
	unguarded := map[string]bool{}
	for _, fn := range fns {
		core.Instrs(fn, func(ins ssa.Instruction) {
			if fld, ok := serverMapField(ins); ok && !anyMutexHeldAt(ins) {
				// initialising the field of a server that is being constructed
				// (a composite literal) is not an access to shared state
				if _, fresh := ins.(*ssa.FieldAddr).X.(*ssa.Alloc); fresh {
					return
				}
				unguarded[fld] = true
			}
		})
	}
	// functions reachable from go statements, through static callees and
	// closures created in place, inside pkg/lsp
	for _, fn := range fns {
		core.Instrs(fn, func(ins ssa.Instruction) {
			g, ok := ins.(*ssa.Go)
			if !ok {
				return
			}
			start, _ := closureOf(g.Call.Value)
			if start == nil {
				start = g.Call.StaticCallee()
			}
			construct := core.FnKey(fn) + " go statement"
			if start == nil {
				r.Bad(rule, construct, p.InsPos(ins), "goroutine started on a function value that cannot be resolved; cannot show that it stays away from the documents map")
				return
			}
			seen := map[*ssa.Function]bool{}
			var offending ssa.Instruction
			var field string
			var visit func(f *ssa.Function)
			visit = func(f *ssa.Function) {
				if f == nil || seen[f] || !inScope[f] {
					return
				}
				seen[f] = true
				core.Instrs(f, func(i2 ssa.Instruction) {
					if fld, ok := serverMapField(i2); ok && offending == nil && unguarded[fld] {
						offending, field = i2, fld
					}
					switch x := i2.(type) {
					case ssa.CallInstruction:
						if c := x.Common().StaticCallee(); c != nil {
							visit(c)
						}
						if c, ok := closureOf(x.Common().Value); ok {
							visit(c)
						}
					case *ssa.MakeClosure:
						visit(x.Fn.(*ssa.Function))
					}
				})
			}
			visit(start)
			if offending != nil {
				r.Bad(rule, construct+" reaches server."+field, p.InsPos(offending), "a goroutine started by the server reads or writes server."+field+" while the synchronous handlers update it: concurrent map access is a fatal runtime error, and the text it sees may belong to a later version of the document")
			} else {
				r.OK(rule, construct, p.InsPos(ins), "no access to a map field of the server is reachable from the goroutine ("+fmtInt(int64(len(seen)))+" functions followed)")
			}
		})
	}
	// who-may: AsyncHandler
	n := 0
	for _, fn := range fns {
		core.Instrs(fn, func(ins ssa.Instruction) {
			c, ok := ins.(ssa.CallInstruction)
			if !ok {
				return
			}
			if callee := c.Common().StaticCallee(); callee != nil && core.PkgPathOf(callee) == pkgRPC && callee.Name() == "AsyncHandler" {
				n++
				r.Bad(rule, core.FnKey(fn)+" wraps the handler in jsonrpc2.AsyncHandler", p.InsPos(ins), "AsyncHandler runs every request in its own goroutine; the handlers share the documents map without a lock")
			}
		})
	}
	if n == 0 {
		r.OK(rule, "no jsonrpc2.AsyncHandler in pkg/lsp", "", "requests are handled one at a time by the connection's read loop")
	}
}

// ---------------------------------------------------------------------------

// isPosConv: a function of pkg/lsp that converts between offsets and
// positions against a text: first parameter string, and a go-lsp Position or
// Range among its parameters or results.
func isPosConv(f *ssa.Function) bool {
	if f == nil || core.PkgPathOf(f) != pkgLSP || len(f.Params) == 0 || f.Signature.Recv() != nil {
		return false
	}
	if !isStringType(f.Params[0].Type()) {
		return false
	}
	isPR := func(t types.Type) bool {
		n, ok := t.(*types.Named)
		return ok && n.Obj().Pkg() != nil && n.Obj().Pkg().Path() == pkgGoLSP && (n.Obj().Name() == "Position" || n.Obj().Name() == "Range")
	}
	for _, prm := range f.Params[1:] {
		if isPR(prm.Type()) {
			return true
		}
	}
	res := f.Signature.Results()
	for i := 0; i < res.Len(); i++ {
		if isPR(res.At(i).Type()) {
			return true
		}
	}
	return false
}

// fieldStores returns, for a struct literal cell, field name -> stored value.
func fieldStores(a ssa.Value) map[string]ssa.Value {
	out := map[string]ssa.Value{}
	refs := a.Referrers()
	if refs == nil {
		return out
	}
	for _, ref := range *refs {
		fa, ok := ref.(*ssa.FieldAddr)
		if !ok || fa.X != a {
			continue
		}
		_, f := core.FieldName(fa)
		for _, r2 := range *fa.Referrers() {
			if st, ok := r2.(*ssa.Store); ok && st.Addr == ssa.Value(fa) {
				out[f] = st.Val
			}
		}
	}
	return out
}

// docBase: if v is (a load of) field `field` of a document record held in a
// local cell, return a key for that cell.
func docField(v ssa.Value, path ...string) (string, bool) {
	cur := v
	for i := len(path) - 1; i >= 0; i-- {
		addr, ok := core.IsLoad(cur)
		var fa *ssa.FieldAddr
		if ok {
			fa, ok = addr.(*ssa.FieldAddr)
		} else {
			fa, ok = cur.(*ssa.FieldAddr)
		}
		if !ok {
			return "", false
		}
		if docFieldKind(fa) != path[i] {
			return "", false
		}
		cur = fa.X
	}
	if a, ok := cur.(*ssa.Alloc); ok && core.IsNamed(a.Type(), pkgLSP, "document") {
		return core.FnKey(core.Outer(a.Parent())) + ": document record " + a.Name(), true
	}
	return "", false
}

func textKey(v ssa.Value) string {
	rv := resolveVal(v)
	if k, ok := docField(rv, "code"); ok {
		return k + " .code"
	}
	return originKey(rv)
}

func runTextAgree(p *core.Program, r *core.Report, fns []*ssa.Function) {
	const rule = "TEXT-AGREE"
	type use struct {
		what string
		key  string
		pos  string
	}
	groups := map[string][]use{}
	var order []string
	addUse := func(fn *ssa.Function, u use) {
		g := core.FnKey(core.Outer(fn))
		if _, ok := groups[g]; !ok {
			order = append(order, g)
		}
		groups[g] = append(groups[g], u)
	}
	var parseCalls []*ssa.Call
	for _, fn := range fns {
		core.Instrs(fn, func(ins ssa.Instruction) {
			switch x := ins.(type) {
			case *ssa.Call:
				callee := x.Call.StaticCallee()
				if callee == nil {
					return
				}
				switch {
				case isPosConv(callee):
					addUse(fn, use{"text given to " + callee.Name(), textKey(x.Call.Args[0]), p.InsPos(ins)})
				case core.PkgPathOf(callee) == pkgParse && callee.Name() == "Parse":
					parseCalls = append(parseCalls, x)
					if src := sourceCodeOf(x); src != nil {
						addUse(fn, use{"text parsed", textKey(src), p.InsPos(ins)})
					} else {
						addUse(fn, use{"text parsed", "unresolved@" + p.InsPos(ins), p.InsPos(ins)})
					}
				case core.PkgPathOf(callee) == pkgNP && callee.Name() == "Find":
					root := x.Call.Args[0]
					if mi, ok := root.(*ssa.MakeInterface); ok {
						root = mi.X
					}
					if k, ok := docField(resolveVal(root), "tree", "Root"); ok {
						addUse(fn, use{"tree searched by np.Find", k + " .code", p.InsPos(ins)})
					} else {
						addUse(fn, use{"tree searched by np.Find", "tree of " + originKey(root), p.InsPos(ins)})
					}
				}
			case *ssa.Store:
				fa, ok := x.Addr.(*ssa.FieldAddr)
				if !ok {
					return
				}
				n, f := core.FieldName(fa)
				if n == nil || n.Obj().Pkg() == nil {
					return
				}
				switch {
				case n.Obj().Pkg().Path() == pkgComplete && n.Obj().Name() == "CodeBuffer" && f == "Content":
					addUse(fn, use{"text given to the completer", textKey(x.Val), p.InsPos(ins)})
				case n.Obj().Pkg().Path() == pkgLSP && n.Obj().Name() == "document" && docFieldKind(fa) == "code":
					addUse(fn, use{"text stored in the document record", textKey(x.Val), p.InsPos(ins)})
				}
			}
		})
	}
	sort.Strings(order)
	for _, g := range order {
		us := groups[g]
		keys := map[string]bool{}
		var whats []string
		for _, u := range us {
			keys[u.key] = true
			whats = append(whats, u.what)
		}
		construct := g + " uses one text"
		if len(keys) == 1 {
			r.OK(rule, construct, us[0].pos, "all "+fmtInt(int64(len(us)))+" uses ("+strings.Join(dedupe(whats), "; ")+") denote the same string")
			continue
		}
		var ks []string
		for _, u := range us {
			ks = append(ks, u.what+" = "+u.key)
		}
		r.Bad(rule, construct, us[0].pos, "one request works on different texts: "+strings.Join(ks, " | ")+" - offsets computed against one string are applied to another, so positions no longer map exactly")
	}
	// the stored record: tree and error from the one parse of the stored text
	nrec := 0
	for _, fn := range fns {
		core.Instrs(fn, func(ins ssa.Instruction) {
			mu, ok := ins.(*ssa.MapUpdate)
			if !ok {
				return
			}
			mt, ok := mu.Map.Type().Underlying().(*types.Map)
			if !ok || !core.IsNamed(mt.Elem(), pkgLSP, "document") {
				return
			}
			nrec++
			construct := core.FnKey(fn) + " stores a document record"
			pos := p.InsPos(ins)
			rec := mu.Value
			if ld, ok := core.IsLoad(rec); ok {
				rec = ld
			}
			if ld, ok := core.IsLoad(resolveVal(mu.Value)); ok {
				rec = ld
			}
			a, ok := rec.(*ssa.Alloc)
			if !ok {
				r.Bad(rule, construct, pos, "the stored record is not a document literal built in place; cannot relate its text, tree and error")
				return
			}
			fs := fieldStores(a)
			// fields are recognised by their types (text: string, tree:
			// parse.Tree, error: error), not by their names
			for name, v := range fieldStoresWithAddr(a) {
				fs[docFieldKind(name)] = v
			}
			tree := resolveVal(fs["tree"])
			perr := resolveVal(fs["err"])
			te, ok1 := tree.(*ssa.Extract)
			ee, ok2 := perr.(*ssa.Extract)
			if !ok1 || !ok2 || te.Tuple != ee.Tuple || te.Index != 0 || ee.Index != 1 {
				r.Bad(rule, construct, pos, "the record's parseTree and parseErr are not the two results of one parse.Parse call")
				return
			}
			pc, ok := te.Tuple.(*ssa.Call)
			if !ok || pc.Call.StaticCallee() == nil || core.PkgPathOf(pc.Call.StaticCallee()) != pkgParse || pc.Call.StaticCallee().Name() != "Parse" {
				r.Bad(rule, construct, pos, "the record's tree does not come from parse.Parse")
				return
			}
			src := sourceCodeOf(pc)
			if src == nil || fs["code"] == nil || textKey(src) != textKey(fs["code"]) {
				r.Bad(rule, construct, pos, "the text stored in the record is not the text that was parsed into its tree: later position conversions and tree searches disagree")
				return
			}
			r.OK(rule, construct, pos, "code, parseTree and parseErr all come from one parse.Parse call on the stored text")
		})
	}
	r.Anchor(rule, "a document record is stored somewhere in pkg/lsp", nrec > 0)
}

func dedupe(in []string) []string {
	seen := map[string]bool{}
	var out []string
	for _, s := range in {
		if !seen[s] {
			seen[s] = true
			out = append(out, s)
		}
	}
	return out
}

// sourceCodeOf returns the value stored into the Code field of the
// parse.Source literal passed to a parse.Parse call.
func sourceCodeOf(pc *ssa.Call) ssa.Value {
	if len(pc.Call.Args) == 0 {
		return nil
	}
	arg := pc.Call.Args[0]
	addr, ok := core.IsLoad(arg)
	if !ok {
		return nil
	}
	a, ok := addr.(*ssa.Alloc)
	if !ok {
		return nil
	}
	return fieldStores(a)["Code"]
}

// ---------------------------------------------------------------------------

func runDiagSource(p *core.Program, r *core.Report, fns []*ssa.Function) {
	const rule = "DIAG-SOURCE"
	// (1) the range converter(s): Start/End through one offset->position
	// function on the same string, From and To of the ranger's Range()
	nconv := 0
	for _, fn := range fns {
		if !isPosConv(fn) || fn.Signature.Results().Len() != 1 {
			continue
		}
		rt, ok := fn.Signature.Results().At(0).Type().(*types.Named)
		if !ok || rt.Obj().Name() != "Range" || rt.Obj().Pkg().Path() != pkgGoLSP {
			continue
		}
		nconv++
		construct := core.FnKey(fn) + " converts From->Start and To->End against one text"
		pos := p.Pos(fn.Pos())
		var lit *ssa.Alloc
		core.Instrs(fn, func(ins ssa.Instruction) {
			if ret, ok := ins.(*ssa.Return); ok && len(ret.Results) == 1 {
				if addr, ok := core.IsLoad(ret.Results[0]); ok {
					if a, ok := addr.(*ssa.Alloc); ok {
						lit = a
					}
				}
			}
		})
		if lit == nil {
			r.Bad(rule, construct, pos, "the converter does not return a Range literal built in place; cannot relate Start and End to From and To")
			continue
		}
		fs := fieldStores(lit)
		check := func(field, want string) (string, *ssa.Function, ssa.Value) {
			c, ok := fs[field].(*ssa.Call)
			if !ok || c.Call.StaticCallee() == nil || !isPosConv(c.Call.StaticCallee()) || len(c.Call.Args) != 2 {
				return field + " is not produced by an offset->position conversion", nil, nil
			}
			// offset argument: .From / .To of the result of r.Range()
			off := c.Call.Args[1]
			addr, ok := core.IsLoad(off)
			if !ok {
				return field + "'s offset is not a field of the range", nil, nil
			}
			fa, ok := addr.(*ssa.FieldAddr)
			if !ok {
				return field + "'s offset is not a field of the range", nil, nil
			}
			if _, f := core.FieldName(fa); f != want {
				return field + " is converted from ." + f + " instead of ." + want, nil, nil
			}
			rg := resolveVal(&ssa.UnOp{Op: token.MUL, X: fa.X})
			if cell, ok := fa.X.(*ssa.Alloc); ok {
				if w := singleStoreOf(cell); w != nil {
					rg = w
				}
			}
			return "", c.Call.StaticCallee(), rgSource(rg, fn, c.Call.Args[0])
		}
		e1, f1, s1 := check("Start", "From")
		e2, f2, s2 := check("End", "To")
		switch {
		case e1 != "":
			r.Bad(rule, construct, pos, e1)
		case e2 != "":
			r.Bad(rule, construct, pos, e2)
		case f1 != f2:
			r.Bad(rule, construct, pos, "Start and End are converted by different functions")
		case s1 == nil || s2 == nil || s1 != s2:
			r.Bad(rule, construct, pos, "Start and End are not converted against the converter's own text parameter from one Range() of its ranger parameter")
		default:
			r.OK(rule, construct, pos, "Start = "+f1.Name()+"(s, r.Range().From), End = "+f1.Name()+"(s, r.Range().To)")
		}
	}
	if !r.Anchor(rule, "a (text, Ranger) -> lsp.Range converter exists in pkg/lsp", nconv > 0) {
		return
	}
	// (2) every Diagnostic literal
	ndiag := 0
	for _, fn := range fns {
		core.Instrs(fn, func(ins ssa.Instruction) {
			a, ok := ins.(*ssa.Alloc)
			if !ok || !fromPkg(a.Type(), pkgGoLSP) || !strings.HasSuffix(a.Type().String(), ".Diagnostic") {
				return
			}
			ndiag++
			fk := core.FnKey(fn)
			pos := p.InsPos(ins)
			fs := fieldStores(a)
			conv, ok := fs["Range"].(*ssa.Call)
			if !ok || conv.Call.StaticCallee() == nil || !isPosConv(conv.Call.StaticCallee()) || len(conv.Call.Args) != 2 {
				r.Bad(rule, fk+" diagnostic range", pos, "the diagnostic's Range is not produced by the range converter of pkg/lsp")
				return
			}
			// the ranger: an element of parse.UnpackErrors(E)
			rg := conv.Call.Args[1]
			if mi, ok := rg.(*ssa.MakeInterface); ok {
				rg = mi.X
			}
			rg = resolveVal(rg)
			elemAddr, ok := core.IsLoad(rg)
			var ia *ssa.IndexAddr
			if ok {
				ia, ok = elemAddr.(*ssa.IndexAddr)
			}
			if !ok {
				r.Bad(rule, fk+" diagnostic range", pos, "the converted range is not an element of the unpacked parse errors")
				return
			}
			entries, ok := resolveVal(ia.X).(*ssa.Call)
			if !ok || entries.Call.StaticCallee() == nil || core.PkgPathOf(entries.Call.StaticCallee()) != pkgParse || entries.Call.StaticCallee().Name() != "UnpackErrors" {
				r.Bad(rule, fk+" diagnostic range", pos, "the converted range is not an element of parse.UnpackErrors(err)")
				return
			}
			r.OK(rule, fk+" diagnostic range", pos, "Range = "+conv.Call.StaticCallee().Name()+"(text, entries[i]) with entries = parse.UnpackErrors(err)")
			// the error: second result of a parse.Parse call; the text: what was parsed
			perr, ok := resolveVal(entries.Call.Args[0]).(*ssa.Extract)
			var pc *ssa.Call
			if ok && perr.Index == 1 {
				pc, _ = perr.Tuple.(*ssa.Call)
			}
			if pc == nil || pc.Call.StaticCallee() == nil || core.PkgPathOf(pc.Call.StaticCallee()) != pkgParse || pc.Call.StaticCallee().Name() != "Parse" {
				r.Bad(rule, fk+" diagnostics come from the document's parse", pos, "the unpacked error is not the error result of a parse.Parse call in the same update")
				return
			}
			src := sourceCodeOf(pc)
			if src == nil || textKey(src) != textKey(conv.Call.Args[0]) {
				r.Bad(rule, fk+" diagnostics come from the document's parse", pos, "the ranges are converted against a text other than the one whose parse produced the errors")
			} else {
				r.OK(rule, fk+" diagnostics come from the document's parse", pos, "errors of parse.Parse(text) converted against the same text")
			}
			// one diagnostic per entry
			var slot *ssa.IndexAddr
			for _, ref := range *a.Referrers() {
				ld, ok := ref.(*ssa.UnOp)
				if !ok || ld.Op != token.MUL {
					continue
				}
				for _, r2 := range *ld.Referrers() {
					if st, ok := r2.(*ssa.Store); ok && st.Val == ssa.Value(ld) {
						if s, ok := st.Addr.(*ssa.IndexAddr); ok {
							slot = s
						}
					}
				}
			}
			construct := fk + " one diagnostic per entry"
			if slot == nil {
				r.Bad(rule, construct, pos, "the diagnostic is not stored into an element of a diagnostics slice")
				return
			}
			ms, ok := slot.X.(*ssa.MakeSlice)
			if !ok || lenArg(ms.Len) == nil || resolveVal(lenArg(ms.Len)) != ssa.Value(entries) {
				r.Bad(rule, construct, p.InsPos(slot), "the diagnostics slice is not allocated with len(entries) elements")
				return
			}
			if slot.Index != ia.Index {
				r.Bad(rule, construct, p.InsPos(slot), "diagnostic i is not built from entry i")
				return
			}
			// every iteration stores: from the element load no path reaches the
			// loop header again or leaves the function without the store
			var hdr *ssa.BasicBlock
			switch d := ia.Index.(type) {
			case *ssa.Phi:
				hdr = d.Block()
			case *ssa.BinOp:
				hdr = d.Block()
			}
			var store ssa.Instruction
			for _, r2 := range *slot.Referrers() {
				if st, ok := r2.(*ssa.Store); ok && st.Addr == ssa.Value(slot) {
					store = st
				}
			}
			skipped, _ := core.Reaches(ia, func(i2 ssa.Instruction) bool {
				if _, ok := i2.(*ssa.Return); ok {
					return true
				}
				return hdr != nil && i2.Block() == hdr
			}, func(i2 ssa.Instruction) bool { return i2 == store })
			if hdr == nil || skipped {
				r.Bad(rule, construct, p.InsPos(slot), "some path through the loop over the entries leaves the loop or starts the next iteration without storing the diagnostic: errors are dropped from what is published")
				return
			}
			r.OK(rule, construct, p.InsPos(slot), "make(len(entries)); diags[i] stored on every iteration from entries[i]")
			// published: the slice and the URI
			// the values that denote the slice: the make itself and, when the
			// building function returns it on every path, the result of each
			// call of that function inside pkg/lsp
			aliases := []ssa.Value{ms}
			returnsIt := fn.Signature.Results().Len() == 1
			core.Instrs(fn, func(x ssa.Instruction) {
				if ret, ok := x.(*ssa.Return); ok && (len(ret.Results) != 1 || resolveVal(ret.Results[0]) != ssa.Value(ms)) {
					returnsIt = false
				}
			})
			if returnsIt {
				for _, f2 := range fns {
					core.Instrs(f2, func(x ssa.Instruction) {
						if c, ok := x.(*ssa.Call); ok && c.Call.StaticCallee() == fn {
							aliases = append(aliases, c)
						}
					})
				}
			}
			// ... and the parameter of a function of the package that is handed
			// one of them (publishDiagnostics(conn, uri, seq, diags))
			for i := 0; i < len(aliases) && len(aliases) < 16; i++ {
				al := aliases[i]
				if al.Referrers() == nil {
					continue
				}
				for _, ref := range *al.Referrers() {
					c, ok := ref.(ssa.CallInstruction)
					if !ok {
						continue
					}
					callee := c.Common().StaticCallee()
					if callee == nil || callee.Blocks == nil || core.PkgPathOf(callee) != pkgLSP {
						continue
					}
					for k, a := range c.Common().Args {
						if a == al && k < len(callee.Params) {
							aliases = append(aliases, callee.Params[k])
						}
					}
				}
			}
			var pub *ssa.Alloc
			for _, al := range aliases {
				if al.Referrers() == nil {
					continue
				}
				for _, ref := range *al.Referrers() {
					if st, ok := ref.(*ssa.Store); ok && st.Val == al {
						if fa, ok := st.Addr.(*ssa.FieldAddr); ok {
							if _, f := core.FieldName(fa); f == "Diagnostics" {
								pub, _ = fa.X.(*ssa.Alloc)
							}
						}
					}
				}
			}
			construct = fk + " publishes these diagnostics under the document's URI"
			if pub == nil {
				r.Bad(rule, construct, pos, "the diagnostics slice is not the one placed in PublishDiagnosticsParams")
				return
			}
			uri := fieldStores(pub)["URI"]
			// the key of a store into the documents table that denotes the
			// same value as the published URI (the publishing code may be a
			// helper of the function that stores the document)
			var key ssa.Value
			for _, f2 := range fns {
				core.Instrs(f2, func(i2 ssa.Instruction) {
					if mu, ok := i2.(*ssa.MapUpdate); ok && uri != nil {
						if mt, ok := mu.Map.Type().Underlying().(*types.Map); ok && core.IsNamed(mt.Elem(), pkgLSP, "document") {
							if resolveVal(mu.Key) == resolveVal(uri) {
								key = mu.Key
							}
						}
					}
				})
			}
			if uri == nil || key == nil {
				r.Bad(rule, construct, p.InsPos(pub), "the URI of the published diagnostics is not the key under which the document was stored")
				return
			}
			r.OK(rule, construct, p.InsPos(pub), "PublishDiagnosticsParams{URI: uri, Diagnostics: diags} with the update's own uri")
		})
	}
	r.Anchor(rule, "a Diagnostic literal exists in pkg/lsp", ndiag > 0)
}

// rgSource: returns the converter's text parameter when rg is the result of
// invoking Range() on a parameter of fn and text is fn's first parameter.
func rgSource(rg ssa.Value, fn *ssa.Function, text ssa.Value) ssa.Value {
	c, ok := rg.(*ssa.Call)
	if !ok || !c.Call.IsInvoke() || c.Call.Method.Name() != "Range" {
		return nil
	}
	if _, ok := c.Call.Value.(*ssa.Parameter); !ok {
		return nil
	}
	if resolveVal(text) != ssa.Value(fn.Params[0]) {
		return nil
	}
	return c
}

// docFieldKind names a field of the lsp document record by what it holds:
// "code" (the string), "tree" (parse.Tree), "err" (error); other fields keep
// their own names.
func docFieldKind(fa *ssa.FieldAddr) string {
	n, f := core.FieldName(fa)
	if n == nil || n.Obj().Pkg() == nil || n.Obj().Pkg().Path() != pkgLSP || n.Obj().Name() != "document" {
		return f
	}
	t := fa.Type().(*types.Pointer).Elem()
	switch {
	case isStringType(t):
		return "code"
	case core.IsNamed(t, pkgParse, "Tree"):
		return "tree"
	case t.String() == "error":
		return "err"
	}
	return f
}

// fieldStoresWithAddr: like fieldStores, keyed by the field address.
func fieldStoresWithAddr(a ssa.Value) map[*ssa.FieldAddr]ssa.Value {
	out := map[*ssa.FieldAddr]ssa.Value{}
	refs := a.Referrers()
	if refs == nil {
		return out
	}
	for _, ref := range *refs {
		fa, ok := ref.(*ssa.FieldAddr)
		if !ok || fa.X != a {
			continue
		}
		for _, r2 := range *fa.Referrers() {
			if st, ok := r2.(*ssa.Store); ok && st.Addr == ssa.Value(fa) {
				out[fa] = st.Val
			}
		}
	}
	return out
}

// uniqueCallArg: prm belongs to an unexported function that is called (or
// started with go / defer) at exactly one place in its package and never used
// as a value; returns the argument passed there.
func uniqueCallArg(prm *ssa.Parameter) ssa.Value {
	fn := prm.Parent()
	if fn == nil || fn.Pkg == nil || fn.Parent() != nil {
		return nil
	}
	if obj := fn.Object(); obj == nil || obj.Exported() {
		return nil
	}
	idx := -1
	for i, q := range fn.Params {
		if q == prm {
			idx = i
		}
	}
	var site ssa.CallInstruction
	n := 0
	escaped := false
	scanned := map[*ssa.Function]bool{}
	var scan func(f *ssa.Function)
	scan = func(f *ssa.Function) {
		if f == nil || f.Blocks == nil || scanned[f] {
			return
		}
		scanned[f] = true
		core.Instrs(f, func(ins ssa.Instruction) {
			if c, ok := ins.(ssa.CallInstruction); ok && c.Common().StaticCallee() == fn {
				site = c
				n++
				return
			}
			for _, op := range ins.Operands(nil) {
				if *op == ssa.Value(fn) {
					escaped = true
				}
			}
		})
		for _, a := range f.AnonFuncs {
			scan(a)
		}
	}
	for _, m := range fn.Pkg.Members {
		switch x := m.(type) {
		case *ssa.Function:
			scan(x)
		case *ssa.Type:
			for _, t := range []types.Type{x.Type(), types.NewPointer(x.Type())} {
				ms := fn.Prog.MethodSets.MethodSet(t)
				for i := 0; i < ms.Len(); i++ {
					if f := fn.Prog.MethodValue(ms.At(i)); f != nil && f.Pkg == fn.Pkg && f.Synthetic == "" {
						scan(f)
					}
				}
			}
		}
	}
	if n != 1 || escaped || site == nil || idx < 0 || idx >= len(site.Common().Args) {
		return nil
	}
	return site.Common().Args[idx]
}
