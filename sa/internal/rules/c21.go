package rules

import (
	"go/token"
	"strings"

	"golang.org/x/tools/go/ssa"

	"verif/sa/internal/core"
)

func init() {
	register(&core.Spec{
		ID: "C21",
		Explanation: "Decides structural necessary conditions of C21 on every exit path: (RESTORE-DEFER) in withOp.exec the restore loop runs in a Go defer registered before the first assignment, and set() saves the old value before Var.Set and hands the restore function to the collector only on Set's success edge; tmp registers its restore through the frame's defer list; (DEFERS-RUN) in Closure.Call runDefers is called on every path after the body; (REVERSE) both restore loops run from the last registered function down to the first; (BODY-WINS) an exception produced by a restore/deferred function replaces the result only when the body's own result is nil. Which exception wins in nested dynamic cases is not decided.",
		NotCovered:  "values restored (that save captures the right value), dynamic nesting of tmp/with/defer across calls",
		Rules:       []string{"RESTORE-DEFER", "DEFERS-RUN", "REVERSE", "BODY-WINS", "FORK-SHARED: the list of deferred/restore functions, shared by the forks of a frame, is appended to only with a mutex held", "OP-READONLY: the exec method of a compiled op (and its closures) never writes a field of the op or an element of a slice/map held in one", "DEFER-FORK: a function registered with addDefer calls Elvish code on a fork, not on the finishing closure's own frame", "EXC-NONNIL: an exception is built around an error value only where that value is known to be non-nil (or the result is audited as absorbed by MakePipelineError)", "RESTORE-ALWAYS: in set() the call of the restore collector depends only on error tests and on the collector being non-nil"},
		Patterns:    []string{"./pkg/eval"},
		Run:         func(p *core.Program, r *core.Report) { runC21(p, r); runRCDirect(p, r); runForkShared(p, r, "FORK-SHARED"); runOpReadonly(p, r, "OP-READONLY"); runDeferFork(p, r); runExcNonNil(p, r); runRestoreAlways(p, r) },
		MinCounts:   map[string]int{"RESTORE-ALWAYS": 1, "DEFER-FORK": 1, "EXC-NONNIL": 4, "OP-READONLY": 20, "FORK-SHARED": 1, "RESTORE-DEFER": 4, "DEFERS-RUN": 1, "REVERSE": 2, "BODY-WINS": 2},
		Trusted:     trustedBase,
		Controls: []core.Control{
			{Name: "revert-fix-defers-unlocked", Rule: "FORK-SHARED", File: "pkg/eval/frame.go", Old: "\tfm.defers.mu.Lock()\n\tdefer fm.defers.mu.Unlock()\n\tfm.defers.fns = append(fm.defers.fns, f)", New: "\tfm.defers.fns = append(fm.defers.fns, f)", Fire: true, Want: "addDefer"},
			{Name: "revert-fix-deferred-success-becomes-exception", Rule: "EXC-NONNIL", File: "pkg/eval/builtin_fn_flow.go", Old: "\t\tif err == nil {\n\t\t\treturn nil\n\t\t}\n\t\tif exc, ok := err.(Exception); ok {\n\t\t\treturn exc\n\t\t}\n\t\treturn &exception{err, deferTraceback}", New: "\t\tif exc, ok := err.(Exception); ok {\n\t\t\treturn exc\n\t\t}\n\t\treturn &exception{err, deferTraceback}", Fire: true, Want: "deferFn"},
			{Name: "revert-fix-deferred-callback-on-own-frame", Rule: "DEFER-FORK", File: "pkg/eval/builtin_fn_flow.go", Old: "\t\terr := fn.Call(fm.Fork(), NoArgs, NoOpts)\n\t\tif err == nil {", New: "\t\terr := fn.Call(fm, NoArgs, NoOpts)\n\t\tif err == nil {", Fire: true, Want: "deferFn"},
			{Name: "op-remembers-last-run", Rule: "OP-READONLY", File: "pkg/eval/compile_effect.go", Old: "\tif op.bg {\n\t\tfm = fm.Fork()\n", New: "\tif op.bg {\n\t\top.source = op.source + \" &\"\n\t\tfm = fm.Fork()\n", Fire: true, Want: "pipelineOp"},
			{Name: "op-forms-reordered-in-place", Rule: "OP-READONLY", File: "pkg/eval/compile_effect.go", Old: "\tif op.bg {\n\t\tfm = fm.Fork()\n", New: "\tif op.bg {\n\t\tforms := op.forms\n\t\tif len(forms) > 1 {\n\t\t\tforms[0], forms[1] = forms[1], forms[0]\n\t\t}\n\t\tfm = fm.Fork()\n", Fire: true, Want: "pipelineOp"},
			{Name: "benign-op-copies-forms-before-changing", Rule: "OP-READONLY", File: "pkg/eval/compile_effect.go", Old: "\tif op.bg {\n\t\tfm = fm.Fork()\n", New: "\tif op.bg {\n\t\tforms := append([]*formOp(nil), op.forms...)\n\t\tif len(forms) > 1 {\n\t\t\tforms[0], forms[1] = forms[1], forms[0]\n\t\t}\n\t\tfm = fm.Fork()\n", Fire: false},
			{Name: "assignment-buffers-its-restores", Rule: "RESTORE-DEFER", File: "pkg/eval/compile_lvalue.go", Old: "\t// Now perform assignment.\n", New: "\tvar buffered []func(*Frame) Exception\n\tif flush := rc; rc != nil {\n\t\trc = func(f func(*Frame) Exception) { buffered = append(buffered, f) }\n\t\tdefer func() {\n\t\t\tif len(buffered) == len(variables) {\n\t\t\t\tfor _, f := range buffered {\n\t\t\t\t\tflush(f)\n\t\t\t\t}\n\t\t\t}\n\t\t}()\n\t}\n\t// Now perform assignment.\n", Fire: true, Want: "unchanged"},
			{Name: "with-restores-after-body-not-deferred", Rule: "RESTORE-DEFER", File: "pkg/eval/builtin_special.go", Old: "\tdefer func() {\n\t\tfor i := len(restoreFuncs) - 1; i >= 0; i-- {\n\t\t\texc := restoreFuncs[i](fm)\n\t\t\tif exc != nil && opExc == nil {\n\t\t\t\topExc = exc\n\t\t\t}\n\t\t}\n\t}()\n", New: "\trestoreAll := func() {\n\t\tfor i := len(restoreFuncs) - 1; i >= 0; i-- {\n\t\t\texc := restoreFuncs[i](fm)\n\t\t\tif exc != nil && opExc == nil {\n\t\t\t\topExc = exc\n\t\t\t}\n\t\t}\n\t}\n", Edits: [][2]string{{"\tbody := execLambdaOp(fm, op.bodyOp)\n\treturn fm.errorp(op, body.Call(fm.Fork(), NoArgs, NoOpts))\n}\n\n// Finds LHS and RHS", "\tbody := execLambdaOp(fm, op.bodyOp)\n\topExc = fm.errorp(op, body.Call(fm.Fork(), NoArgs, NoOpts))\n\trestoreAll()\n\treturn opExc\n}\n\n// Finds LHS and RHS"}}, Fire: true, Quick: true},
			{Name: "restore-collected-before-set", Rule: "RESTORE-DEFER", File: "pkg/eval/compile_lvalue.go", Old: "\terr := variable.Set(value)\n\tif err != nil {\n\t\treturn fm.errorp(r, err)\n\t}\n\tif rc != nil {\n\t\trc(restore)\n\t}\n\treturn nil", New: "\tif rc != nil {\n\t\trc(restore)\n\t}\n\terr := variable.Set(value)\n\tif err != nil {\n\t\treturn fm.errorp(r, err)\n\t}\n\treturn nil", Fire: true},
			{Name: "ascending-restore-loop", Rule: "REVERSE", File: "pkg/eval/builtin_special.go", Old: "\t\tfor i := len(restoreFuncs) - 1; i >= 0; i-- {", New: "\t\tfor i := 0; i < len(restoreFuncs); i++ {", Fire: true, Quick: true},
			{Name: "ascending-defers", Rule: "REVERSE", File: "pkg/eval/frame.go", Old: "\tfor i := len(defers) - 1; i >= 0; i-- {", New: "\tfor i := 0; i < len(defers); i++ {", Fire: true},
			{Name: "defers-skipped-on-exception", Rule: "DEFERS-RUN", File: "pkg/eval/closure.go", Old: "\texc := c.op.exec(fm)\n\texcDefer := fm.runDefers()", New: "\texc := c.op.exec(fm)\n\tif exc != nil {\n\t\treturn exc\n\t}\n\texcDefer := fm.runDefers()", Fire: true},
			{Name: "defer-exception-overrides-body", Rule: "BODY-WINS", File: "pkg/eval/closure.go", Old: "\tif excDefer != nil && exc == nil {\n\t\texc = excDefer\n\t}", New: "\tif excDefer != nil {\n\t\texc = excDefer\n\t}", Fire: true},
			{Name: "benign-descending-loop-other-form", Rule: "REVERSE", File: "pkg/eval/frame.go", Old: "\tfor i := len(defers) - 1; i >= 0; i-- {\n\t\texc2 := defers[i](fm)", New: "\tfor n := len(defers); n > 0; n-- {\n\t\ti := n - 1\n\t\texc2 := defers[i](fm)", Fire: false},
		},
	})
}

// descendingLoop reports whether the indirect calls of function values taken
// from the slice-typed expression in fn are indexed by a counter that starts
// at len-1 (or len with index n-1) and decreases.
func descendingIndex(idx ssa.Value, seen map[ssa.Value]bool) bool {
	if seen[idx] {
		return false
	}
	seen[idx] = true
	switch x := idx.(type) {
	case *ssa.Phi:
		// init edge: len(..)-k ; step edge: phi - 1
		hasInit, hasStep := false, false
		for _, e := range x.Edges {
			if b, ok := e.(*ssa.BinOp); ok && b.Op == token.SUB {
				if b.X == ssa.Value(x) {
					if n, ok := constInt(b.Y); ok && n == 1 {
						hasStep = true
						continue
					}
				}
				if lenArg(b.X) != nil {
					hasInit = true
					continue
				}
			}
			if lenArg(e) != nil {
				hasInit = true
				continue
			}
			if b, ok := e.(*ssa.BinOp); ok && b.Op == token.ADD && b.X == ssa.Value(x) {
				if n, ok := constInt(b.Y); ok && n == -1 {
					hasStep = true
					continue
				}
			}
			return false
		}
		return hasInit && hasStep
	case *ssa.BinOp:
		// i := n - 1 with n a descending counter
		if x.Op == token.SUB {
			if _, ok := constInt(x.Y); ok {
				return descendingIndex(x.X, seen)
			}
		}
	}
	return false
}

func runC21(p *core.Program, r *core.Report) {
	with := p.Method(pkgEval, "withOp", "exec")
	setFn := p.Func(pkgEval, "set")
	assign := p.Method(pkgEval, "assignOp", "exec")
	runDefers := p.Method(pkgEval, "Frame", "runDefers")
	addDefer := p.Method(pkgEval, "Frame", "addDefer")
	closureCall := p.Method(pkgEval, "Closure", "Call")
	doAssign := p.Func(pkgEval, "doAssign")
	if !r.Anchor("RESTORE-DEFER", "withOp.exec, set, assignOp.exec, Frame.runDefers, Frame.addDefer, Closure.Call, doAssign", with != nil && setFn != nil && assign != nil && runDefers != nil && addDefer != nil && closureCall != nil && doAssign != nil) {
		return
	}
	// --- RESTORE-DEFER (a): withOp.exec defers the restore loop before assigning
	var deferIns *ssa.Defer
	var restoreClosure *ssa.Function
	var firstAssign ssa.Instruction
	core.Instrs(with, func(ins ssa.Instruction) {
		if d, ok := ins.(*ssa.Defer); ok {
			if cf, ok := closureOf(d.Call.Value); ok {
				// the closure calls function values out of a slice
				core.Instrs(cf, func(x ssa.Instruction) {
					if c, ok := x.(*ssa.Call); ok && !c.Call.IsInvoke() && c.Call.StaticCallee() == nil {
						if _, isBuiltin := c.Call.Value.(*ssa.Builtin); !isBuiltin {
							deferIns, restoreClosure = d, cf
						}
					}
				})
			}
		}
		if c, ok := ins.(*ssa.Call); ok && c.Call.StaticCallee() == doAssign && firstAssign == nil {
			firstAssign = ins
		}
	})
	if deferIns != nil && firstAssign != nil && core.Precedes(deferIns, firstAssign) {
		r.OK("RESTORE-DEFER", "(*eval.withOp).exec restore loop deferred before the first assignment", p.InsPos(deferIns), "the defer dominates every doAssign call, so the restores run on every exit (exception, break, return, panic)")
	} else {
		r.Bad("RESTORE-DEFER", "(*eval.withOp).exec restore loop deferred before the first assignment", p.Pos(with.Pos()), "the restore functions are not run from a defer registered before the assignments: an exception (or break/return) in an assignment or in the body skips the restoration")
	}
	// the collector passed to doAssign appends to the slice the deferred closure reads
	if firstAssign != nil {
		args := firstAssign.(*ssa.Call).Call.Args
		if cf, ok := closureOf(args[len(args)-1]); ok {
			appends := false
			core.Instrs(cf, func(x ssa.Instruction) {
				if c, ok := x.(*ssa.Call); ok {
					if b, ok := c.Call.Value.(*ssa.Builtin); ok && b.Name() == "append" {
						appends = true
					}
				}
			})
			if appends {
				r.OK("RESTORE-DEFER", "(*eval.withOp).exec collector appends restore functions", p.InsPos(firstAssign), "the collector handed to doAssign appends to the restore list")
			} else {
				r.Bad("RESTORE-DEFER", "(*eval.withOp).exec collector appends restore functions", p.InsPos(firstAssign), "the collector handed to doAssign does not record the restore function")
			}
		} else {
			r.Bad("RESTORE-DEFER", "(*eval.withOp).exec collector appends restore functions", p.InsPos(firstAssign), "doAssign is called without a restore collector")
		}
	}
	// --- RESTORE-DEFER (b): set(): save ≺ Set ≺ rc(restore) on success edge only
	var saveCall, rcCall ssa.Instruction
	var setCalls []*ssa.Call
	core.Instrs(setFn, func(ins ssa.Instruction) {
		c, ok := ins.(*ssa.Call)
		if !ok {
			return
		}
		callee := c.Call.StaticCallee()
		if callee != nil && core.IsFunc(callee, pkgEval, "", "save") {
			saveCall = ins
		}
		if isVarSetInvoke(c) {
			setCalls = append(setCalls, c)
		} else if callee != nil && core.PkgPathOf(callee) == pkgEval && nilIffVarSetSucceeded(callee) {
			// a helper that performs the Var.Set and returns nil exactly
			// when it succeeded stands for the Set itself
			setCalls = append(setCalls, c)
		}
		if !c.Call.IsInvoke() && callee == nil {
			if prm, ok := c.Call.Value.(*ssa.Parameter); ok && strings.HasSuffix(prm.Type().String(), "restoreCollector") {
				rcCall = ins
			}
		}
	})
	if r.Anchor("RESTORE-DEFER", "save, Var.Set and rc(restore) calls in eval.set", saveCall != nil && len(setCalls) > 0 && rcCall != nil) {
		saveFirst := true
		for _, sc := range setCalls {
			if !(core.Precedes(saveCall, sc) || !reachesIns(sc, saveCall)) {
				saveFirst = false
			}
		}
		if saveFirst {
			r.OK("RESTORE-DEFER", "eval.set saves the old value before Var.Set", p.InsPos(saveCall), "save cannot follow Set on any path")
		} else {
			r.Bad("RESTORE-DEFER", "eval.set saves the old value before Var.Set", p.InsPos(saveCall), "the value to restore is captured after the variable was already overwritten")
		}
		// rc(restore) only after a successful Set
		okEdge := false
		for _, sc := range setCalls {
			if core.Precedes(sc, rcCall) && onNilEdgeOf(sc, rcCall.Block()) {
				okEdge = true
			}
		}
		if okEdge {
			r.OK("RESTORE-DEFER", "eval.set registers the restore only after a successful Set", p.InsPos(rcCall), "rc(restore) is dominated by the err == nil edge of Var.Set")
		} else {
			r.Bad("RESTORE-DEFER", "eval.set registers the restore only after a successful Set", p.InsPos(rcCall), "the restore function is registered although the assignment may have failed (or before it happened): a failed tmp/with assignment would later 'restore' a variable that was never changed, or an exception between registration and Set leaves a stale restore")
		}
	}
	// --- RESTORE-DEFER (c): tmp registers through addDefer
	usesAddDefer := false
	core.Instrs(assign, func(ins ssa.Instruction) {
		if mc, ok := ins.(*ssa.MakeClosure); ok {
			if f, ok := mc.Fn.(*ssa.Function); ok && strings.Contains(f.Name(), "addDefer") {
				usesAddDefer = true
			}
		}
	})
	if usesAddDefer {
		r.OK("RESTORE-DEFER", "(*eval.assignOp).exec tmp registers its restore with Frame.addDefer", p.Pos(assign.Pos()), "the collector is the frame's addDefer method value")
	} else {
		r.Bad("RESTORE-DEFER", "(*eval.assignOp).exec tmp registers its restore with Frame.addDefer", p.Pos(assign.Pos()), "temporary assignment does not register its restore function in the enclosing function's defer list")
	}

	// --- DEFERS-RUN
	var bodyExec, runCall ssa.Instruction
	core.Instrs(closureCall, func(ins ssa.Instruction) {
		c, ok := ins.(*ssa.Call)
		if !ok {
			return
		}
		if c.Call.IsInvoke() && c.Call.Method.Name() == "exec" {
			bodyExec = ins
		}
		if c.Call.StaticCallee() == runDefers {
			runCall = ins
		}
	})
	if r.Anchor("DEFERS-RUN", "body exec and runDefers calls in Closure.Call", bodyExec != nil && runCall != nil) {
		ok, exit := core.MustPass(bodyExec, func(x ssa.Instruction) bool { return x == runCall }, nil)
		if ok {
			r.OK("DEFERS-RUN", "(*eval.Closure).Call runDefers after the body on every path", p.InsPos(runCall), "every path from the body's exec to a return passes fm.runDefers()")
		} else {
			r.Bad("DEFERS-RUN", "(*eval.Closure).Call runDefers after the body on every path", p.InsPos(exit), "a path returns from the function call without running its deferred callbacks (defer/tmp are skipped, e.g. when the body raised an exception)")
		}
	}

	// --- REVERSE
	checkReverse := func(fn *ssa.Function, label string) {
		found := false
		core.Instrs(fn, func(ins ssa.Instruction) {
			c, ok := ins.(*ssa.Call)
			if !ok || c.Call.IsInvoke() || c.Call.StaticCallee() != nil {
				return
			}
			// call of a function value loaded from slice[index]
			ld, ok := c.Call.Value.(*ssa.UnOp)
			if !ok {
				return
			}
			ia, ok := ld.X.(*ssa.IndexAddr)
			if !ok {
				return
			}
			found = true
			// RUN-ALL: no return bypasses the loop
			if hdr := loopHeaderOf(ia.Index); hdr != nil {
				bypass := false
				var where ssa.Instruction
				core.Instrs(fn, func(x ssa.Instruction) {
					if _, isRet := x.(*ssa.Return); isRet && !hdr.Dominates(x.Block()) {
						bypass, where = true, x
					}
				})
				if bypass {
					r.Bad("DEFERS-RUN", label+" runs every registered function on every path", p.InsPos(where), "a path returns before the loop over the registered restore/deferred functions: on that path (e.g. when evaluation was interrupted) tmp restores and deferred callbacks are skipped")
				} else {
					r.OK("DEFERS-RUN", label+" runs every registered function on every path", p.InsPos(ins), "every return is dominated by the loop over the registered functions")
				}
			}
			if descendingIndex(ia.Index, map[ssa.Value]bool{}) {
				r.OK("REVERSE", label+" runs registered functions last-to-first", p.InsPos(ins), "the index starts at len-1 and decreases")
			} else {
				r.Bad("REVERSE", label+" runs registered functions last-to-first", p.InsPos(ins), "the registered functions are not run in reverse registration order")
			}
		})
		if !found {
			// slices.Backward or similar: accept only an explicit call
			viaBackward := false
			core.Instrs(fn, func(ins ssa.Instruction) {
				if c, ok := ins.(ssa.CallInstruction); ok {
					if callee := c.Common().StaticCallee(); callee != nil && strings.HasPrefix(callee.String(), "slices.Backward") {
						viaBackward = true
					}
				}
			})
			if viaBackward {
				r.OK("REVERSE", label+" runs registered functions last-to-first", p.Pos(fn.Pos()), "iterates over slices.Backward")
			} else {
				r.Bad("REVERSE", label+" runs registered functions last-to-first", p.Pos(fn.Pos()), "cannot find the loop that runs the registered functions")
			}
		}
	}
	if restoreClosure != nil {
		checkReverse(restoreClosure, "(*eval.withOp).exec restore loop")
	}
	checkReverse(runDefers, "(*eval.Frame).runDefers")

	// --- BODY-WINS: in Closure.Call the value returned is the body's exception unless it is nil
	if bodyExec != nil && runCall != nil {
		bodyVal, deferVal := bodyExec.(*ssa.Call), runCall.(*ssa.Call)
		verdict := "unknown"
		core.Instrs(closureCall, func(ins ssa.Instruction) {
			ret, ok := ins.(*ssa.Return)
			if !ok || len(ret.Results) != 1 {
				return
			}
			v := ret.Results[0]
			if mi, ok := v.(*ssa.MakeInterface); ok {
				v = mi.X
			}
			if ci, ok := v.(*ssa.ChangeInterface); ok {
				v = ci.X
			}
			phi, ok := v.(*ssa.Phi)
			if !ok {
				if v == ssa.Value(bodyVal) && !reachesIns(runCall, ins) {
					return // early return of the body's exception before runDefers: judged by DEFERS-RUN
				}
				if v == ssa.Value(deferVal) {
					verdict = "bad"
				}
				return
			}
			// edges carrying deferVal must come from a block dominated by `body == nil`
			for i, e := range phi.Edges {
				if e != ssa.Value(deferVal) {
					continue
				}
				pred := phi.Block().Preds[i]
				isBodyNil := func(c ssa.Value) bool {
					cmp, ok := c.(*ssa.BinOp)
					if !ok || cmp.Op != token.EQL {
						return false
					}
					k, isC := cmp.Y.(*ssa.Const)
					return cmp.X == ssa.Value(bodyVal) && isC && k.IsNil()
				}
				isBodyNonNil := func(c ssa.Value) bool {
					cmp, ok := c.(*ssa.BinOp)
					if !ok || cmp.Op != token.NEQ {
						return false
					}
					k, isC := cmp.Y.(*ssa.Const)
					return cmp.X == ssa.Value(bodyVal) && isC && k.IsNil()
				}
				if dominatedByCondEdge(closureCall, isBodyNil, true, pred) || dominatedByCondEdge(closureCall, isBodyNonNil, false, pred) {
					if verdict == "unknown" {
						verdict = "ok"
					}
				} else {
					verdict = "bad"
				}
			}
		})
		switch verdict {
		case "ok":
			r.OK("BODY-WINS", "(*eval.Closure).Call deferred exception reported only if the body succeeded", p.InsPos(runCall), "the result takes runDefers' exception only on the `body exception == nil` edge")
		case "bad":
			r.Bad("BODY-WINS", "(*eval.Closure).Call deferred exception reported only if the body succeeded", p.InsPos(runCall), "an exception from a deferred callback can replace the exception raised by the body itself")
		default:
			r.Bad("BODY-WINS", "(*eval.Closure).Call deferred exception reported only if the body succeeded", p.InsPos(runCall), "cannot resolve how the body's and the deferred callbacks' exceptions are combined")
		}
	}
	// in the two loops: the accumulated exception is only set when it is still nil
	for _, fn := range []*ssa.Function{restoreClosure, runDefers} {
		if fn == nil {
			continue
		}
		label := core.FnKey(fn)
		if fn == restoreClosure {
			label = "(*eval.withOp).exec restore loop"
		}
		// find the `acc == nil` test
		guarded := false
		core.Instrs(fn, func(ins ssa.Instruction) {
			iff, ok := ins.(*ssa.If)
			if !ok {
				return
			}
			cmp, ok := iff.Cond.(*ssa.BinOp)
			if !ok || cmp.Op != token.EQL {
				return
			}
			if k, isC := cmp.Y.(*ssa.Const); isC && k.IsNil() && strings.HasSuffix(cmp.X.Type().String(), "eval.Exception") {
				// the value tested must not be the fresh call result (that is the `exc != nil` half)
				if _, isCall := cmp.X.(*ssa.Call); !isCall {
					guarded = true
				}
			}
		})
		if guarded {
			r.OK("BODY-WINS", label+" keeps the first exception", p.Pos(fn.Pos()), "a later restore/deferred exception is recorded only while the accumulated one is nil")
		} else {
			r.Bad("BODY-WINS", label+" keeps the first exception", p.Pos(fn.Pos()), "a restore/deferred exception overwrites an earlier (or the body's) exception")
		}
	}
}

func reachesIns(from, to ssa.Instruction) bool {
	ok, _ := core.Reaches(from, func(x ssa.Instruction) bool { return x == to }, nil)
	return ok
}

// loopHeaderOf returns the block of the loop counter phi an index is derived from.
func loopHeaderOf(idx ssa.Value) *ssa.BasicBlock {
	for i := 0; i < 4; i++ {
		switch x := idx.(type) {
		case *ssa.Phi:
			return x.Block()
		case *ssa.BinOp:
			idx = x.X
		default:
			return nil
		}
	}
	return nil
}

// isVarSetInvoke: an interface call of vars.Var.Set.
func isVarSetInvoke(c *ssa.Call) bool {
	return c.Call.IsInvoke() && c.Call.Method.Name() == "Set" && isVarIface(c.Call.Value.Type())
}

// onNilEdgeOf reports whether block blk is entered only through the
// "v == nil" edge of a branch on the (error or Exception) result v of call.
func onNilEdgeOf(call *ssa.Call, blk *ssa.BasicBlock) bool {
	return onResultEdgeOf(call, blk, true)
}

func onResultEdgeOf(call *ssa.Call, blk *ssa.BasicBlock, wantNil bool) bool {
	fn := call.Parent()
	for _, b := range fn.Blocks {
		if len(b.Instrs) == 0 {
			continue
		}
		iff, ok := b.Instrs[len(b.Instrs)-1].(*ssa.If)
		if !ok {
			continue
		}
		cmp, ok := iff.Cond.(*ssa.BinOp)
		if !ok || (cmp.Op != token.NEQ && cmp.Op != token.EQL) {
			continue
		}
		if !(cmp.X == ssa.Value(call) && isNilConst(cmp.Y) || cmp.Y == ssa.Value(call) && isNilConst(cmp.X)) {
			continue
		}
		edge := core.EdgeTo(b, blk)
		if edge < 0 {
			continue
		}
		isNilEdge := (cmp.Op == token.NEQ && edge == 1) || (cmp.Op == token.EQL && edge == 0)
		if isNilEdge == wantNil {
			return true
		}
	}
	return false
}

// nilIffVarSetSucceeded: fn performs exactly one vars.Var.Set and its single
// (error or Exception) result is nil exactly when that Set returned nil:
// every return of a nil constant lies on the Set's err == nil edge and every
// other return lies on its err != nil edge and returns something made there.
func nilIffVarSetSucceeded(fn *ssa.Function) bool {
	if fn == nil || len(fn.Blocks) == 0 || fn.Signature.Results().Len() != 1 {
		return false
	}
	var set *ssa.Call
	count := 0
	core.Instrs(fn, func(ins ssa.Instruction) {
		if c, ok := ins.(*ssa.Call); ok && isVarSetInvoke(c) {
			set = c
			count++
		}
	})
	if count != 1 {
		return false
	}
	ok := true
	nret := 0
	core.Instrs(fn, func(ins ssa.Instruction) {
		ret, isRet := ins.(*ssa.Return)
		if !isRet {
			return
		}
		nret++
		if len(ret.Results) != 1 {
			ok = false
			return
		}
		if isNilConst(ret.Results[0]) {
			if !onNilEdgeOf(set, ret.Block()) {
				ok = false
			}
			return
		}
		// the failure side: reached only when Set failed, and the value is
		// built there from the error (a call result, never a phi or nil)
		if !onResultEdgeOf(set, ret.Block(), false) {
			ok = false
			return
		}
		if _, isCall := ret.Results[0].(*ssa.Call); !isCall {
			if ret.Results[0] != ssa.Value(set) {
				ok = false
			}
		}
	})
	return ok && nret > 0
}
