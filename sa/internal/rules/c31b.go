package rules

import (
	"go/types"
	"sort"

	"golang.org/x/tools/go/ssa"

	"verif/sa/internal/core"
)

// seqIndexAudit: index operations of the terminal decoder that are in range
// for a reason the length analysis cannot express. Key: construct.
var seqIndexAudit = map[string]string{}

// runSeqIndex (C31 SEQ-INDEX): in every function of the terminal decoder -
// whatever is reachable, inside pkg/cli/term, from the functions that read
// bytes or runes with a timeout - each index or slice operation on a slice or
// string is within range on every path. The parameter list of a CSI sequence
// is built from bytes the terminal (or whoever writes to it) chooses, so an
// unguarded nums[k] is a crash on a crafted or truncated sequence.
func runSeqIndex(p *core.Program, r *core.Report) {
	const rule = "SEQ-INDEX"
	readRune := p.Func(pkgTerm, "readRune")
	var roots []*ssa.Function
	for _, fn := range p.FnsInPkg(pkgTerm) {
		reads := false
		core.Instrs(fn, func(ins ssa.Instruction) {
			c, ok := ins.(*ssa.Call)
			if !ok {
				return
			}
			if c.Call.IsInvoke() && c.Call.Method.Name() == "ReadByteWithTimeout" {
				reads = true
			}
			if readRune != nil && c.Call.StaticCallee() == readRune {
				reads = true
			}
		})
		if reads {
			roots = append(roots, core.Outer(fn))
		}
	}
	if !r.Anchor(rule, "functions of pkg/cli/term that read bytes or runes with a timeout", len(roots) >= 2) {
		return
	}
	scope := reachableInPkg(roots, pkgTerm)
	var fns []*ssa.Function
	for f := range scope {
		fns = append(fns, f)
	}
	sort.Slice(fns, func(i, j int) bool { return fns[i].String() < fns[j].String() })
	r.Count(rule+" decoder functions", len(fns))
	fe := newFactEngine(p, map[*ssa.Function]string{})
	seen := map[string]bool{}
	for _, fn := range fns {
		fk := core.FnKey(fn)
		core.Instrs(fn, func(ins ssa.Instruction) {
			type ob struct {
				base, idx ssa.Value
				kind      string
			}
			var obs []ob
			switch x := ins.(type) {
			case *ssa.IndexAddr:
				if _, isSlice := x.X.Type().Underlying().(*types.Slice); isSlice {
					obs = append(obs, ob{x.X, x.Index, "index"})
				} else if _, isConst := constInt(x.Index); !isConst {
					obs = append(obs, ob{x.X, x.Index, "array-index"})
				}
			case *ssa.Index:
				if isStringType(x.X.Type()) {
					// s[i] on a string
					obs = append(obs, ob{x.X, x.Index, "index"})
				} else if _, isConst := constInt(x.Index); !isConst {
					obs = append(obs, ob{x.X, x.Index, "array-index"})
				}
			case *ssa.Lookup:
				if isStringType(x.X.Type()) {
					obs = append(obs, ob{x.X, x.Index, "index"})
				}
			case *ssa.Slice:
				if _, isPtr := x.X.Type().Underlying().(*types.Pointer); isPtr {
					// slicing a whole array: bounds are checked against the array type
					if x.Low == nil && x.High == nil {
						return
					}
				}
				kind := "slice"
				if ptr, isPtr := x.X.Type().Underlying().(*types.Pointer); isPtr {
					if _, isArr := ptr.Elem().Underlying().(*types.Array); isArr {
						// buf[:n] on a fixed-size array: bounds are compared with the array length
						kind = "array-slice"
					}
				}
				for _, b := range []ssa.Value{x.Low, x.High, x.Max} {
					if b != nil {
						obs = append(obs, ob{x.X, b, kind})
					}
				}
			}
			for _, o := range obs {
				construct := fk + " " + o.kind + " " + addrDesc(o.base) + "[" + idxDesc(o.idx) + "]"
				if seen[construct] {
					// the same expression again in this function: decide each, report once per outcome
					construct += " (again)"
				}
				seen[construct] = true
				pos := p.InsPos(ins)
				if o.kind == "array-slice" {
					arrLen := o.base.Type().Underlying().(*types.Pointer).Elem().Underlying().(*types.Array).Len()
					facts := fe.at(o.idx, ins, 0)
					if c, isC := constInt(o.idx); isC && c >= 0 && c <= arrLen {
						r.OK(rule, construct, pos, "constant bound within the array")
					} else if needOK(facts, "ge0") && needOK(facts, "range:0:"+fmtInt(arrLen)) {
						r.OK(rule, construct, pos, "slice bound within the array ["+facts.String()+"]")
					} else if why, ok := seqIndexAudit[construct]; ok {
						r.Audit(rule, construct, pos, why)
					} else {
						r.Bad(rule, construct, pos, "a fixed-size buffer is sliced with a bound not proven to be within it [known: "+facts.String()+"]")
					}
					continue
				}
				if o.kind == "array-index" {
					arrLen := int64(-1)
					t := o.base.Type().Underlying()
					if ptr, ok := t.(*types.Pointer); ok {
						t = ptr.Elem().Underlying()
					}
					if arr, ok := t.(*types.Array); ok {
						arrLen = arr.Len()
					}
					facts := fe.at(o.idx, ins, 0)
					if needOK(facts, "ge0") && arrLen >= 0 && needOK(facts, "range:0:"+fmtInt(arrLen-1)) {
						r.OK(rule, construct, pos, "array index bounded ["+facts.String()+"]")
					} else if why, ok := seqIndexAudit[construct]; ok {
						r.Audit(rule, construct, pos, why)
					} else {
						r.Bad(rule, construct, pos, "array indexed by a value not proven to be within the array [known: "+facts.String()+"]")
					}
					continue
				}
				ok, why := indexSafe(fe, o.base, o.idx, o.kind, ins)
				switch {
				case ok:
					r.OK(rule, construct, pos, why)
				case seqIndexAudit[construct] != "":
					r.Audit(rule, construct, pos, seqIndexAudit[construct])
				default:
					r.Bad(rule, construct, pos, "the terminal decoder indexes a list built from input bytes out of its proven length ("+why+"): a crafted or truncated escape sequence crashes the reader instead of producing an error event")
				}
			}
		})
	}
}
